"""C02 (folding): graph.folding.group_foldable_modules partitions the modules of one frontier into fold groups.

   partition   every module is in exactly one group; inside a group the modules keep their frontier order (fold index = position)
   soundness   two modules share a group ONLY IF they have the same class, equal fold_settings, and sub-modules (evidence layers wrap a
               layer) of the same names whose classes and fold_settings are equal as well
(completeness - equal settings are grouped - is an optimisation, not part of the property, and is not demanded.)  fold_settings are tuples of symbolic integers, classes are chosen per harness.
"""
import itertools

import z3

from engine.vc import obligation
from engine.values import Opaque, ClassVal, to_z3
from contracts.lib import *

GF = "cirkit/backend/torch/graph/folding.py"
LI = "cirkit/backend/torch/layers/inner.py"
LP = "cirkit/backend/torch/layers/input.py"


def _module(vc, name, ci, settings, sub=None):
    m = Opaque(name, {"__identity_eq__": True}, cls=ci)
    m.attrs["fold_settings"] = lambda _o: tuple(settings)
    m.attrs["sub_modules"] = lambda _o: dict(sub or {})
    m.settings, m.sub = tuple(settings), dict(sub or {})
    return m


def _same(vc, a, b):
    """the specification of 'may be folded together'"""
    if a.cls is not b.cls or len(a.settings) != len(b.settings) or list(a.sub) != list(b.sub):
        return z3.BoolVal(False)
    cl = [to_z3(x) == to_z3(y) for x, y in zip(a.settings, b.settings)]
    cl += [_same(vc, a.sub[k], b.sub[k]) for k in a.sub]
    return z3.And(*cl, True)


def _check(vc, mods):
    groups = vc.call(f"{GF}:group_foldable_modules", list(mods))
    groups = [list(g) for g in groups]
    flat = [m for g in groups for m in g]
    vc.ensure("every_module_in_exactly_one_group", len(flat) == len(mods) and all(sum(1 for x in flat if x is m) == 1 for m in mods))
    pos = {id(m): i for i, m in enumerate(mods)}
    vc.ensure("frontier_order_kept_inside_groups", all(pos[id(a)] < pos[id(b)] for g in groups for a, b in zip(g, g[1:])))
    for g in groups:
        for a, b in itertools.combinations(g, 2):
            vc.ensure(f"grouped_only_if_foldable.{a.name}.{b.name}", _same(vc, a, b))


for _classes in (("sum", "sum"), ("sum", "hadamard"), ("sum", "sum", "sum"), ("sum", "hadamard", "sum")):
    def _h(vc, _classes=_classes):
        cis = {"sum": vc.repo.lookup(f"{LI}:TorchSumLayer"), "hadamard": vc.repo.lookup(f"{LI}:TorchHadamardLayer")}
        mods = [_module(vc, f"m{i}", cis[c], [vc.int(f"m{i}_s{j}") for j in range(2)]) for i, c in enumerate(_classes)]
        _check(vc, mods)
    obligation("C02.group_foldable_modules." + "_".join(_classes), "C02", [f"{GF}:group_foldable_modules"])(_h)


for _n in (2, 3):
    def _h(vc, _n=_n):
        """modules wrapping a sub-module (evidence layers): the wrapped layers' classes and settings take part in the key"""
        ev = vc.repo.lookup(f"{LP}:TorchEvidenceLayer")
        wcls = [vc.repo.lookup(f"{LP}:TorchCategoricalLayer"), vc.repo.lookup(f"{LP}:TorchGaussianLayer")]
        mods = []
        for i in range(_n):
            which = 0 if (i != 1 or vc.I.decide(vc.bool("second_wraps_a_categorical"))) else 1
            w = _module(vc, f"m{i}.wrapped", wcls[which], [vc.int(f"w{i}_s{j}") for j in range(2)])
            mods.append(_module(vc, f"m{i}", ev, [vc.int(f"m{i}_s0")], {"layer": w}))
        _check(vc, mods)
    obligation(f"C02.group_foldable_modules.wrapping{_n}", "C02", [f"{GF}:group_foldable_modules"])(_h)
