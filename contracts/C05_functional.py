"""C05 (whole function on templates): functional.differentiate returns, for each output layer of the operand, one output per
variable of its scope in INCREASING variable id (whatever the order in which the variables appear in the circuit), followed
by a copy of the output itself; the output for variable x is the circuit in which exactly the input layer over x is replaced
by its order-th derivative along every path (product rule: one term per factor containing x; sums differentiate input-wise),
**with every layer keeping its input positions** (a Kronecker product is not commutative).

Templates (variable ids, unit counts, degrees symbolic; both relative orders of the ids are explored as separate paths):
  poly1      a single polynomial input that is the output
  prod2      in(v0), in(v1) -> product -> sum          product in {hadamard, kronecker}
  prod3      in(v0), in(v1), in(v2) -> hadamard (inputs listed as [in2, in0, in1]) -> sum
"""
import itertools

import z3

from engine.vc import obligation
from engine.values import to_z3, Obj
from contracts.lib import *
from contracts.functional_lib import make_registry, input_layer, distinct, scope_arr
from contracts import specs as S
from contracts.C10_sharing import copy_clauses


def _circuit(vc, shape):
    K, d = vc.int("K", lo=1), vc.int("d", lo=1)
    mk = lambda s_: input_layer(vc, "polynomial", s_, K, d)
    if shape == "poly1":
        v, s = scope1(vc, "v0")
        a = mk(s)
        return vc.new(f"{SCI}:Circuit", [a], {}, [a]), [v], [a], None, a
    n = 3 if shape == "prod3" else 2
    vs, ins = [], []
    for i in range(n):
        v, s = scope1(vc, f"v{i}")
        vs.append(v)
        ins.append(mk(s))
    distinct(vc, vs)
    if shape == "prod2.kronecker":
        p = vc.new(f"{SL}:KroneckerLayer", K, arity=2)
        order = [0, 1]
    elif shape == "prod2.hadamard":
        p = vc.new(f"{SL}:HadamardLayer", K, arity=2)
        order = [1, 0]
    else:
        p = vc.new(f"{SL}:HadamardLayer", K, arity=3)
        order = [2, 0, 1]
    Ko = vc.int("Ko", lo=1)
    s = vc.new(f"{SL}:SumLayer", vc.attr(p, "num_output_units"), Ko, arity=1)
    pin = [ins[j] for j in order]
    sc = vc.new(f"{SCI}:Circuit", ins + [p, s], {p: pin, s: [p]}, [s])
    return sc, vs, ins, (p, pin), s


def _is_derivative_of(vc, r, l, order, label):
    """r is the order-th derivative of polynomial input layer l (same scope and units, coefficients shifted and scaled)"""
    ok = isinstance(r, Obj) and r.cls.name == "PolynomialLayer"
    vc.ensure(label + ".polynomial_layer", ok)
    if not ok:
        return
    vc.ensure(label + ".same_scope", same_scope(vc, vc.attr(r, "scope"), vc.attr(l, "scope")))
    vc.ensure(label + ".same_units", vc.attr(r, "num_output_units") == vc.attr(l, "num_output_units"))
    d = vc.attr(l, "degree")
    big = vc.must(to_z3(d) + 1 > order)
    small = vc.must(to_z3(d) + 1 <= order)
    if not (big or small):
        vc.ensure(label + ".degree_order_comparison_decided", False)
        return
    env = {}
    D, C = S.den_param(vc, vc.attr(r, "coeff"), env), S.den_param(vc, vc.attr(l, "coeff"), env)
    if big:
        vc.ensure(label + ".degree", vc.attr(r, "degree") == d - order)
        k, n = vc.index_consts(D.shape)
        f = 1
        for t in range(1, order + 1):
            f = f * (n + t)
        vc.ensure(label + ".coefficients", D.elem([k, n]) == z3.ToReal(f) * C.elem([k, n + order]))
    else:
        k, n = vc.index_consts(D.shape)
        vc.ensure(label + ".zero_polynomial", D.elem([k, n]) == 0)


def _copy(vc, r, l, label):
    before = len(vc.clauses)
    copy_clauses(vc, l, r)
    vc.clauses[before:] = [(f"{label}.{lab}", f) for lab, f in vc.clauses[before:]]


for _shape in ("poly1", "prod2.kronecker", "prod2.hadamard", "prod3"):
    for _order in (1, 2):
        def _h(vc, _shape=_shape, _order=_order):
            sc, vs, ins, prod, out_layer = _circuit(vc, _shape)
            if _order > 1:
                vc.assume(vc.attr(ins[0], "degree") >= _order)
            res = vc.call(f"{SF}:differentiate", sc, _order, registry=make_registry(vc))
            outs = list(res.fields["_outputs"])
            n = len(vs)
            vc.ensure("one_output_per_variable_plus_the_copy", len(outs) == n + 1)
            if len(outs) != n + 1:
                return
            # on this path the relative order of the symbolic ids is decided: find the rank of each variable
            rank = {}
            for i in range(n):
                smaller = 0
                for j in range(n):
                    if i != j:
                        lt = vc.must(vs[j] < vs[i])
                        gt = vc.must(vs[j] > vs[i])
                        if not (lt or gt):
                            vc.ensure("relative_order_of_ids_decided_on_path", False)
                            return
                        smaller += int(lt)
                rank[i] = smaller
            by_rank = {r: i for i, r in rank.items()}
            ins_of = res.fields["_in_nodes"]
            for j in range(n):
                i = by_rank[j]          # output j must be the derivative w.r.t. variable vs[i], the j-th smallest id
                o = outs[j]
                lab = f"output{j}"
                if prod is None:
                    _is_derivative_of(vc, o, ins[i], _order, lab)
                    continue
                _copy(vc, o, out_layer, lab + ".sum_copy")
                (pr,) = list(ins_of.get(o, [None]))[:1] if len(ins_of.get(o, [])) == 1 else (None,)
                vc.ensure(lab + ".single_product_input", pr is not None)
                if pr is None:
                    continue
                p, pin = prod
                vc.ensure(lab + ".product_same_class", pr.cls is p.cls and pr is not p)
                got = list(ins_of.get(pr, []))
                vc.ensure(lab + ".product_arity", len(got) == len(pin))
                if len(got) != len(pin):
                    continue
                if p.cls.name == "KroneckerLayer":
                    pairs = list(zip(got, pin))          # positions matter
                else:
                    # a Hadamard product commutes: match each original input to ANY position, each position used once
                    pairs, used = [], set()
                    for l in pin:
                        cand = [g for g in got if id(g) not in used and isinstance(g, Obj) and g.cls is l.cls and
                                vc.must(same_scope(vc, vc.attr(g, "scope"), vc.attr(l, "scope")))]
                        if cand:
                            used.add(id(cand[0]))
                            pairs.append((cand[0], l))
                    vc.ensure(lab + ".every_factor_present_once", len(pairs) == len(pin))
                for g, l in pairs:
                    pos = ins.index(l)
                    if pos == i:
                        _is_derivative_of(vc, g, l, _order, f"{lab}.factor_v{pos}_differentiated")
                    else:
                        _copy(vc, g, l, f"{lab}.factor_v{pos}_copied")
            _copy(vc, outs[n], out_layer, "last_output_is_the_copy")
            if prod is not None:
                (pr,) = list(ins_of.get(outs[n], [None]))[:1]
                p, pin = prod
                got = list(ins_of.get(pr, [])) if pr is not None else []
                vc.ensure("copy.product_inputs_in_position", len(got) == len(pin) and all(
                    isinstance(g, Obj) and g.cls is l.cls and vc.must(same_scope(vc, vc.attr(g, "scope"), vc.attr(l, "scope"))) for g, l in zip(got, pin)))
            vc.ensure("scope_unchanged", scope_arr(res.fields["scope"]) == scope_arr(sc.fields["scope"]))
        obligation(f"C05.differentiate.{_shape}.order{_order}", "C05", [f"{SF}:differentiate", f"{SO}:differentiate_polynomial_layer", f"{SCI}:Circuit.from_operation"])(_h)
