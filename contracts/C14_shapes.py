"""C14 (A-part, unbounded rank): every symbolic parameter node and every torch parameter node has the
declared shape, for every input shape of any rank and every admissible axis (negative axes too), and
every compilation rule builds a torch node with the same shape and the same axis.

Specs are written element-wise (length + element facts), not with the slicing primitives the code uses.
"""
import z3

from engine.vc import obligation
from engine.values import to_z3

SP = "cirkit/symbolic/parameters.py"
TN = "cirkit/backend/torch/parameters/nodes.py"
RP = "cirkit/backend/torch/rules/parameters.py"


def norm_axis(axis, n):
    return z3.If(axis < 0, axis + to_z3(n), axis)


def spec_removed(vc, r, s, a, label):
    """r == s with position a removed"""
    n = vc.len(s)
    vc.ensure(label + ".len", to_z3(vc.len(r)) == to_z3(n) - 1)
    vc.ensure(label + ".before", vc.forall(a, lambda k: vc.at(r, k) == vc.at(s, k)))
    vc.ensure(label + ".after", vc.forall(to_z3(n) - 1, lambda k: z3.Implies(k >= a, vc.at(r, k) == vc.at(s, k + 1))))


def spec_replaced(vc, r, s, a, value, label):
    """r == s with position a replaced by value"""
    n = vc.len(s)
    vc.ensure(label + ".len", to_z3(vc.len(r)) == to_z3(n))
    vc.ensure(label + ".others", vc.forall(n, lambda k: z3.Implies(k != a, vc.at(r, k) == vc.at(s, k))))
    vc.ensure(label + ".at_axis", vc.at(r, a) == value)


def spec_same(vc, r, s, label):
    vc.ensure(label + ".len", to_z3(vc.len(r)) == to_z3(vc.len(s)))
    vc.ensure(label + ".elems", vc.forall(vc.len(s), lambda k: vc.at(r, k) == vc.at(s, k)))


def admissible_axis(vc, n):
    axis = vc.int("axis")
    vc.assume(z3.And(axis >= -to_z3(n), axis < to_z3(n)))
    return axis


# ------------------------------------------------------------------------------------------------
# symbolic side
# ------------------------------------------------------------------------------------------------
for _cls in ("ReduceSumParameter", "ReduceProductParameter", "ReduceLSEParameter"):
    def _h(vc, _cls=_cls):
        s = vc.seq("in_shape", positive=True, min_len=1)
        axis = admissible_axis(vc, vc.len(s))
        p = vc.new(f"{SP}:{_cls}", s, axis=axis)
        a = norm_axis(axis, vc.len(s))
        vc.ensure("axis_normalised", vc.attr(p, "axis") == a)
        spec_removed(vc, vc.attr(p, "shape"), s, a, "shape")
        spec_same(vc, vc.attr(p, "in_shape"), s, "in_shape")
    obligation(f"C14.sym.{_cls}.shape", "C14", [f"{SP}:ReduceParameterOp.__init__", f"{SP}:ReduceParameterOp.shape"])(_h)

for _cls in ("SoftmaxParameter", "LogSoftmaxParameter"):
    def _h(vc, _cls=_cls):
        s = vc.seq("in_shape", positive=True, min_len=1)
        axis = admissible_axis(vc, vc.len(s))
        p = vc.new(f"{SP}:{_cls}", s, axis=axis)
        vc.ensure("axis_normalised", vc.attr(p, "axis") == norm_axis(axis, vc.len(s)))
        spec_same(vc, vc.attr(p, "shape"), s, "shape")
    obligation(f"C14.sym.{_cls}.shape", "C14", [f"{SP}:EntrywiseReduceParameterOp.__init__", f"{SP}:EntrywiseParameterOp.shape"])(_h)

for _cls in ("ExpParameter", "LogParameter", "SquareParameter", "SoftplusParameter", "SigmoidParameter", "ConjugateParameter"):
    def _h(vc, _cls=_cls):
        s = vc.seq("in_shape", positive=True, min_len=1)
        p = vc.new(f"{SP}:{_cls}", s)
        spec_same(vc, vc.attr(p, "shape"), s, "shape")
    obligation(f"C14.sym.{_cls}.shape", "C14", [f"{SP}:EntrywiseParameterOp.shape"])(_h)


@obligation("C14.sym.ScaledSigmoidParameter.shape", "C14", [f"{SP}:ScaledSigmoidParameter.__init__"])
def _(vc):
    s = vc.seq("in_shape", positive=True, min_len=1)
    lo, hi = vc.real("vmin"), vc.real("vmax")
    vc.assume(lo < hi)
    p = vc.new(f"{SP}:ScaledSigmoidParameter", s, lo, hi)
    spec_same(vc, vc.attr(p, "shape"), s, "shape")
    vc.ensure("vmin", vc.attr(p, "vmin") == lo)
    vc.ensure("vmax", vc.attr(p, "vmax") == hi)


@obligation("C14.sym.ClampParameter.shape", "C14", [f"{SP}:ClampParameter.__init__"])
def _(vc):
    s = vc.seq("in_shape", positive=True, min_len=1)
    lo = vc.real("vmin")
    p = vc.new(f"{SP}:ClampParameter", s, vmin=lo)
    spec_same(vc, vc.attr(p, "shape"), s, "shape")
    vc.ensure("vmin", vc.attr(p, "vmin") == lo)
    vc.ensure("vmax", vc.attr(p, "vmax") is None)


@obligation("C14.sym.IndexParameter.shape", "C14", [f"{SP}:IndexParameter.__init__", f"{SP}:IndexParameter.shape"])
def _(vc):
    s = vc.seq("in_shape", positive=True, min_len=1)
    idx = vc.seq("indices", kind="list")
    axis = admissible_axis(vc, vc.len(s))
    a = norm_axis(axis, vc.len(s))
    vc.assume(vc.forall(vc.len(idx), lambda k: z3.And(vc.at(idx, k) >= 0, vc.at(idx, k) < vc.at(s, a))))
    p = vc.new(f"{SP}:IndexParameter", s, indices=idx, axis=axis)
    vc.ensure("axis_normalised", vc.attr(p, "axis") == a)
    spec_replaced(vc, vc.attr(p, "shape"), s, a, to_z3(vc.len(idx)), "shape")


@obligation("C14.sym.IndexParameter.rejects_out_of_range", "C14", [f"{SP}:IndexParameter.__init__"])
def _(vc):
    """an index outside the indexed dimension is refused (AssertionError), never accepted"""
    s = vc.seq("in_shape", positive=True, min_len=1)
    idx = vc.seq("indices", kind="list")
    axis = admissible_axis(vc, vc.len(s))
    a = norm_axis(axis, vc.len(s))
    vc.assume(vc.exists(vc.len(idx), lambda k: z3.Or(vc.at(idx, k) < 0, vc.at(idx, k) >= vc.at(s, a))))
    exc, _ = vc.raises(lambda: vc.new(f"{SP}:IndexParameter", s, indices=idx, axis=axis))
    vc.ensure("raises", exc == "AssertionError")


for _cls in ("SumParameter", "HadamardParameter"):
    def _h(vc, _cls=_cls):
        s = vc.seq("in_shape", positive=True, min_len=1)
        s2 = vc.seq("in_shape2", positive=True, min_len=1)
        vc.assume(vc.eq(s, s2))
        p = vc.new(f"{SP}:{_cls}", s, s2)
        spec_same(vc, vc.attr(p, "shape"), s, "shape")
    obligation(f"C14.sym.{_cls}.shape", "C14", [f"{SP}:{_cls}.__init__", f"{SP}:{_cls}.shape"])(_h)


@obligation("C14.sym.KroneckerParameter.shape", "C14", [f"{SP}:KroneckerParameter.__init__", f"{SP}:KroneckerParameter.shape"])
def _(vc):
    s1 = vc.seq("in_shape1", positive=True, min_len=1)
    s2 = vc.seq("in_shape2", positive=True, min_len=1)
    vc.assume(to_z3(vc.len(s1)) == to_z3(vc.len(s2)))
    p = vc.new(f"{SP}:KroneckerParameter", s1, s2)
    r = vc.attr(p, "shape")
    vc.ensure("shape.len", to_z3(vc.len(r)) == to_z3(vc.len(s1)))
    vc.ensure("shape.elems", vc.forall(vc.len(s1), lambda k: vc.at(r, k) == vc.at(s1, k) * vc.at(s2, k)))


for _cls in ("OuterProductParameter", "OuterSumParameter"):
    def _h(vc, _cls=_cls):
        s1 = vc.seq("in_shape1", positive=True, min_len=1)
        s2 = vc.seq("in_shape2", positive=True, min_len=1)
        n = vc.len(s1)
        vc.assume(to_z3(n) == to_z3(vc.len(s2)))
        axis = admissible_axis(vc, n)
        a = norm_axis(axis, n)
        # admissible shapes: equal outside the axis (the symbolic class does not check it, see DESIGN C14)
        vc.assume(vc.forall(n, lambda k: z3.Implies(k != a, vc.at(s1, k) == vc.at(s2, k))))
        p = vc.new(f"{SP}:{_cls}", s1, s2, axis=axis)
        vc.ensure("axis_normalised", vc.attr(p, "axis") == a)
        spec_replaced(vc, vc.attr(p, "shape"), s1, a, vc.at(s1, a) * vc.at(s2, a), "shape")
    obligation(f"C14.sym.{_cls}.shape", "C14", [f"{SP}:OuterParameterOp.__init__", f"{SP}:OuterParameterOp.shape"])(_h)


@obligation("C14.sym.MixingWeightParameter.shape", "C14", [f"{SP}:MixingWeightParameter.__init__", f"{SP}:MixingWeightParameter.shape"])
def _(vc):
    s = vc.seq("in_shape", positive=True, min_len=1)
    exc, p = vc.raises(lambda: vc.new(f"{SP}:MixingWeightParameter", s))
    if exc is not None:
        vc.ensure("raises_iff_not_matrix", z3.And(exc == "ValueError", to_z3(vc.len(s)) != 2))
        return
    r = vc.attr(p, "shape")
    vc.ensure("accepted_only_matrix", to_z3(vc.len(s)) == 2)
    vc.ensure("shape.len", to_z3(vc.len(r)) == 2)
    vc.ensure("shape.units", vc.at(r, 0) == vc.at(s, 0))
    vc.ensure("shape.cols", vc.at(r, 1) == vc.at(s, 0) * vc.at(s, 1))


for _cls, _nin in (("GaussianProductMean", 4), ("GaussianProductLogPartition", 4), ("GaussianProductStddev", 2)):
    def _h(vc, _cls=_cls, _nin=_nin):
        k1, k2 = vc.int("K1", lo=1), vc.int("K2", lo=1)
        args = ((k1,), (k1,), (k2,), (k2,)) if _nin == 4 else ((k1,), (k2,))
        p = vc.new(f"{SP}:{_cls}", *args)
        r = vc.attr(p, "shape")
        vc.ensure("shape", vc.eq(r, (k1 * k2,)))
    obligation(f"C14.sym.{_cls}.shape", "C14", [f"{SP}:{_cls}.shape"])(_h)


@obligation("C14.sym.PolynomialProduct.shape", "C14", [f"{SP}:PolynomialProduct.shape"])
def _(vc):
    k1, k2, d1, d2 = vc.int("K1", lo=1), vc.int("K2", lo=1), vc.int("dp1", lo=1), vc.int("dp2", lo=1)
    p = vc.new(f"{SP}:PolynomialProduct", (k1, d1), (k2, d2))
    vc.ensure("shape", vc.eq(vc.attr(p, "shape"), (k1 * k2, d1 + d2 - 1)))


@obligation("C14.sym.PolynomialDifferential.shape", "C14", [f"{SP}:PolynomialDifferential.__init__", f"{SP}:PolynomialDifferential.shape"])
def _(vc):
    k, d, order = vc.int("K", lo=1), vc.int("degp1", lo=1), vc.int("order")
    exc, p = vc.raises(lambda: vc.new(f"{SP}:PolynomialDifferential", (k, d), order=order))
    if exc is not None:
        vc.ensure("raises_iff_nonpositive_order", z3.And(exc == "ValueError", order <= 0))
        return
    vc.ensure("accepted_only_positive_order", order >= 1)
    vc.ensure("shape", vc.eq(vc.attr(p, "shape"), (k, z3.If(d > order, d - order, 1))))


@obligation("C14.sym.TensorParameter.shape", "C14", [f"{SP}:TensorParameter.__init__", f"{SP}:TensorParameter.shape"])
def _(vc):
    a, b = vc.int("d0"), vc.int("d1")
    init = vc.opaque("init", attrs={"allows_shape": lambda o: (lambda shape: True)})
    exc, p = vc.raises(lambda: vc.new(f"{SP}:TensorParameter", a, b, initializer=init))
    if exc is not None:
        vc.ensure("raises_iff_nonpositive_dim", z3.And(exc == "ValueError", z3.Or(a <= 0, b <= 0)))
        return
    vc.ensure("accepted_only_positive_dims", z3.And(a >= 1, b >= 1))
    vc.ensure("shape", vc.eq(vc.attr(p, "shape"), (a, b)))
    vc.ensure("learnable_default", vc.attr(p, "learnable") is True)


@obligation("C14.sym.ReferenceParameter.shape", "C14", [f"{SP}:ReferenceParameter.shape", f"{SP}:ReferenceParameter.deref"])
def _(vc):
    a, b = vc.int("d0", lo=1), vc.int("d1", lo=1)
    init = vc.opaque("init", attrs={"allows_shape": lambda o: (lambda shape: True)})
    t = vc.new(f"{SP}:TensorParameter", a, b, initializer=init)
    r = vc.new(f"{SP}:ReferenceParameter", t)
    vc.ensure("shape", vc.eq(vc.attr(r, "shape"), (a, b)))
    vc.ensure("deref_is_target", vc.call((r, "deref")) is t)


@obligation("C14.sym.mixing_weight_factory", "C12", [f"{SP}:mixing_weight_factory"])
def _(vc):
    """the mixing-weight factory asks the inner factory for a (num_units, arity) parameter and wraps it in a
    MixingWeightParameter over that shape; it refuses shapes that are not (K, H*K)"""
    k, c = vc.int("K", lo=1), vc.int("cols", lo=1)
    seen = []

    def inner(shape):
        seen.append(shape)
        return "INNER"

    captured = {}

    def from_unary(I, args, kwargs):
        captured["node"], captured["p"] = args[-2], args[-1]
        return "RESULT"
    vc.I.summaries[f"{SP}:Parameter.from_unary"] = from_unary
    from engine.values import Builtin
    exc, r = vc.raises(lambda: vc.call(f"{SP}:mixing_weight_factory", (k, c), param_factory=Builtin("inner", inner)))
    if exc is not None:
        vc.ensure("raises_iff_not_multiple", z3.And(exc == "ValueError", c % k != 0))
        return
    vc.ensure("accepted_only_multiples", c % k == 0)
    h = c / k
    vc.ensure("inner_factory_called_once", len(seen) == 1)
    vc.ensure("inner_shape", vc.eq(seen[0], (k, h)))
    vc.ensure("inner_param_passed", captured.get("p") == "INNER")
    node = captured["node"]
    vc.ensure("node_in_shape", vc.eq(vc.attr(node, "in_shape"), (k, h)))
    vc.ensure("node_shape", vc.eq(vc.attr(node, "shape"), (k, c)))


# ------------------------------------------------------------------------------------------------
# compile rules: the rule registered for a symbolic node builds the torch node of the same name with the
# same input shapes, output shape, axis and auxiliary integers (relational obligation, all ranks)
# ------------------------------------------------------------------------------------------------
def _mk_unary(vc, cls, **kw):
    s = vc.seq("in_shape", positive=True, min_len=1)
    return vc.new(f"{SP}:{cls}", s, **kw), {}


def _mk_axis(vc, cls):
    s = vc.seq("in_shape", positive=True, min_len=1)
    axis = admissible_axis(vc, vc.len(s))
    return vc.new(f"{SP}:{cls}", s, axis=axis), {"dim": "axis"}


def _mk_index(vc, cls):
    s = vc.seq("in_shape", positive=True, min_len=1)
    idx = vc.seq("indices", kind="list")
    axis = admissible_axis(vc, vc.len(s))
    a = norm_axis(axis, vc.len(s))
    vc.assume(vc.forall(vc.len(idx), lambda k: z3.And(vc.at(idx, k) >= 0, vc.at(idx, k) < vc.at(s, a))))
    return vc.new(f"{SP}:{cls}", s, indices=idx, axis=axis), {"dim": "axis", "indices": "indices"}


def _mk_same2(vc, cls):
    s = vc.seq("in_shape", positive=True, min_len=1)
    s2 = vc.seq("in_shape2", positive=True, min_len=1)
    vc.assume(vc.eq(s, s2))
    return vc.new(f"{SP}:{cls}", s, s2), {}


def _mk_kron(vc, cls):
    s1 = vc.seq("in_shape1", positive=True, min_len=1)
    s2 = vc.seq("in_shape2", positive=True, min_len=1)
    vc.assume(to_z3(vc.len(s1)) == to_z3(vc.len(s2)))
    return vc.new(f"{SP}:{cls}", s1, s2), {}


def _mk_outer(vc, cls):
    s1 = vc.seq("in_shape1", positive=True, min_len=1)
    s2 = vc.seq("in_shape2", positive=True, min_len=1)
    n = vc.len(s1)
    vc.assume(to_z3(n) == to_z3(vc.len(s2)))
    axis = admissible_axis(vc, n)
    a = norm_axis(axis, n)
    vc.assume(vc.forall(n, lambda k: z3.Implies(k != a, vc.at(s1, k) == vc.at(s2, k))))
    return vc.new(f"{SP}:{cls}", s1, s2, axis=axis), {"dim": "axis"}


def _mk_ssig(vc, cls):
    s = vc.seq("in_shape", positive=True, min_len=1)
    lo, hi = vc.real("vmin"), vc.real("vmax")
    vc.assume(z3.And(0 <= lo, lo < hi))
    return vc.new(f"{SP}:{cls}", s, lo, hi), {"vmin": "vmin", "vmax": "vmax"}


def _mk_clamp(vc, cls):
    s = vc.seq("in_shape", positive=True, min_len=1)
    lo = vc.real("vmin")
    return vc.new(f"{SP}:{cls}", s, vmin=lo), {"vmin": "vmin", "vmax": "vmax"}


def _mk_mixing(vc, cls):
    k, h = vc.int("K", lo=1), vc.int("H", lo=1)
    return vc.new(f"{SP}:{cls}", (k, h)), {}


def _mk_gauss4(vc, cls):
    k1, k2 = vc.int("K1", lo=1), vc.int("K2", lo=1)
    return vc.new(f"{SP}:{cls}", (k1,), (k1,), (k2,), (k2,)), {}


def _mk_gauss2(vc, cls):
    k1, k2 = vc.int("K1", lo=1), vc.int("K2", lo=1)
    return vc.new(f"{SP}:{cls}", (k1,), (k2,)), {}


def _mk_polyprod(vc, cls):
    k1, k2, d1, d2 = vc.int("K1", lo=1), vc.int("K2", lo=1), vc.int("dp1", lo=1), vc.int("dp2", lo=1)
    return vc.new(f"{SP}:{cls}", (k1, d1), (k2, d2)), {}


def _mk_polydiff(vc, cls):
    k, d, order = vc.int("K", lo=1), vc.int("degp1", lo=1), vc.int("order", lo=1)
    return vc.new(f"{SP}:{cls}", (k, d), order=order), {"order": "order"}


RULES = {
    "IndexParameter": _mk_index, "SumParameter": _mk_same2, "HadamardParameter": _mk_same2,
    "KroneckerParameter": _mk_kron, "OuterProductParameter": _mk_outer, "OuterSumParameter": _mk_outer,
    "ExpParameter": _mk_unary, "LogParameter": _mk_unary, "SquareParameter": _mk_unary, "SigmoidParameter": _mk_unary,
    "ScaledSigmoidParameter": _mk_ssig, "ClampParameter": _mk_clamp, "SoftplusParameter": _mk_unary,
    "ConjugateParameter": _mk_unary, "ReduceSumParameter": _mk_axis, "ReduceProductParameter": _mk_axis,
    "ReduceLSEParameter": _mk_axis, "SoftmaxParameter": _mk_axis, "LogSoftmaxParameter": _mk_axis,
    "MixingWeightParameter": _mk_mixing, "GaussianProductMean": _mk_gauss4, "GaussianProductStddev": _mk_gauss2,
    "GaussianProductLogPartition": _mk_gauss4, "PolynomialProduct": _mk_polyprod, "PolynomialDifferential": _mk_polydiff,
}

for _cls, _mk in RULES.items():
    def _h(vc, _cls=_cls, _mk=_mk):
        from engine.values import ClassVal, Obj
        p, extra = _mk(vc, _cls)
        table = vc.I.wrap_resolved(vc.repo.resolve_name(vc.repo.module_by_path(RP), "DEFAULT_PARAMETER_COMPILATION_RULES"))
        rule = table[ClassVal(vc.repo.lookup(f"{SP}:{_cls}"))]
        compiler = vc.opaque("compiler")
        t = vc.I.call(rule, [compiler, p], {})
        vc.ensure("torch_class", isinstance(t, Obj) and t.cls.name == "Torch" + _cls)
        vc.ensure("shape", vc.eq(vc.attr(t, "shape"), vc.attr(p, "shape")))
        ins_t, ins_p = vc.attr(t, "in_shapes"), vc.attr(p, "in_shapes")
        vc.ensure("num_inputs", len(ins_t) == len(ins_p))
        for j, (a, b) in enumerate(zip(ins_t, ins_p)):
            vc.ensure(f"in_shape{j}", vc.eq(a, b))
        vc.ensure("num_folds_is_one", vc.attr(t, "num_folds") == 1)
        for tname, pname in extra.items():
            tv, pv = vc.attr(t, tname), vc.attr(p, pname)
            vc.ensure(f"same_{tname}", (tv is None and pv is None) if (tv is None or pv is None) else vc.eq(tv, pv))
    obligation(f"C14.rule.{_cls}", "C14", [f"{RP}:compile_" + {
        "IndexParameter": "index_parameter", "SumParameter": "sum_parameter", "HadamardParameter": "hadamard_parameter",
        "KroneckerParameter": "kronecker_parameter", "OuterProductParameter": "outer_product_parameter",
        "OuterSumParameter": "outer_sum_parameter", "ExpParameter": "exp_parameter", "LogParameter": "log_parameter",
        "SquareParameter": "square_parameter", "SigmoidParameter": "sigmoid_parameter",
        "ScaledSigmoidParameter": "scaled_sigmoid_parameter", "ClampParameter": "clamp_parameter",
        "SoftplusParameter": "softplus_parameter", "ConjugateParameter": "conjugate_parameter",
        "ReduceSumParameter": "reduce_sum_parameter", "ReduceProductParameter": "reduce_product_parameter",
        "ReduceLSEParameter": "reduce_lse_parameter", "SoftmaxParameter": "softmax_parameter",
        "LogSoftmaxParameter": "log_softmax_parameter", "MixingWeightParameter": "mixing_weight_parameter",
        "GaussianProductMean": "gaussian_product_mean", "GaussianProductStddev": "gaussian_product_stddev",
        "GaussianProductLogPartition": "gaussian_product_log_partition", "PolynomialProduct": "polynomial_product",
        "PolynomialDifferential": "polynomial_differential"}[_cls]])(_h)
