"""C05 (functional.differentiate for circuits of ARBITRARY shape): loop-rule obligations on the real statements of the layer loop.  State:
`layers_to_blocks` (layer -> [derivative block per variable of its scope in increasing id ..., copy block]) and `in_blocks`, frame-guarded: only
the entries of the current layer's inputs are known; anything else is out of frame.

  (input)    a polynomial input layer over variable x: [block of the order-th derivative wrt x (the rule, C05_rules), copy block]
  (sum)      a sum over inputs whose scopes hold the same n variables: n derivative blocks, each a reference copy of the sum wired to the
             SAME-variable derivative blocks of its inputs in input order, then the copy wired to the inputs' copies
  (product)  a product over inputs with disjoint scopes: one derivative block per variable of the union IN INCREASING VARIABLE ID (ids
             symbolic: every interleaving is explored); the block for variable x (owned by input c) is a reference copy of the product whose
             inputs are the inputs' COPY blocks, except input c replaced by its derivative wrt x - AT ITS OWN POSITION for Kronecker products (Hadamard
             products are commutative: any order); then the copy block
  (suffix)   all blocks, the wires, and for each declared output its blocks in order (derivatives by increasing variable, then the copy)
"""
import itertools

import z3

from engine.vc import obligation
from engine.values import Opaque, Builtin, Obj, to_z3
from contracts.lib import *
from contracts.functional_lib import make_registry, input_layer
from contracts.C02_rewrite import GuardedMap, ABSENT
from contracts.C10_sharing import copy_clauses


def _copy_of(vc, blk, layer, label):
    ok = isinstance(blk, Obj) and blk.cls.name == "CircuitBlock" and len(blk.fields["_nodes"]) == 1
    vc.ensure(label + ".single_layer_block", ok)
    if ok:
        before = len(vc.clauses)
        copy_clauses(vc, layer, blk.fields["_nodes"][0])
        vc.clauses[before:] = [(f"{label}.{lab}", f) for lab, f in vc.clauses[before:]]


def _run(vc, sl, sc, known):
    l2b, inb = GuardedMap("layers_to_blocks", known), GuardedMap("in_blocks", {})
    loc = {"sc": sc, "order": vc.int("order", lo=1), "registry": make_registry(vc), "layers_to_blocks": l2b, "in_blocks": inb}
    vc.run_loop_body(f"{SF}:differentiate", loc, sl)
    ok = len(l2b.written) == 1 and l2b.written[0][0] is sl and isinstance(l2b.written[0][1], list)
    vc.ensure("exactly_one_entry_recorded_for_this_layer", ok)
    return (l2b.written[0][1] if ok else None), {id(k): v for k, v in inb.written}, loc


for _order in (1, 2):
    def _h(vc, _order=_order):
        K, d = vc.int("K", lo=1), vc.int("d", lo=1)
        v, scope = scope1(vc)
        sl = input_layer(vc, "polynomial", scope, K, d)
        sc = Opaque("sc")
        sc.attrs["layer_inputs"] = lambda o: Builtin("layer_inputs", lambda l: [])
        l2b, inb = GuardedMap("layers_to_blocks", {}), GuardedMap("in_blocks", {})
        loc = {"sc": sc, "order": _order, "registry": make_registry(vc), "layers_to_blocks": l2b, "in_blocks": inb}
        vc.run_loop_body(f"{SF}:differentiate", loc, sl)
        ok = len(l2b.written) == 1 and l2b.written[0][0] is sl and len(l2b.written[0][1]) == 2
        vc.ensure("one_derivative_block_and_the_copy", ok)
        if not ok:
            return
        dblk, cblk = l2b.written[0][1]
        from contracts.C05_functional import _is_derivative_of
        okd = isinstance(dblk, Obj) and len(dblk.fields["_nodes"]) == 1
        vc.ensure("derivative_block_single_layer", okd)
        if okd:
            _is_derivative_of(vc, dblk.fields["_nodes"][0], sl, _order, "derivative")
        _copy_of(vc, cblk, sl, "copy")
        w = {id(k): list(vv) for k, vv in inb.written}
        vc.ensure("copy_of_an_input_layer_has_no_inputs", w.get(id(cblk)) == [] and id(dblk) not in w or w.get(id(dblk), []) == [])
    obligation(f"C05.differentiate.step.input.order{_order}", "C05", [f"{SF}:differentiate"])(_h)


for _ar, _nv in ((1, 1), (2, 1), (2, 2), (3, 1)):
    def _h(vc, _ar=_ar, _nv=_nv):
        K, Ko = vc.int("K", lo=1), vc.int("Ko", lo=1)
        sl = vc.new(f"{SL}:SumLayer", K, Ko, arity=_ar)
        ins = [Opaque(f"in{j}") for j in range(_ar)]
        known = {i: [Opaque(f"d_in{j}_var{t}") for t in range(_nv)] + [Opaque(f"copy_in{j}")] for j, i in enumerate(ins)}
        sc = Opaque("sc")
        sc.attrs["layer_inputs"] = lambda o: Builtin("layer_inputs", lambda l: list(ins) if l is sl else [])
        blocks, w, loc = _run(vc, sl, sc, known)
        if blocks is None:
            return
        vc.ensure("one_derivative_per_variable_and_the_copy", len(blocks) == _nv + 1)
        if len(blocks) != _nv + 1:
            return
        for t in range(_nv + 1):
            _copy_of(vc, blocks[t], sl, f"block{t}")
            got = list(w.get(id(blocks[t]), []))
            want = [known[i][t] if t < _nv else known[i][-1] for i in ins]
            vc.ensure(f"block{t}.wired_to_the_same_variable_blocks_of_its_inputs_in_order", len(got) == len(want) and all(a is b for a, b in zip(got, want)))
    obligation(f"C05.differentiate.step.sum.arity{_ar}.vars{_nv}", "C05", [f"{SF}:differentiate"])(_h)


for _cls, _vars in (("HadamardLayer", (1, 1)), ("KroneckerLayer", (1, 1)), ("HadamardLayer", (2, 1)), ("HadamardLayer", (1, 1, 1)), ("KroneckerLayer", (1, 2))):
    def _h(vc, _cls=_cls, _vars=_vars):
        K = vc.int("K", lo=1)
        ar = len(_vars)
        sl = vc.new(f"{SL}:{_cls}", K, arity=ar)
        ins = [Opaque(f"in{j}", {"__identity_eq__": True}) for j in range(ar)]
        ids = [[vc.int(f"x{j}_{t}", lo=0) for t in range(n)] for j, n in enumerate(_vars)]
        flat = [x for xs in ids for x in xs]
        for a, b in itertools.combinations(flat, 2):
            vc.assume(a != b)
        for xs in ids:                                 # the variables of one input are listed in increasing id (Scope iteration, C05.Scope.__iter__)
            for a, b in zip(xs, xs[1:]):
                vc.assume(a < b)
        known = {i: [Opaque(f"d_in{j}_var{t}") for t in range(_vars[j])] + [Opaque(f"copy_in{j}")] for j, i in enumerate(ins)}
        sc = Opaque("sc")
        sc.attrs["layer_inputs"] = lambda o: Builtin("layer_inputs", lambda l: list(ins) if l is sl else [])
        sc.attrs["layer_scope"] = lambda o: Builtin("layer_scope", lambda l: list(ids[[q for q, i in enumerate(ins) if i is l][0]]))
        blocks, w, loc = _run(vc, sl, sc, known)
        if blocks is None:
            return
        n = len(flat)
        vc.ensure("one_derivative_per_variable_and_the_copy", len(blocks) == n + 1)
        if len(blocks) != n + 1:
            return
        # on this path the interleaving of the ids is decided: recover it
        owner = []
        for t in range(n):
            got = list(w.get(id(blocks[t]), []))
            if _cls == "KroneckerLayer":               # not commutative: the replaced input keeps its position
                cands = [(j, u) for j in range(ar) for u in range(_vars[j]) if len(got) == ar and got[j] is known[ins[j]][u]]
                rest_ok = len(cands) == 1 and all(got[q] is known[ins[q]][-1] for q in range(ar) if q != cands[0][0])
                vc.ensure(f"derivative{t}.inputs_are_the_copies_with_ONE_input_replaced_by_its_derivative_at_its_own_position", rest_ok)
            else:                                       # Hadamard products are commutative: any order of the same inputs is the same function
                cands = [(j, u) for j in range(ar) for u in range(_vars[j]) if any(g is known[ins[j]][u] for g in got)]
                rest_ok = len(cands) == 1 and len(got) == ar and all(sum(1 for g in got if g is known[ins[q]][-1]) == 1 for q in range(ar) if q != cands[0][0])
                vc.ensure(f"derivative{t}.inputs_are_the_copies_with_ONE_input_replaced_by_its_derivative", rest_ok)
            _copy_of(vc, blocks[t], sl, f"derivative{t}")
            owner.append(cands[0] if len(cands) == 1 else None)
        if all(o is not None for o in owner):
            vc.ensure("every_variable_differentiated_exactly_once", sorted(owner) == [(j, u) for j in range(ar) for u in range(_vars[j])])
            vc.ensure("derivatives_in_increasing_variable_id", z3.And(*[ids[a[0]][a[1]] < ids[b[0]][b[1]] for a, b in zip(owner, owner[1:])], True))
        _copy_of(vc, blocks[n], sl, "copy")
        got = list(w.get(id(blocks[n]), []))
        vc.ensure("copy_wired_to_the_copies_of_its_inputs_in_order", len(got) == ar and all(g is known[i][-1] for g, i in zip(got, ins)))
    obligation(f"C05.differentiate.step.product.{_cls}.vars{'_'.join(map(str, _vars))}", "C05", [f"{SF}:differentiate"])(_h)


@obligation("C05.differentiate.suffix", "C05", [f"{SF}:differentiate"])
def _(vc):
    a, b, c = Opaque("layer_a"), Opaque("layer_b"), Opaque("layer_c")
    blocks = {a: [Opaque("a_d0"), Opaque("a_copy")], b: [Opaque("b_d0"), Opaque("b_d1"), Opaque("b_copy")], c: [Opaque("c_copy")]}
    sc = Opaque("sc", {"outputs": [b, a]})
    inb = GuardedMap("in_blocks", {})
    seen = {}
    vc.I.summaries[f"{SCI}:Circuit.from_operation"] = lambda I, a_, k: seen.update(a=a_, k=k) or vc.opaque("result")
    loc = {"sc": sc, "order": vc.int("order", lo=1), "layers_to_blocks": dict(blocks), "in_blocks": inb}
    kind, res = vc.run_suffix(f"{SF}:differentiate", loc)
    a_, k = seen.get("a", []), seen.get("k", {})
    allb = list(a_[1]) if len(a_) >= 4 else []
    vc.ensure("all_blocks_passed_on", len(allb) == 6 and {id(x) for x in allb} == {id(x) for v in blocks.values() for x in v})
    vc.ensure("the_wires_built_by_the_loop", len(a_) >= 4 and a_[2] is inb)
    outs = list(a_[3]) if len(a_) >= 4 else []
    want = blocks[b] + blocks[a]
    vc.ensure("outputs_per_declared_output_derivatives_then_copy", len(outs) == len(want) and all(x is y for x, y in zip(outs, want)))
    op = k.get("operation")
    vc.ensure("operation_recorded", isinstance(op, Obj) and getattr(op.fields.get("operator"), "name", None) == "DIFFERENTIATION" and list(op.fields.get("operands")) == [sc])
