"""Spec functions (DESIGN.md section 3): the mathematical denotation of a *symbolic* parameter graph, written with the
tensor algebra of engine/tensor.py only (no code of /repo is involved in a denotation: the graph objects are walked,
their integer attributes are read through the accessors, and every node class is given its documented meaning).

    den_param(vc, P, env)   -> Tensor of shape P.shape (no fold dimension)

`env` maps a TensorParameter object (by identity) to the leaf tensor holding its value; a ReferenceParameter denotes
the value of the tensor it points to (that is the sharing property C10 relies on).  These definitions are part of the
trusted base (they are what "the function the symbolic circuit denotes" means).
"""
import math

import z3

from engine import tensor as T
from engine.tensor import MR, Tensor
from engine.values import Obj, SymSeq, to_z3
from engine import builtins_ as B

SP = "cirkit/symbolic/parameters.py"


def cls_is(vc, obj, name):
    return isinstance(obj, Obj) and vc.repo.is_subclass(obj.cls, name)


def shape_list(vc, s):
    return list(B.iterate(vc.I, s))


def leaf_of(vc, env, node, name="p"):
    """the value tensor of a TensorParameter object (created on first use, keyed by object identity)"""
    key = node.oid
    if key not in env:
        shp = shape_list(vc, vc.attr(node, "shape"))
        if cls_is(vc, node, "ConstantParameter"):
            val = node.fields.get("value")
            if isinstance(val, (int, float)) or z3.is_expr(val):
                v = to_z3(val)
                v = z3.ToReal(v) if z3.is_int(v) else v
                env[key] = T.const_tensor(shp, v)
                return env[key]
            if type(val).__name__ == "NdArray" and len(shp) == 1:
                vals = [T._real(x) for x in val.values]

                def elem(idx, vals=vals):
                    i = T.lin(idx[0])
                    if isinstance(i, int):
                        return vals[i]
                    r = vals[-1]
                    for j in range(len(vals) - 2, -1, -1):
                        r = z3.If(to_z3(i) == j, vals[j], r)
                    return r
                env[key] = Tensor(shp, elem, "float")
                return env[key]
        t = vc.tensor(f"{name}{len(env)}", shp)
        env[key] = t
        dt = node.fields.get("dtype")
        if getattr(dt, "name", None) in ("REAL", "INTEGER"):
            # a real-valued tensor is its own complex conjugate (axiom instantiated for this leaf)
            ks = [z3.Int(vc.path.fresh_name("k_re")) for _ in shp]
            e = t.elem(ks)
            vc.path.assume(z3.ForAll(ks, T.elemwise("conj", e) == e, patterns=[T.elemwise("conj", e)]))
    return env[key]


def tensor_leaves(vc, P):
    """(TensorParameter objects, ReferenceParameter objects) among the nodes of parameter graph P"""
    ts, rs = [], []
    for n in P.fields["_nodes"]:
        if cls_is(vc, n, "TensorParameter"):
            ts.append(n)
        elif cls_is(vc, n, "ReferenceParameter"):
            rs.append(n)
    return ts, rs


def _axis(vc, node):
    a = vc.attr(node, "axis")
    a = z3.simplify(to_z3(a)) if not isinstance(a, int) else a
    if not isinstance(a, int):
        if not z3.is_int_value(a):
            raise AssertionError("symbolic axis in a denotation")
        a = a.as_long()
    return a


def outer(vc, a, b, axis, f):
    """out[.., i1*K2+i2, ..] = f(a[.., i1, ..], b[.., i2, ..]) on `axis` (Kronecker order, first operand major)"""
    I = vc.I
    K1, K2 = a.shape[axis], b.shape[axis]
    shape = list(a.shape)
    shape[axis] = K1 * K2
    comps = [list(c) for c in a.comps]
    comps[axis] = [K1, K2]

    def elem(idx):
        p = T.split_index(I, idx[axis], [K1, K2])
        ia, ib = list(idx), list(idx)
        ia[axis], ib[axis] = p[0], p[1]
        return f(T._num(a.elem(ia)), T._num(b.elem(ib)))
    return Tensor(shape, elem, a.dtype, comps)


def kron(vc, a, b):
    I = vc.I
    shape = [a.shape[j] * b.shape[j] for j in range(a.rank)]
    comps = [[a.shape[j], b.shape[j]] for j in range(a.rank)]

    def elem(idx):
        ia, ib = [], []
        for j in range(a.rank):
            p = T.split_index(I, idx[j], [a.shape[j], b.shape[j]])
            ia.append(p[0])
            ib.append(p[1])
        return T._num(a.elem(ia)) * T._num(b.elem(ib))
    return Tensor(shape, elem, a.dtype, comps)


def unit_outer(vc, ts, f):
    """for vectors (K1,), (K1,), (K2,), (K2,) ...: out[i*K2+j] = f(first-group elems at i, second-group elems at j)"""
    I = vc.I
    K1, K2 = ts[0][0].shape[0], ts[1][0].shape[0]

    def elem(idx):
        p = T.split_index(I, idx[0], [K1, K2])
        return f([T._num(t.elem([p[0]])) for t in ts[0]], [T._num(t.elem([p[1]])) for t in ts[1]])
    return Tensor([K1 * K2], elem, "float", [[K1, K2]])


def den_node(vc, node, ins, env):
    I = vc.I
    name = node.cls.name
    un = {"ExpParameter": "exp", "LogParameter": "log", "SoftplusParameter": "softplus", "SigmoidParameter": "sigmoid",
          "ConjugateParameter": "conj"}
    if cls_is(vc, node, "ReferenceParameter"):
        return leaf_of(vc, env, vc.call((node, "deref")))
    if cls_is(vc, node, "TensorParameter"):
        return leaf_of(vc, env, node)
    if name in un:
        return T.unary(un[name])(I, ins[0])
    if name == "SquareParameter":
        return T.square(I, ins[0])
    if name == "ScaledSigmoidParameter":
        lo, hi = vc.attr(node, "vmin"), vc.attr(node, "vmax")
        x = ins[0]
        return Tensor(x.shape, lambda idx: T._real(lo) + (T._real(hi) - T._real(lo)) * T.elemwise("sigmoid", x.elem(idx)), "float", x.comps)
    if name == "ClampParameter":
        return T.clamp(I, ins[0], min=vc.attr(node, "vmin"), max=vc.attr(node, "vmax"))
    red = {"ReduceSumParameter": "sum", "ReduceProductParameter": "prod", "ReduceLSEParameter": "lse"}
    if name in red:
        return T.reduce_(red[name])(I, ins[0], dim=_axis(vc, node))
    if name in ("SoftmaxParameter", "LogSoftmaxParameter"):
        return T.softmax(name == "LogSoftmaxParameter")(I, ins[0], dim=_axis(vc, node))
    if name == "IndexParameter":
        ax = _axis(vc, node)
        return T.index(I, ins[0], tuple([slice(None)] * ax + [vc.attr(node, "indices")]))
    if name == "SumParameter":
        return T.binary(I, "add", ins[0], ins[1])
    if name == "HadamardParameter":
        return T.binary(I, "mul", ins[0], ins[1])
    if name == "KroneckerParameter":
        return kron(vc, ins[0], ins[1])
    if name == "OuterProductParameter":
        return outer(vc, ins[0], ins[1], _axis(vc, node), lambda x, y: x * y)
    if name == "OuterSumParameter":
        return outer(vc, ins[0], ins[1], _axis(vc, node), lambda x, y: x + y)
    if name == "MixingWeightParameter":
        x = ins[0]
        K, H = x.shape

        def elem(idx):
            p = T.split_index(I, idx[1], [H, K])
            return z3.If(to_z3(T.lin(idx[0])) == to_z3(T.lin(p[1])), T._real(x.elem([idx[0], p[0]])), z3.RealVal(0))
        return Tensor([K, H * K], elem, "float", [[K], [H, K]])
    if name == "GaussianProductMean":
        def f(a, b):
            (m1, s1), (m2, s2) = a, b
            return (m1 * s2 * s2 + m2 * s1 * s1) / (s1 * s1 + s2 * s2)
        return unit_outer(vc, [ins[0:2], ins[2:4]], f)
    if name == "GaussianProductStddev":
        return unit_outer(vc, [ins[0:1], ins[1:2]], lambda a, b: T.elemwise("sqrt", 1 / (1 / (a[0] * a[0]) + 1 / (b[0] * b[0]))))
    if name == "GaussianProductLogPartition":
        log2pi = z3.RealVal(math.log(2.0 * math.pi))

        def f(a, b):
            (m1, s1), (m2, s2) = a, b
            v = s1 * s1 + s2 * s2
            d = m1 - m2
            return z3.RealVal(-0.5) * (log2pi + T.elemwise("log", v) + d * d / v)
        return unit_outer(vc, [ins[0:2], ins[2:4]], f)
    if name == "PolynomialProduct":
        a, b = ins
        K1, D1 = a.shape
        K2, D2 = b.shape
        conv = T.uf("spec_polyconv", T.RealS, T.RealS, z3.IntSort(), T.RealS)
        # the coefficient of x^n of the product polynomial, as an uninterpreted functional of the two unit ids:
        # identified by (operand tensors, unit of the first, unit of the second, n)

        def elem(idx):
            p = T.split_index(I, idx[0], [K1, K2])
            return T.uf("spec_polyprod_coeff", z3.IntSort(), z3.IntSort(), z3.IntSort(), z3.IntSort(), z3.IntSort(), T.RealS)(
                z3.IntVal(id_of(a)), z3.IntVal(id_of(b)), to_z3(T.lin(p[0])), to_z3(T.lin(p[1])), to_z3(T.lin(idx[1])))
        return Tensor([K1 * K2, D1 + D2 - 1], elem, "float", [[K1, K2], [D1 + D2 - 1]])
    if name == "PolynomialDifferential":
        x = ins[0]
        order = vc.attr(node, "order")
        K, D = x.shape
        if not isinstance(order, int):
            raise AssertionError("symbolic differentiation order in a denotation")
        big = vc.must(to_z3(D) > order)
        small = vc.must(to_z3(D) <= order)
        if small:
            return T.const_tensor([K, 1], z3.RealVal(0))
        if not big:
            raise AssertionError("denotation of PolynomialDifferential needs a decided degree/order comparison")

        def elem(idx):
            n = to_z3(T.lin(idx[1]))
            c = 1
            for t in range(1, order + 1):
                c = c * (n + t)
            return z3.ToReal(c) * T._real(x.elem([idx[0], n + order]))
        return Tensor([K, D - order], elem, "float")
    raise AssertionError(f"no denotation for parameter node {name}")


_IDS = {}


def id_of(t):
    return _IDS.setdefault(id(t), len(_IDS))


def den_param(vc, P, env):
    """denotation of the symbolic Parameter object P (a rooted DAG of parameter nodes)"""
    in_nodes = P.fields["_in_nodes"]
    memo = {}

    def rec(n):
        if n.oid in memo:
            return memo[n.oid]
        ins = [rec(i) for i in in_nodes.get(n, [])]
        memo[n.oid] = den_node(vc, n, ins, env)
        return memo[n.oid]
    (out,) = P.fields["_outputs"]
    return rec(out)


def shape_eq(vc, t, expect, label="shape"):
    ok = isinstance(t, Tensor) and len(t.shape) == len(expect)
    vc.ensure(label + ".rank", ok)
    if ok:
        for j, (a, b) in enumerate(zip(t.shape, expect)):
            vc.ensure(f"{label}.dim{j}", to_z3(a) == to_z3(b))


def seq_eq_list(vc, s, expect, label):
    """a (possibly symbolic) int sequence equals the python list `expect` of terms"""
    vc.ensure(label + ".len", to_z3(vc.len(s)) == len(expect))
    if vc.must(to_z3(vc.len(s)) == len(expect)):
        for j, e in enumerate(expect):
            vc.ensure(f"{label}.{j}", to_z3(vc.at(s, j)) == to_z3(e))


# ------------------------------------------------------------------------------------------------ sharing (C10)
def sharing_clauses(vc, result_params, operand_params, label="sharing"):
    """C10 for one rule: the parameter graphs of the result hold no tensor parameter of their own other than constants,
    and every reference points to a tensor parameter object of an operand (object identity, not a copy)."""
    owned = set()
    for P in operand_params:
        ts, rs = tensor_leaves(vc, P)
        owned.update(t.oid for t in ts)
        owned.update(vc.call((r, "deref")).oid for r in rs)
    new_learnable, foreign, reused = 0, 0, 0
    for P in result_params:
        ts, rs = tensor_leaves(vc, P)
        for t in ts:
            if not cls_is(vc, t, "ConstantParameter"):
                new_learnable += 1
            if t.oid in owned:
                reused += 1
        for r in rs:
            if vc.call((r, "deref")).oid not in owned:
                foreign += 1
    vc.ensure(label + ".no_new_tensor_parameter", new_learnable == 0)
    vc.ensure(label + ".references_point_to_operand_tensors", foreign == 0)
    # an operand tensor (learnable, frozen or constant) re-used as a *node* of the derived graph would be compiled a second
    # time into its own storage: it must appear behind a ReferenceParameter only
    vc.ensure(label + ".operand_tensors_only_behind_references", reused == 0)
