"""C01 (L2, layer compilation rules): every rule of cirkit/backend/torch/rules/layers.py builds the torch layer of the same
kind with the symbolic layer's integers (units, arity, states / categories / total count / degree, log-space flag), the
compiler's semiring, the variable ids of its scope as the scope index (in increasing order), and - parameter by parameter - the
compiled form of the parameter of the SAME NAME (probs is not passed for logits, mean not for stddev, ...).
For all unit counts, state counts, degrees, arities and variable ids.
"""
import z3

from engine.vc import obligation
from engine.values import to_z3, ClassVal, Obj, Opaque, BoundBuiltin, IntTensorConst
from engine import builtins_ as B
from contracts.lib import *
from contracts.functional_lib import input_layer
from contracts.C01_kernels import semiring

RL = "cirkit/backend/torch/rules/layers.py"


def _compiler(vc, sr):
    compiled = {}

    def compile_parameter(P):
        o = vc.opaque("compiled_param", attrs={"num_folds": 1, "shape": tuple(B.iterate(vc.I, vc.attr(P, "shape"))), "device": None})
        compiled[id(o)] = P
        return o
    comp = vc.opaque("compiler", attrs={"semiring": sr})
    comp.attrs["compile_parameter"] = lambda o: BoundBuiltin(compile_parameter)

    def compile_layer(sl):
        table = vc.I.wrap_resolved(vc.repo.resolve_name(vc.repo.module_by_path(RL), "DEFAULT_LAYER_COMPILATION_RULES"))
        return vc.I.call(table[ClassVal(sl.cls)], [comp, sl], {})
    comp.attrs["compile_layer"] = lambda o: BoundBuiltin(compile_layer)
    return comp, compiled


def _rule(vc, sl):
    table = vc.I.wrap_resolved(vc.repo.resolve_name(vc.repo.module_by_path(RL), "DEFAULT_LAYER_COMPILATION_RULES"))
    return table[ClassVal(sl.cls)]


def _common(vc, t, sl, sr, compiled, var=None, ints=()):
    ok = isinstance(t, Obj) and t.cls.name == "Torch" + sl.cls.name
    vc.ensure("torch_layer_of_the_same_kind", ok)
    if not ok:
        return
    vc.ensure("semiring_of_the_compiler", t.fields.get("semiring") is not None and t.fields["semiring"].ci is sr.ci)
    vc.ensure("one_fold", vc.attr(t, "num_folds") == 1)
    for a in ("num_output_units",) + tuple(ints):
        vc.ensure("same_" + a, vc.eq(vc.attr(t, a), vc.attr(sl, a)))
    if var is not None:
        si = t.fields.get("_scope_idx")
        vals = None
        if isinstance(si, IntTensorConst):
            rows = list(B.iterate(vc.I, si.values))
            vals = [list(B.iterate(vc.I, r)) if not B.is_intlike(r) else [r] for r in rows]
        elif si is not None and hasattr(si, "shape"):
            vals = [[si.elem([0, 0])]] if len(si.shape) == 2 else None
        vc.ensure("scope_index_is_one_row_with_the_variable_id", vals is not None and len(vals) == 1 and len(vals[0]) == 1 and vc.must(to_z3(vals[0][0]) == to_z3(var)))
    sp, tp = vc.attr(sl, "params"), vc.attr(t, "params")
    vc.ensure("same_parameter_names", list(sp.keys()) == list(tp.keys()))
    for name, P in sp.items():
        if name in tp:
            vc.ensure(f"param.{name}.is_the_compiled_form_of_the_symbolic_{name}", compiled.get(id(tp[name])) is P)


INPUTS = {"embedding": ("num_states",), "categorical": ("num_categories",), "categorical_logits": ("num_categories",), "binomial": ("total_count",),
          "gaussian": (), "gaussian_lp": (), "polynomial": ("degree",)}

for _sr in ("SumProductSemiring", "LSESumSemiring"):
    for _kind, _ints in INPUTS.items():
        def _h(vc, _sr=_sr, _kind=_kind, _ints=_ints):
            K, C = vc.int("K", lo=1), vc.int("C", lo=2)
            v, scope = scope1(vc)
            sl = input_layer(vc, _kind, scope, K, C)
            sr = semiring(vc, _sr)
            comp, compiled = _compiler(vc, sr)
            t = vc.I.call(_rule(vc, sl), [comp, sl], {})
            _common(vc, t, sl, sr, compiled, var=v, ints=_ints)
        obligation(f"C01.rule.compile_{_kind}_layer.{_sr}", "C01", [f"{RL}:compile_{_kind.split('_')[0]}_layer"])(_h)

    def _h(vc, _sr=_sr):
        Ki, Ko, H = vc.int("Ki", lo=1), vc.int("Ko", lo=1), vc.int("H", lo=1)
        sl = vc.new(f"{SL}:SumLayer", Ki, Ko, arity=H, weight=tensor_param(vc, (Ko, H * Ki), "unary", "SoftmaxParameter"))
        sr = semiring(vc, _sr)
        comp, compiled = _compiler(vc, sr)
        t = vc.I.call(_rule(vc, sl), [comp, sl], {})
        _common(vc, t, sl, sr, compiled, ints=("num_input_units", "arity"))
    obligation(f"C01.rule.compile_sum_layer.{_sr}", "C01", [f"{RL}:compile_sum_layer"])(_h)

    for _cls in ("HadamardLayer", "KroneckerLayer"):
        def _h(vc, _sr=_sr, _cls=_cls):
            K = vc.int("K", lo=1)
            H = vc.int("H", lo=2) if _cls == "HadamardLayer" else 3
            sl = vc.new(f"{SL}:{_cls}", K, arity=H)
            sr = semiring(vc, _sr)
            comp, compiled = _compiler(vc, sr)
            t = vc.I.call(_rule(vc, sl), [comp, sl], {})
            _common(vc, t, sl, sr, compiled, ints=("num_input_units", "arity"))
        obligation(f"C01.rule.compile_{_cls[:-5].lower()}_layer.{_sr}", "C01", [f"{RL}:compile_{_cls[:-5].lower()}_layer"])(_h)

    for _log in (False, True):
        def _h(vc, _sr=_sr, _log=_log):
            K = vc.int("K", lo=1)
            sl = vc.new(f"{SL}:ConstantValueLayer", K, log_space=_log, value=tensor_param(vc, (K,), "reference"))
            sr = semiring(vc, _sr)
            comp, compiled = _compiler(vc, sr)
            t = vc.I.call(_rule(vc, sl), [comp, sl], {})
            _common(vc, t, sl, sr, compiled)
            if isinstance(t, Obj):
                vc.ensure("same_log_space_flag", vc.attr(t, "log_space") is _log)
        obligation(f"C01.rule.compile_constant_value_layer.{'log' if _log else 'linear'}.{_sr}", "C01", [f"{RL}:compile_constant_value_layer"])(_h)


@obligation("C06.rule.compile_evidence_layer", "C06", [f"{RL}:compile_evidence_layer", f"{RL}:compile_categorical_layer"])
def _(vc):
    K, C = vc.int("K", lo=1), vc.int("C", lo=2)
    v, scope = scope1(vc)
    inner = input_layer(vc, "categorical", scope, K, C)
    obs = vc.call(f"{SP}:Parameter.from_input", vc.new(f"{SP}:ConstantParameter", 1, value=vc.real("x")))
    sl = vc.new(f"{SL}:EvidenceLayer", inner, observation=obs)
    sr = semiring(vc, "LSESumSemiring")
    comp, compiled = _compiler(vc, sr)
    t = vc.I.call(_rule(vc, sl), [comp, sl], {})
    ok = isinstance(t, Obj) and t.cls.name == "TorchEvidenceLayer"
    vc.ensure("torch_evidence_layer", ok)
    if ok:
        vc.ensure("semiring_of_the_compiler", t.fields["semiring"].ci is sr.ci)
        w = t.fields.get("layer")
        vc.ensure("wraps_the_compiled_wrapped_layer", isinstance(w, Obj) and w.cls.name == "TorchCategoricalLayer" and
                  vc.must(to_z3(vc.attr(w, "num_categories")) == to_z3(C)) and compiled.get(id(vc.attr(w, "params")["probs"])) is vc.attr(inner, "probs"))
        vc.ensure("observation_is_the_compiled_observation", compiled.get(id(t.fields.get("observation"))) is obs)
        vc.ensure("units", vc.attr(t, "num_output_units") == K)
