"""C05 (A-part): Scope.__iter__ enumerates the variables of the scope in strictly increasing id order - the fact
`differentiate` relies on when it labels the derivative blocks of a product layer with `zip(scope, blocks)` and merges
them with heapq.merge.  For every (finite) set of variable ids."""
import z3

from engine.vc import obligation
from engine.values import to_z3

SC = "cirkit/utils/scope.py"


@obligation("C05.Scope.__iter__.increasing", "C05", [f"{SC}:Scope.__init__", f"{SC}:Scope.__iter__"])
def _(vc):
    st = vc.set("vars")
    vc.cardinality_abstraction_is_exact("the set is arbitrary and its enumeration is a bijection onto 0..n-1, which pins n to its cardinality")
    sc = vc.new(f"{SC}:Scope", st)
    seq = vc.I.builtins["list"].fn(vc.call((sc, "__iter__")))
    n = vc.len(seq)
    vc.ensure("strictly_increasing", vc.forall(n, lambda k: z3.Implies(k + 1 < to_z3(n), vc.at(seq, k) < vc.at(seq, k + 1))))
    vc.ensure("only_members", vc.forall(n, lambda k: z3.Select(st.arr, vc.at(seq, k))))
    v = z3.Int(vc.path.fresh_name("v_member"))
    vc.assume(z3.Select(st.arr, v))  # an arbitrary member ...
    vc.ensure("every_member_listed", vc.exists(n, lambda k: vc.at(seq, k) == v))  # ... occurs in the enumeration


@obligation("C08.Scope.hash_respects_equality", "C08", [f"{SC}:Scope.__hash__", f"{SC}:Scope.__eq__"])
def _(vc):
    """scopes are dictionary keys of the structural predicates (`_scope_factorizations`, `is_structured_decomposable`): equal scopes - however
    their sets were assembled - must hash alike, or equal scopes end up under different keys (hash of a set is a function of the set; the order in
    which a set is ITERATED is not)"""
    a, b = vc.set("a"), vc.set("b")
    vc.cardinality_abstraction_is_exact("only equality of the two sets matters here")
    s1, s2 = vc.new(f"{SC}:Scope", a), vc.new(f"{SC}:Scope", b)
    vc.assume(a.arr == b.arr)
    vc.ensure("equal_scopes_are_equal", vc.I.truth(vc.call((s1, "__eq__"), s2)))
    h1, h2 = vc.call((s1, "__hash__")), vc.call((s2, "__hash__"))
    vc.ensure("equal_scopes_hash_alike", to_z3(h1) == to_z3(h2))


@obligation("C08.Scope.hash_respects_equality.enumerated", "C08", [f"{SC}:Scope.__hash__", f"{SC}:Scope.__eq__", f"{SC}:Scope.__init__"])
def _(vc):
    """the same clause for scopes assembled from the same two / three variables listed in different orders (quantifier-free instance: a hash that
    depends on the order in which the set happens to be iterated is refuted here with a model)"""
    x, y, z = vc.int("x"), vc.int("y"), vc.int("z")
    vc.assume(z3.And(x >= 0, y >= 0, z >= 0, z3.Distinct(x, y, z)))
    for tag, la, lb in (("two", [x, y], [y, x]), ("three", [x, y, z], [z, x, y])):
        s1, s2 = vc.new(f"{SC}:Scope", la), vc.new(f"{SC}:Scope", lb)
        vc.ensure(f"{tag}.equal_scopes_are_equal", vc.I.truth(vc.call((s1, "__eq__"), s2)))
        h1, h2 = vc.call((s1, "__hash__")), vc.call((s2, "__hash__"))
        vc.ensure(f"{tag}.equal_scopes_hash_alike", to_z3(h1) == to_z3(h2))
