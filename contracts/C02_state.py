"""C02 / C10 / C17 (the compiler's parameter registry, TorchCompilerState): every symbolic tensor parameter is associated with exactly one
(compiled tensor, fold index); registering touches the entry of that symbolic parameter only.

  register_compiled_parameter(sp, cp)              compiled[sp] = (cp, 0) and symbolic[cp] = sp; nothing else written
  register_compiled_parameter(sp, cp, fold_idx=i)  compiled[sp] = (cp, i); the reverse map is not written (it describes unfolded tensors only)
  retrieve_* / has_compiled_parameter              read the maps, write nothing
  finish_compilation                               clears the reverse map only: symbolic -> compiled associations survive (derived circuits
                                                   compiled later still find the operand's tensors)
The maps are frame-guarded (C02_rewrite.GuardedMap): a read or write of any other key makes the obligation unsupported.
"""
import z3

from engine.vc import obligation
from engine.values import Opaque, Obj, to_z3
from contracts.C02_rewrite import GuardedMap, ABSENT

TC = "cirkit/backend/torch/compiler.py"


def _state(vc, compiled, symbolic):
    st = vc.new(f"{TC}:TorchCompilerState")
    st.fields["_compiled_parameters"] = GuardedMap("_compiled_parameters", compiled)
    st.fields["_symbolic_parameters"] = GuardedMap("_symbolic_parameters", symbolic)
    return st


for _pre in ("fresh", "already_registered"):
    for _folded in (False, True):
        def _h(vc, _pre=_pre, _folded=_folded):
            sp, cp, old = Opaque("sp"), Opaque("cp"), Opaque("old_cp")
            st = _state(vc, {sp: ABSENT if _pre == "fresh" else (old, 0)}, {cp: ABSENT})
            C, S = st.fields["_compiled_parameters"], st.fields["_symbolic_parameters"]
            i = vc.int("fold_idx", lo=0)
            if _folded:
                vc.call((st, "register_compiled_parameter"), sp, cp, fold_idx=i)
            else:
                vc.call((st, "register_compiled_parameter"), sp, cp)
            ok = len(C.written) == 1 and C.written[0][0] is sp and isinstance(C.written[0][1], tuple) and len(C.written[0][1]) == 2
            vc.ensure("exactly_the_entry_of_this_symbolic_parameter_is_written", ok)
            if ok:
                t, idx = C.written[0][1]
                vc.ensure("associated_with_this_compiled_tensor", t is cp)
                vc.ensure("at_the_given_fold_or_fold_0", to_z3(idx) == (i if _folded else 0))
            if _folded:
                vc.ensure("reverse_map_untouched_for_folded_tensors", S.written == [])
            else:
                vc.ensure("reverse_map_points_back", len(S.written) == 1 and S.written[0][0] is cp and S.written[0][1] is sp)
            vc.ensure("maps_not_replaced", st.fields["_compiled_parameters"] is C and st.fields["_symbolic_parameters"] is S)
        obligation(f"C02.state.register_compiled_parameter.{_pre}.{'folded' if _folded else 'unfolded'}", "C02", [f"{TC}:TorchCompilerState.register_compiled_parameter"])(_h)


@obligation("C02.state.lookups", "C02", [f"{TC}:TorchCompilerState.retrieve_compiled_parameter", f"{TC}:TorchCompilerState.has_compiled_parameter",
                                         f"{TC}:TorchCompilerState.retrieve_symbolic_parameter"])
def _(vc):
    sp, cp, other = Opaque("sp"), Opaque("cp"), Opaque("unknown_sp")
    i = vc.int("fold_idx", lo=0)
    st = _state(vc, {sp: (cp, i), other: ABSENT}, {cp: sp})
    C, S = st.fields["_compiled_parameters"], st.fields["_symbolic_parameters"]
    got = vc.call((st, "retrieve_compiled_parameter"), sp)
    vc.ensure("returns_the_registered_tensor_and_fold", isinstance(got, tuple) and len(got) == 2 and got[0] is cp and vc.must(to_z3(got[1]) == i))
    vc.ensure("has_compiled_parameter_is_membership", vc.I.truth(vc.call((st, "has_compiled_parameter"), sp)) is True and vc.I.truth(vc.call((st, "has_compiled_parameter"), other)) is False)
    vc.ensure("reverse_lookup", vc.call((st, "retrieve_symbolic_parameter"), cp) is sp)
    exc, _ = vc.raises(lambda: vc.call((st, "retrieve_compiled_parameter"), other))
    vc.ensure("unknown_parameter_is_a_KeyError", exc == "KeyError")
    vc.ensure("lookups_write_nothing", C.written == [] and S.written == [])


@obligation("C02.state.finish_compilation", "C02", [f"{TC}:TorchCompilerState.finish_compilation"])
def _(vc):
    sp, cp = Opaque("sp"), Opaque("cp")
    st = vc.new(f"{TC}:TorchCompilerState")
    st.fields["_compiled_parameters"] = {sp: (cp, 0)}
    st.fields["_symbolic_parameters"] = {cp: sp}
    C = st.fields["_compiled_parameters"]
    vc.call((st, "finish_compilation"))
    vc.ensure("symbolic_to_compiled_associations_survive", st.fields["_compiled_parameters"] is C and list(C.keys()) == [sp] and C[sp][0] is cp)
    vc.ensure("reverse_map_cleared", len(st.fields["_symbolic_parameters"]) == 0)
