"""C14 (B-part): every torch parameter node's `forward` returns (F, *self.shape) and computes the
mathematical definition of the node along the declared axis, independently for every fold.

Complete in the dimension sizes and the number of folds; enumerated over the rank (1..RANK_MAX) and over
every admissible dim (negative dims included through __init__'s normalisation).  Rank bound: 3 in the quick
tier, 4 in the thorough tier (parameter tensors in cirkit have rank <= 2).
"""
import os

import z3

from engine.vc import obligation
from engine.values import to_z3
from engine.tensor import MR, Tensor

TN = "cirkit/backend/torch/parameters/nodes.py"
RANK_MAX = 4 if os.environ.get("VERIF_TIER", "quick") == "thorough" else 3


def shape_eq(vc, t, expect, label="out_shape"):
    """B1: the result shape is the declared one"""
    ok = isinstance(t, Tensor) and len(t.shape) == len(expect)
    vc.ensure(label + ".rank", ok)
    if ok:
        for j, (a, b) in enumerate(zip(t.shape, expect)):
            vc.ensure(f"{label}.dim{j}", to_z3(a) == to_z3(b))


def declared_shape(vc, node, F):
    return [F] + list(vc.I.B.iterate(vc.I, vc.attr(node, "shape")))


def rank_dims():
    for n in range(1, RANK_MAX + 1):
        for d in range(-n, n):
            yield n, d


# ------------------------------------------------------------------------------------------------
# entrywise nodes
# ------------------------------------------------------------------------------------------------
ENTRYWISE = {
    "TorchExpParameter": lambda vc, v: vc.fn("exp", v), "TorchLogParameter": lambda vc, v: vc.fn("log", v),
    "TorchSquareParameter": lambda vc, v: v * v, "TorchSigmoidParameter": lambda vc, v: vc.fn("sigmoid", v),
    "TorchSoftplusParameter": lambda vc, v: vc.fn("softplus", v), "TorchConjugateParameter": lambda vc, v: vc.fn("conj", v),
}
for _cls, _f in ENTRYWISE.items():
    for _n in range(1, RANK_MAX + 1):
        def _h(vc, _cls=_cls, _f=_f, _n=_n):
            F = vc.int("F", lo=1)
            s = vc.shape("in_shape", _n)
            node = vc.new(f"{TN}:{_cls}", s, num_folds=F)
            x = vc.tensor("x", (F, *s))
            y = vc.call((node, "forward"), x)
            shape_eq(vc, y, declared_shape(vc, node, F))
            idx = vc.index_consts(y.shape)
            vc.ensure("elementwise", y.elem(idx) == _f(vc, x.elem(idx)))
        obligation(f"C14.kernel.{_cls}.rank{_n}", "C14", [f"{TN}:{_cls}.forward"])(_h)


@obligation("C14.kernel.TorchScaledSigmoidParameter", "C14", [f"{TN}:TorchScaledSigmoidParameter.forward"])
def _(vc):
    F = vc.int("F", lo=1)
    s = vc.shape("in_shape", 2)
    lo, hi = vc.real("vmin"), vc.real("vmax")
    vc.assume(z3.And(lo >= 0, lo < hi))
    node = vc.new(f"{TN}:TorchScaledSigmoidParameter", s, lo, hi, num_folds=F)
    x = vc.tensor("x", (F, *s))
    y = vc.call((node, "forward"), x)
    shape_eq(vc, y, declared_shape(vc, node, F))
    idx = vc.index_consts(y.shape)
    vc.ensure("elementwise", y.elem(idx) == lo + (hi - lo) * vc.fn("sigmoid", x.elem(idx)))


@obligation("C14.kernel.TorchClampParameter", "C14", [f"{TN}:TorchClampParameter.forward"])
def _(vc):
    F = vc.int("F", lo=1)
    s = vc.shape("in_shape", 2)
    lo, hi = vc.real("vmin"), vc.real("vmax")
    vc.assume(lo <= hi)
    node = vc.new(f"{TN}:TorchClampParameter", s, lo, hi, num_folds=F)
    x = vc.tensor("x", (F, *s))
    y = vc.call((node, "forward"), x)
    shape_eq(vc, y, declared_shape(vc, node, F))
    idx = vc.index_consts(y.shape)
    v = x.elem(idx)
    vc.ensure("elementwise", y.elem(idx) == z3.If(v < lo, lo, z3.If(v > hi, hi, v)))


# ------------------------------------------------------------------------------------------------
# binary entrywise
# ------------------------------------------------------------------------------------------------
for _cls, _f in {"TorchSumParameter": lambda a, b: a + b, "TorchHadamardParameter": lambda a, b: a * b}.items():
    for _n in range(1, RANK_MAX + 1):
        def _h(vc, _cls=_cls, _f=_f, _n=_n):
            F = vc.int("F", lo=1)
            s = vc.shape("in_shape", _n)
            node = vc.new(f"{TN}:{_cls}", s, s, num_folds=F)
            x1, x2 = vc.tensor("x1", (F, *s)), vc.tensor("x2", (F, *s))
            y = vc.call((node, "forward"), x1, x2)
            shape_eq(vc, y, declared_shape(vc, node, F))
            idx = vc.index_consts(y.shape)
            vc.ensure("elementwise", y.elem(idx) == _f(x1.elem(idx), x2.elem(idx)))
        obligation(f"C14.kernel.{_cls}.rank{_n}", "C14", [f"{TN}:{_cls}.forward"])(_h)


# ------------------------------------------------------------------------------------------------
# reductions along an axis (fold-shifted by one)
# ------------------------------------------------------------------------------------------------
REDUCE = {"TorchReduceSumParameter": "sum", "TorchReduceProductParameter": "prod", "TorchReduceLSEParameter": "lse"}
for _cls, _kind in REDUCE.items():
    for _n, _d in rank_dims():
        def _h(vc, _cls=_cls, _kind=_kind, _n=_n, _d=_d):
            F = vc.int("F", lo=1)
            s = vc.shape("in_shape", _n)
            node = vc.new(f"{TN}:{_cls}", s, dim=_d, num_folds=F)
            a = _d % _n
            vc.ensure("dim_normalised", vc.attr(node, "dim") == a)
            x = vc.tensor("x", (F, *s))
            y = vc.call((node, "forward"), x)
            shape_eq(vc, y, [F] + [s[j] for j in range(_n) if j != a])
            shape_eq(vc, y, declared_shape(vc, node, F), "declared_shape")
            idx = vc.index_consts(y.shape)
            f, rest = idx[0], idx[1:]
            spec = vc.red(_kind, [s[a]], lambda r: x.elem([f] + rest[:a] + [r] + rest[a:]))
            vc.ensure("reduces_declared_axis_per_fold", y.elem(idx) == spec)
        obligation(f"C14.kernel.{_cls}.rank{_n}.dim{_d}", "C14", [f"{TN}:{_cls}.forward", f"{TN}:TorchReduceParameterOp.__init__"])(_h)

for _cls, _log in {"TorchSoftmaxParameter": False, "TorchLogSoftmaxParameter": True}.items():
    for _n, _d in rank_dims():
        def _h(vc, _cls=_cls, _log=_log, _n=_n, _d=_d):
            F = vc.int("F", lo=1)
            s = vc.shape("in_shape", _n)
            node = vc.new(f"{TN}:{_cls}", s, dim=_d, num_folds=F)
            a = _d % _n
            vc.ensure("dim_normalised", vc.attr(node, "dim") == a)
            x = vc.tensor("x", (F, *s))
            y = vc.call((node, "forward"), x)
            shape_eq(vc, y, [F, *s])
            idx = vc.index_consts(y.shape)
            f, rest = idx[0], idx[1:]
            den = vc.red("sum", [s[a]], lambda r: vc.fn("exp", x.elem([f] + rest[:a] + [r] + rest[a + 1:])))
            if _log:
                vc.ensure("log_softmax_along_axis", y.elem(idx) == x.elem(idx) - vc.fn("log", den))
            else:
                vc.ensure("softmax_along_axis", y.elem(idx) == vc.fn("exp", x.elem(idx)) / den)
        obligation(f"C14.kernel.{_cls}.rank{_n}.dim{_d}", "C14", [f"{TN}:{_cls}.forward", f"{TN}:TorchEntrywiseReduceParameterOp.__init__"])(_h)


# ------------------------------------------------------------------------------------------------
# index along an axis
# ------------------------------------------------------------------------------------------------
for _n, _d in rank_dims():
    def _h(vc, _n=_n, _d=_d):
        F = vc.int("F", lo=1)
        s = vc.shape("in_shape", _n)
        a = _d % _n
        idxs = vc.seq("indices", kind="list")
        vc.assume(vc.forall(vc.len(idxs), lambda k: z3.And(vc.at(idxs, k) >= 0, vc.at(idxs, k) < s[a])))
        node = vc.new(f"{TN}:TorchIndexParameter", s, idxs, _d, num_folds=F)
        x = vc.tensor("x", (F, *s))
        y = vc.call((node, "forward"), x)
        expect = [F] + [vc.len(idxs) if j == a else s[j] for j in range(_n)]
        shape_eq(vc, y, expect)
        shape_eq(vc, y, declared_shape(vc, node, F), "declared_shape")
        idx = vc.index_consts(expect)
        src = list(idx)
        src[1 + a] = vc.at(idxs, idx[1 + a])
        vc.ensure("gathers_declared_axis", y.elem(idx) == x.elem(src))
    obligation(f"C14.kernel.TorchIndexParameter.rank{_n}.dim{_d}", "C14", [f"{TN}:TorchIndexParameter.forward", f"{TN}:TorchIndexParameter.__init__"])(_h)


# ------------------------------------------------------------------------------------------------
# outer product / outer sum along an axis, Kronecker order (first operand major)
# ------------------------------------------------------------------------------------------------
for _cls, _f in {"TorchOuterProductParameter": lambda a, b: a * b, "TorchOuterSumParameter": lambda a, b: a + b}.items():
    for _n, _d in rank_dims():
        def _h(vc, _cls=_cls, _f=_f, _n=_n, _d=_d):
            F = vc.int("F", lo=1)
            s1 = vc.shape("in_shape1", _n)
            a = _d % _n
            k2 = vc.int("K2", lo=1)
            s2 = tuple(k2 if j == a else s1[j] for j in range(_n))
            node = vc.new(f"{TN}:{_cls}", s1, s2, dim=_d, num_folds=F)
            x1, x2 = vc.tensor("x1", (F, *s1)), vc.tensor("x2", (F, *s2))
            y = vc.call((node, "forward"), x1, x2)
            expect = [F] + [s1[a] * k2 if j == a else s1[j] for j in range(_n)]
            shape_eq(vc, y, expect)
            shape_eq(vc, y, declared_shape(vc, node, F), "declared_shape")
            base = vc.index_consts([F, *s1])
            j2 = vc.index_consts([k2], "j")[0]
            out = list(base)
            out[1 + a] = MR([(base[1 + a], s1[a]), (j2, k2)])
            i2 = list(base)
            i2[1 + a] = j2
            vc.ensure("kronecker_order_on_axis", y.elem(out) == _f(x1.elem(base), x2.elem(i2)))
        obligation(f"C14.kernel.{_cls}.rank{_n}.dim{_d}", "C14", [f"{TN}:{_cls}.forward", f"{TN}:{_cls}.__init__"])(_h)


for _n in range(1, RANK_MAX + 1):
    def _h(vc, _n=_n):
        F = vc.int("F", lo=1)
        s1, s2 = vc.shape("in_shape1", _n), vc.shape("in_shape2", _n)
        node = vc.new(f"{TN}:TorchKroneckerParameter", s1, s2, num_folds=F)
        x1, x2 = vc.tensor("x1", (F, *s1)), vc.tensor("x2", (F, *s2))
        y = vc.call((node, "forward"), x1, x2)
        expect = [F] + [s1[j] * s2[j] for j in range(_n)]
        shape_eq(vc, y, expect)
        shape_eq(vc, y, declared_shape(vc, node, F), "declared_shape")
        i1, i2 = vc.index_consts([F, *s1]), vc.index_consts([F, *s2], "j")
        vc.assume(i1[0] == i2[0])
        out = [i1[0]] + [MR([(i1[1 + j], s1[j]), (i2[1 + j], s2[j])]) for j in range(_n)]
        vc.ensure("kronecker_per_axis", y.elem(out) == x1.elem(i1) * x2.elem(i2))
    obligation(f"C14.kernel.TorchKroneckerParameter.rank{_n}", "C14", [f"{TN}:TorchKroneckerParameter.forward"])(_h)


@obligation("C14.kernel.TorchMixingWeightParameter", "C14", [f"{TN}:TorchMixingWeightParameter.forward"])
def _(vc):
    F, K, H = vc.int("F", lo=1), vc.int("K", lo=1), vc.int("H", lo=1)
    node = vc.new(f"{TN}:TorchMixingWeightParameter", (K, H), num_folds=F)
    x = vc.tensor("x", (F, K, H))
    y = vc.call((node, "forward"), x)
    shape_eq(vc, y, [F, K, H * K])
    shape_eq(vc, y, declared_shape(vc, node, F), "declared_shape")
    f, k, h, k2 = vc.index_consts([F, K, H, K])
    vc.ensure("diagonal_blocks", y.elem([f, k, MR([(h, H), (k2, K)])]) == z3.If(k == k2, x.elem([f, k, h]), 0))


@obligation("C14.kernel.TorchMatMulParameter", "C02", [f"{TN}:TorchMatMulParameter.forward"])
def _(vc):
    F, A, Bn, C = vc.int("F", lo=1), vc.int("A", lo=1), vc.int("B", lo=1), vc.int("C", lo=1)
    node = vc.new(f"{TN}:TorchMatMulParameter", (A, Bn), (Bn, C), num_folds=F)
    x1, x2 = vc.tensor("x1", (F, A, Bn)), vc.tensor("x2", (F, Bn, C))
    y = vc.call((node, "forward"), x1, x2)
    shape_eq(vc, y, [F, A, C])
    shape_eq(vc, y, declared_shape(vc, node, F), "declared_shape")
    f, a, c = vc.index_consts([F, A, C])
    vc.ensure("matrix_product_per_fold", y.elem([f, a, c]) == vc.red("sum", [Bn], lambda r: x1.elem([f, a, r]) * x2.elem([f, r, c])))


@obligation("C14.kernel.TorchFlattenParameter", "C02", [f"{TN}:TorchFlattenParameter.forward", f"{TN}:TorchFlattenParameter.shape"])
def _(vc):
    F = vc.int("F", lo=1)
    s = vc.shape("in_shape", 3)
    node = vc.new(f"{TN}:TorchFlattenParameter", s, num_folds=F, start_dim=0, end_dim=1)
    x = vc.tensor("x", (F, *s))
    y = vc.call((node, "forward"), x)
    shape_eq(vc, y, [F, s[0] * s[1], s[2]])
    shape_eq(vc, y, declared_shape(vc, node, F), "declared_shape")
    f, a, b, c = vc.index_consts([F, *s])
    vc.ensure("row_major", y.elem([f, MR([(a, s[0]), (b, s[1])]), c]) == x.elem([f, a, b, c]))


# ------------------------------------------------------------------------------------------------
# Gaussian product statistics (Kronecker order of units)
# ------------------------------------------------------------------------------------------------
@obligation("C14.kernel.TorchGaussianProductMean", "C14", [f"{TN}:TorchGaussianProductMean.forward"])
def _(vc):
    F, K1, K2 = vc.int("F", lo=1), vc.int("K1", lo=1), vc.int("K2", lo=1)
    node = vc.new(f"{TN}:TorchGaussianProductMean", (K1,), (K1,), (K2,), (K2,), num_folds=F)
    m1, s1, m2, s2 = (vc.tensor(n, (F, k)) for n, k in (("m1", K1), ("s1", K1), ("m2", K2), ("s2", K2)))
    y = vc.call((node, "forward"), m1, s1, m2, s2)
    shape_eq(vc, y, [F, K1 * K2])
    shape_eq(vc, y, declared_shape(vc, node, F), "declared_shape")
    f, i, j = vc.index_consts([F, K1, K2])
    v1, v2 = s1.elem([f, i]) * s1.elem([f, i]), s2.elem([f, j]) * s2.elem([f, j])
    vc.assume(v1 + v2 != 0)
    vc.ensure("closed_form", y.elem([f, MR([(i, K1), (j, K2)])]) == (m1.elem([f, i]) * v2 + m2.elem([f, j]) * v1) / (v1 + v2))


@obligation("C14.kernel.TorchGaussianProductStddev", "C14", [f"{TN}:TorchGaussianProductStddev.forward"])
def _(vc):
    F, K1, K2 = vc.int("F", lo=1), vc.int("K1", lo=1), vc.int("K2", lo=1)
    node = vc.new(f"{TN}:TorchGaussianProductStddev", (K1,), (K2,), num_folds=F)
    s1, s2 = vc.tensor("s1", (F, K1)), vc.tensor("s2", (F, K2))
    y = vc.call((node, "forward"), s1, s2)
    shape_eq(vc, y, [F, K1 * K2])
    shape_eq(vc, y, declared_shape(vc, node, F), "declared_shape")
    f, i, j = vc.index_consts([F, K1, K2])
    v1, v2 = s1.elem([f, i]) * s1.elem([f, i]), s2.elem([f, j]) * s2.elem([f, j])
    vc.ensure("closed_form", y.elem([f, MR([(i, K1), (j, K2)])]) == vc.fn("sqrt", 1 / (1 / v1 + 1 / v2)))


@obligation("C14.kernel.TorchGaussianProductLogPartition", "C14", [f"{TN}:TorchGaussianProductLogPartition.forward"])
def _(vc):
    import math
    F, K1, K2 = vc.int("F", lo=1), vc.int("K1", lo=1), vc.int("K2", lo=1)
    node = vc.new(f"{TN}:TorchGaussianProductLogPartition", (K1,), (K1,), (K2,), (K2,), num_folds=F)
    m1, s1, m2, s2 = (vc.tensor(n, (F, k)) for n, k in (("m1", K1), ("s1", K1), ("m2", K2), ("s2", K2)))
    y = vc.call((node, "forward"), m1, s1, m2, s2)
    shape_eq(vc, y, [F, K1 * K2])
    shape_eq(vc, y, declared_shape(vc, node, F), "declared_shape")
    f, i, j = vc.index_consts([F, K1, K2])
    v12 = s1.elem([f, i]) * s1.elem([f, i]) + s2.elem([f, j]) * s2.elem([f, j])
    d = m1.elem([f, i]) - m2.elem([f, j])
    vc.assume(v12 > 0)  # standard deviations are non-zero (the layer's own precondition)
    log2pi = z3.RealVal(math.log(2.0 * math.pi))
    vc.ensure("closed_form", y.elem([f, MR([(i, K1), (j, K2)])]) == z3.RealVal(-0.5) * (log2pi + vc.fn("log", v12) + d * d / v12))


# ------------------------------------------------------------------------------------------------
# polynomial differential
# ------------------------------------------------------------------------------------------------
for _order in (1, 2, 3):
    def _h(vc, _order=_order):
        F, K, D = vc.int("F", lo=1), vc.int("K", lo=1), vc.int("degp1", lo=1)
        node = vc.new(f"{TN}:TorchPolynomialDifferential", (K, D), num_folds=F, order=_order)
        x = vc.tensor("x", (F, K, D))
        y = vc.call((node, "forward"), x)
        big = vc.must(D > _order)
        small = vc.must(D <= _order)
        if not (big or small):
            vc.ensure("path_split_on_degree", False)
            return
        shape_eq(vc, y, [F, K, D - _order if big else 1])
        shape_eq(vc, y, declared_shape(vc, node, F), "declared_shape")
        f, k, n = vc.index_consts(y.shape)
        if small:
            vc.ensure("zero_polynomial", y.elem([f, k, n]) == 0)
        else:
            coef = 1
            for t in range(1, _order + 1):
                coef = coef * (n + t)
            vc.ensure("falling_factorial", y.elem([f, k, n]) == z3.ToReal(coef) * x.elem([f, k, n + _order]))
    obligation(f"C05.kernel.TorchPolynomialDifferential.order{_order}", "C05", [f"{TN}:TorchPolynomialDifferential.forward", f"{TN}:TorchPolynomialDifferential._diff_once"])(_h)


# ------------------------------------------------------------------------------------------------
# pointer: reads the *current* value of the target tensor, fold slices selected by the index list
# ------------------------------------------------------------------------------------------------
@obligation("C10.kernel.TorchPointerParameter.forward", "C10", [f"{TN}:TorchPointerParameter.forward", f"{TN}:TorchPointerParameter.__init__"])
def _(vc):
    from engine.values import BoundBuiltin
    F = vc.int("F", lo=1)
    s = vc.shape("shape", 2)
    target_value = vc.tensor("ptensor", (F, *s))
    calls = []

    def tgt_call():
        calls.append(1)
        return target_value
    target = vc.opaque("target", attrs={"num_folds": F, "shape": s}, cls=f"{TN}:TorchTensorParameter")
    target.__dict__["__vf_call__"] = tgt_call
    fold_idx = vc.seq("fold_idx", kind="list", min_len=1)
    vc.assume(vc.forall(vc.len(fold_idx), lambda k: z3.And(vc.at(fold_idx, k) >= 0, vc.at(fold_idx, k) < F)))
    ptr = vc.new(f"{TN}:TorchPointerParameter", target, fold_idx=fold_idx)
    y = vc.call((ptr, "forward"))
    vc.ensure("reads_target_at_call_time", len(calls) == 1)
    vc.ensure("deref", vc.call((ptr, "deref")) is target)
    idx_none = vc.attr(ptr, "_fold_idx") is None
    nf = vc.attr(ptr, "num_folds")
    if idx_none:
        # normalisation: only the identity selection may drop the index list
        vc.ensure("identity_only", z3.And(to_z3(vc.len(fold_idx)) == F, vc.forall(F, lambda k: vc.at(fold_idx, k) == k)))
        shape_eq(vc, y, [F, *s])
        idx = vc.index_consts([F, *s])
        vc.ensure("same_tensor", y.elem(idx) == target_value.elem(idx))
    else:
        vc.ensure("num_folds", nf == vc.len(fold_idx))
        shape_eq(vc, y, [vc.len(fold_idx), *s])
        idx = vc.index_consts([vc.len(fold_idx), *s])
        vc.ensure("selected_slices", y.elem(idx) == target_value.elem([vc.at(fold_idx, idx[0])] + idx[1:]))
