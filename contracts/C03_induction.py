"""Loop-rule (inductive) obligations for the layer loops of cirkit/symbolic/functional.py: integrate (C03), evidence (C06),
conjugate (C07) - for circuits of ARBITRARY DAG shape.

The loop `for sl in sc.topological_ordering(): ...` is verified by the Hoare rule, on the real statements of the function:
  (prefix)  the statements before the loop, from arbitrary arguments, either refuse (class by class, C09) or reach the loop with
            empty maps - the invariant holds trivially;
  (step)    from an ARBITRARY state of the maps (`layers_to_block`, `in_blocks`: symbolic maps keyed by object identity) in which
            the inputs of `sl` have been visited (that is what a topological order gives), ONE iteration with `sl` of any layer
            class adds exactly one block for `sl`, wires it to the blocks of sl's inputs IN ORDER, appends it to `blocks`, and touches
            nothing else: so `Inv = every visited layer has its block, wired to the blocks of its inputs in order, of the kind the
            property demands (integral constant / evidence layer / conjugated / reference copy)` is preserved;
  (suffix)  after the loop the result is assembled from the blocks of the declared outputs IN ORDER, with all blocks and wires.
The arity of `sl` is enumerated (0 for inputs, 1..3 for sums, 2..3 for products) - the comprehension over the inputs is uniform in
it; everything else (which layers exist, how many, how they are connected, variable ids, sizes, Z) is arbitrary.
`Circuit.from_operation` (block graph -> layer graph) is executed for real only on the templates of C03_functional.
"""
import z3

from engine.vc import obligation
from engine.values import to_z3, Obj, Opaque, EMPTY, BoundBuiltin, Builtin
from engine.stubs import LoopMap, RefVal, ref_term
from contracts.lib import *
from contracts.functional_lib import make_registry, input_layer
from contracts import specs as S
from contracts.C10_sharing import copy_clauses
from contracts.C03_functional import _integral_clauses, copy_clauses_labelled

INNER = {"sum1": ("SumLayer", 1), "sum2": ("SumLayer", 2), "sum3": ("SumLayer", 3), "hadamard2": ("HadamardLayer", 2), "hadamard3": ("HadamardLayer", 3),
         "kronecker2": ("KroneckerLayer", 2)}


def _layer(vc, which):
    """the layer `sl` of the iteration and the variable id of an input layer (None for inner layers)"""
    K, C = vc.int("K", lo=1), vc.int("C", lo=2)
    if which in INNER:
        cls, ar = INNER[which]
        if cls == "SumLayer":
            return vc.new(f"{SL}:SumLayer", K, vc.int("Ko", lo=1), arity=ar), None, ar
        return vc.new(f"{SL}:{cls}", K, arity=ar), None, ar
    v, scope = scope1(vc)
    return input_layer(vc, which, scope, K, C), v, 0


def _state(vc, sl, arity, sc_scope=None):
    ins = [vc.opaque(f"in{j}", cls=f"{SL}:Layer") for j in range(arity)]
    sc = Opaque("sc")
    sc.attrs["layer_inputs"] = lambda o: Builtin("layer_inputs", lambda l: list(ins) if l is sl else [])
    l2b, inb = LoopMap("layers_to_block"), LoopMap("in_blocks")
    for i in ins:                         # topological order: the inputs of sl were visited in earlier iterations
        vc.assume(z3.Select(l2b.base.dom, i.const))
    return sc, ins, l2b, inb


def _single_block(vc, blk, label):
    ok = isinstance(blk, Obj) and blk.cls.name == "CircuitBlock" and len(blk.fields["_nodes"]) == 1
    vc.ensure(label + ".single_layer_block", ok)
    return blk.fields["_nodes"][0] if ok else None


def _wired(vc, inb, blk, l2b, ins, label):
    ok = len(inb.written) == 1 and inb.written[0][0] is blk and len(inb.written[0][1]) == len(ins)
    vc.ensure(label + ".exactly_one_wire_entry_for_the_new_block", ok)
    if ok:
        for j, (got, i) in enumerate(zip(inb.written[0][1], ins)):
            vc.ensure(f"{label}.input{j}_is_the_block_of_input{j}", isinstance(got, RefVal) and ref_term(got) == z3.Select(l2b.base.val, i.const))


# ------------------------------------------------------------------------------------------------ integrate
for _which in ("categorical", "categorical_logits", "embedding", "gaussian", "gaussian_lp") + tuple(INNER):
    def _h(vc, _which=_which):
        sl, v, arity = _layer(vc, _which)
        sc, ins, l2b, inb = _state(vc, sl, arity)
        Z = vc.set("Z")
        loc = {"sc": sc, "scope": vc.new(f"{SC}:Scope", Z), "registry": make_registry(vc), "layers_to_block": l2b, "blocks": [], "in_blocks": inb}
        vc.run_loop_body(f"{SF}:integrate", loc, sl)
        vc.ensure("exactly_one_block_recorded_for_this_layer", len(l2b.written) == 1 and l2b.written[0][0] is sl)
        if len(l2b.written) != 1:
            return
        blk = l2b.written[0][1]
        vc.ensure("that_block_appended_to_blocks", len(loc["blocks"]) == 1 and loc["blocks"][0] is blk)
        vc.ensure("loop_state_names_not_rebound", loc["layers_to_block"] is l2b and loc["in_blocks"] is inb and loc["sc"] is sc)
        r = _single_block(vc, blk, "block")
        if r is None:
            return
        if v is not None:
            inz, notinz = vc.must(z3.Select(Z.arr, v)), vc.must(z3.Not(z3.Select(Z.arr, v)))
            vc.ensure("membership_decided_on_path", inz or notinz)
            if inz:
                _integral_clauses(vc, sl, r, _which, "integrated")
                vc.ensure("integrated_input_has_no_wires", len(inb.written) == 0)
                return
        copy_clauses_labelled(vc, sl, r, "copied")
        _wired(vc, inb, blk, l2b, ins, "wires")
    obligation(f"C03.integrate.step.{_which}", "C03", [f"{SF}:integrate"])(_h)


@obligation("C03.integrate.prefix", "C03", [f"{SF}:integrate"])
def _(vc):
    smooth, dec = vc.bool("is_smooth"), vc.bool("is_decomposable")
    S_, Z = vc.set("circuit_scope"), vc.set("Z")
    vc.cardinality_abstraction_is_exact("the prefix only tests arbitrary sets for emptiness, which the axiom card = 0 <=> empty decides exactly")
    sc = Opaque("sc", {"is_smooth": smooth, "is_decomposable": dec, "scope": vc.new(f"{SC}:Scope", S_)})
    given = vc.path.branch(vc.bool("scope_given"))
    loc = {"sc": sc, "scope": vc.new(f"{SC}:Scope", Z) if given else None, "registry": make_registry(vc)}
    exc, out = vc.raises(lambda: vc.run_prefix(f"{SF}:integrate", loc))
    eff = Z.arr if given else S_.arr
    bad_struct = z3.Or(z3.Not(smooth), z3.Not(dec))
    bad_scope = z3.Or(eff == EMPTY, z3.Not(z3.IsSubset(eff, S_.arr)))
    if exc is not None:
        vc.ensure("refusal_class", z3.Or(z3.And(exc == "StructuralPropertyError", bad_struct), z3.And(exc == "ValueError", z3.Not(bad_struct), bad_scope)))
        return
    vc.ensure("loop_reached_only_for_valid_arguments", z3.And(z3.Not(bad_struct), z3.Not(bad_scope)))
    vc.ensure("maps_start_empty", loc.get("layers_to_block") == {} and loc.get("blocks") == [] and loc.get("in_blocks") == {})
    vc.ensure("scope_defaults_to_the_circuits_scope", scope_arr(loc["scope"]) == eff)


for _m in (1, 2, 3):
    def _h(vc, _m=_m):
        outs = [vc.opaque(f"out{j}", cls=f"{SL}:Layer") for j in range(_m)]
        sc = Opaque("sc", {"outputs": list(outs)})
        l2b, inb = LoopMap("layers_to_block"), LoopMap("in_blocks")
        for o in outs:
            vc.assume(z3.Select(l2b.base.dom, o.const))
        blocks = [vc.opaque("some_block")]
        Z = vc.set("Z")
        scope = vc.new(f"{SC}:Scope", Z)
        seen = {}
        vc.I.summaries[f"{SCI}:Circuit.from_operation"] = lambda I, a, k: seen.update(a=a, k=k) or vc.opaque("result")
        loc = {"sc": sc, "scope": scope, "layers_to_block": l2b, "blocks": blocks, "in_blocks": inb}
        kind, res = vc.run_suffix(f"{SF}:integrate", loc)
        a, k = seen.get("a", []), seen.get("k", {})
        vc.ensure("returns_the_assembled_circuit", kind == "return" and res is not None)
        vc.ensure("all_blocks_and_wires_passed_on", len(a) >= 4 and a[1] is blocks and a[2] is inb)
        ob = list(a[3]) if len(a) >= 4 else []
        vc.ensure("outputs_are_the_blocks_of_the_declared_outputs_in_order", len(ob) == _m and all(
            isinstance(b, RefVal) and vc.must(ref_term(b) == z3.Select(l2b.base.val, o.const)) for b, o in zip(ob, outs)))
        op = k.get("operation")
        vc.ensure("operation_recorded", isinstance(op, Obj) and getattr(op.fields.get("operator"), "name", None) == "INTEGRATION" and
                  list(op.fields.get("operands")) == [sc] and op.fields.get("metadata", {}).get("scope") is scope)
    obligation(f"C03.integrate.suffix.outputs{_m}", "C03", [f"{SF}:integrate"])(_h)


# ------------------------------------------------------------------------------------------------ conjugate
for _which in ("embedding", "categorical", "gaussian_lp", "polynomial") + tuple(INNER):
    def _h(vc, _which=_which):
        from contracts.C07_rules import _frame
        sl, v, arity = _layer(vc, _which)
        sc, ins, l2b, inb = _state(vc, sl, arity)
        loc = {"sc": sc, "registry": make_registry(vc), "layers_to_block": l2b, "blocks": [], "in_blocks": inb}
        vc.run_loop_body(f"{SF}:conjugate", loc, sl)
        vc.ensure("exactly_one_block_recorded_for_this_layer", len(l2b.written) == 1 and l2b.written[0][0] is sl)
        if len(l2b.written) != 1:
            return
        blk = l2b.written[0][1]
        vc.ensure("that_block_appended_to_blocks", len(loc["blocks"]) == 1 and loc["blocks"][0] is blk)
        r = _single_block(vc, blk, "block")
        if r is None:
            return
        if S.cls_is(vc, sl, "ProductLayer"):
            vc.ensure("product_same_class_and_size", r.cls is sl.cls and vc.must(z3.And(
                to_z3(vc.attr(r, "num_input_units")) == to_z3(vc.attr(sl, "num_input_units")), to_z3(vc.attr(r, "arity")) == to_z3(vc.attr(sl, "arity")))))
        else:
            conj = {"embedding": {"weight"}, "polynomial": {"coeff"}}.get(_which, set()) if v is not None else {"weight"}
            _frame(vc, r, sl, sl.cls.name, conj)
        _wired(vc, inb, blk, l2b, ins, "wires")
    obligation(f"C07.conjugate.step.{_which}", "C07", [f"{SF}:conjugate"])(_h)


# ------------------------------------------------------------------------------------------------ evidence
for _which in ("categorical", "gaussian", "binomial") + tuple(INNER):
    def _h(vc, _which=_which):
        from engine.builtins_ import SymKeyDict
        sl, v, arity = _layer(vc, _which)
        sc, ins, l2b, inb = _state(vc, sl, arity)
        w = vc.int("other_observed_variable", lo=0)
        x_v, x_w = vc.real("x_v"), vc.real("x_w")
        observed = vc.path.branch(vc.bool("own_variable_observed")) if v is not None else False
        items = [(w, x_w)] + ([(v, x_v)] if observed else [])
        if v is not None:
            vc.assume(w != v)
        obs = SymKeyDict(items)
        scope = vc.new(f"{SC}:Scope", [k for k, _ in items])
        loc = {"sc": sc, "obs": obs, "scope": scope, "layers_to_block": l2b, "blocks": [], "in_blocks": inb}
        vc.run_loop_body(f"{SF}:evidence", loc, sl)
        vc.ensure("exactly_one_block_recorded_for_this_layer", len(l2b.written) == 1 and l2b.written[0][0] is sl)
        if len(l2b.written) != 1:
            return
        blk = l2b.written[0][1]
        vc.ensure("that_block_appended_to_blocks", len(loc["blocks"]) == 1 and loc["blocks"][0] is blk)
        r = _single_block(vc, blk, "block")
        if r is None:
            return
        if observed:
            ok = r.cls.name == "EvidenceLayer"
            vc.ensure("observed_input_becomes_an_evidence_layer", ok)
            if ok:
                copy_clauses_labelled(vc, sl, vc.attr(r, "layer"), "wrapped")
                o = S.den_param(vc, vc.attr(r, "observation"), {})
                S.shape_eq(vc, o, [1], "observation_shape")
                vc.ensure("observes_the_value_given_for_its_own_variable", o.elem([0]) == x_v)
                vc.ensure("evidence_layer_has_no_wires", len(inb.written) == 0)
            return
        copy_clauses_labelled(vc, sl, r, "copied")
        _wired(vc, inb, blk, l2b, ins, "wires")
    obligation(f"C06.evidence.step.{_which}", "C06", [f"{SF}:evidence"])(_h)


# ------------------------------------------------------------------------------------------------ concatenate (C06), nested loops
for _which in ("categorical", "embedding", "gaussian") + tuple(INNER):
    def _h(vc, _which=_which):
        """inner loop of concatenate, ONE layer of one operand, from an arbitrary state of the maps: a block holding a reference copy of exactly this
        layer, wired to the blocks of its inputs in order, appended and recorded; nothing else"""
        sl, v, arity = _layer(vc, _which)
        sc, ins, l2b, inb = _state(vc, sl, arity)
        loc = {"sc": sc, "layers_to_block": l2b, "blocks": [], "in_blocks": inb, "output_blocks": []}
        vc.run_loop_body(f"{SF}:concatenate", loc, sl, loop=(0, 0))
        vc.ensure("exactly_one_block_recorded_for_this_layer", len(l2b.written) == 1 and l2b.written[0][0] is sl)
        if len(l2b.written) != 1:
            return
        blk = l2b.written[0][1]
        vc.ensure("that_block_appended_to_blocks", len(loc["blocks"]) == 1 and loc["blocks"][0] is blk)
        vc.ensure("outputs_untouched_inside_the_layer_loop", loc["output_blocks"] == [])
        r = _single_block(vc, blk, "block")
        if r is None:
            return
        copy_clauses_labelled(vc, sl, r, "copied")
        _wired(vc, inb, blk, l2b, ins, "wires")
    obligation(f"C06.concatenate.step.{_which}", "C06", [f"{SF}:concatenate"])(_h)


for _m in (1, 2, 3):
    def _h(vc, _m=_m):
        """after the layers of one operand: its outputs' blocks are appended to the output list in declared order, after those of earlier operands"""
        outs = [vc.opaque(f"out{j}", cls=f"{SL}:Layer") for j in range(_m)]
        sc = Opaque("sc", {"outputs": list(outs)})
        l2b = LoopMap("layers_to_block")
        for o in outs:
            vc.assume(z3.Select(l2b.base.dom, o.const))
        earlier = vc.opaque("output_block_of_an_earlier_operand")
        ob = [earlier]
        loc = {"sc": sc, "layers_to_block": l2b, "blocks": [], "in_blocks": LoopMap("in_blocks"), "output_blocks": ob}
        vc.run_suffix(f"{SF}:concatenate", loc, loop=(0, 0))
        got = loc["output_blocks"]
        vc.ensure("same_output_list_extended", got is ob and len(got) == 1 + _m and got[0] is earlier)
        vc.ensure("blocks_of_this_operands_outputs_in_declared_order", len(got) == 1 + _m and all(
            isinstance(b, RefVal) and vc.must(ref_term(b) == z3.Select(l2b.base.val, o.const)) for b, o in zip(got[1:], outs)))
        vc.ensure("maps_untouched", l2b.written == [])
    obligation(f"C06.concatenate.operand_outputs{_m}", "C06", [f"{SF}:concatenate"])(_h)


@obligation("C06.concatenate.suffix", "C06", [f"{SF}:concatenate"])
def _(vc):
    scs = [vc.opaque("c0"), vc.opaque("c1")]
    blocks, inb, ob = [vc.opaque("b0")], LoopMap("in_blocks"), [vc.opaque("o0"), vc.opaque("o1")]
    seen = {}
    vc.I.summaries[f"{SCI}:Circuit.from_operation"] = lambda I, a, k: seen.update(a=a, k=k) or vc.opaque("result")
    loc = {"scs": scs, "layers_to_block": LoopMap("layers_to_block"), "blocks": blocks, "in_blocks": inb, "output_blocks": ob}
    kind, res = vc.run_suffix(f"{SF}:concatenate", loc)
    a, k = seen.get("a", []), seen.get("k", {})
    vc.ensure("returns_the_assembled_circuit", kind == "return" and res is not None)
    vc.ensure("all_blocks_wires_and_outputs_passed_on", len(a) >= 4 and a[1] is blocks and a[2] is inb and a[3] is ob)
    op = k.get("operation")
    vc.ensure("operation_recorded_with_the_operands_in_order", isinstance(op, Obj) and getattr(op.fields.get("operator"), "name", None) == "CONCATENATE" and
              list(op.fields.get("operands")) == scs)
