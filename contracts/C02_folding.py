"""C02 (F1/F3, parameter nodes): folding groups modules by (class, fold_settings) and builds the folded module from the
configuration of the FIRST member of the group (compiler._fold_parameter_nodes_group: `cls(**group[0].config,
num_folds=len(group))`, tensors: shape / requires_grad / dtype of group[0]).  That is only correct if

    (2-safety)  two nodes of one class with equal fold_settings have equal configurations
                (every hyper-parameter that is not folded slice-wise: shapes, axis, index list, order, bounds, dtype, ...)
    (rebuild)   cls(**node.config, num_folds=F) is a node with the same configuration and shape and F folds

for every class, all shapes of any rank, all axes, all index lists.  A fold_settings that forgets a hyper-parameter
(e.g. keeps only the length of an index list, or drops the dtype of a tensor) is refuted with two distinguishable nodes.
"""
import z3

from engine.vc import obligation
from engine.values import to_z3, Obj, ClassVal
from engine.stubs import SymToken
from contracts.C14_shapes import RULES, SP, RP

TN = "cirkit/backend/torch/parameters/nodes.py"
CO = "cirkit/backend/torch/compiler.py"


def _compile(vc, cls, mk):
    p, _ = mk(vc, cls)
    table = vc.I.wrap_resolved(vc.repo.resolve_name(vc.repo.module_by_path(RP), "DEFAULT_PARAMETER_COMPILATION_RULES"))
    rule = table[ClassVal(vc.repo.lookup(f"{SP}:{cls}"))]
    return vc.I.call(rule, [vc.opaque("compiler"), p], {})


def _cfg_equal(vc, a, b, label):
    ca, cb = vc.attr(a, "config"), vc.attr(b, "config")
    vc.ensure(label + ".same_keys", list(ca.keys()) == list(cb.keys()))
    for k in ca:
        if k in cb and k != "initializer_":
            va, vb = ca[k], cb[k]
            vc.ensure(f"{label}.{k}", (va is None and vb is None) if (va is None or vb is None) else vc.eq(va, vb))


for _cls, _mk in RULES.items():
    def _h(vc, _cls=_cls, _mk=_mk):
        a, b = _compile(vc, _cls, _mk), _compile(vc, _cls, _mk)
        ok = isinstance(a, Obj) and isinstance(b, Obj) and a.cls is b.cls
        vc.ensure("same_class", ok)
        if not ok:
            return
        vc.assume(vc.eq(vc.attr(a, "fold_settings"), vc.attr(b, "fold_settings")))
        _cfg_equal(vc, a, b, "equal_fold_settings_imply_equal_config")
        vc.ensure("equal_fold_settings_imply_equal_shape", vc.eq(vc.attr(a, "shape"), vc.attr(b, "shape")))
    obligation(f"C02.fold_settings.Torch{_cls}", "C02", [f"{TN}:TorchIndexParameter.fold_settings"] if _cls == "IndexParameter"
               else [f"{TN}:TorchParameterNode.fold_settings"])(_h)

    def _h(vc, _cls=_cls, _mk=_mk):
        a = _compile(vc, _cls, _mk)
        F = vc.int("F", lo=1)
        b = vc.I.call(ClassVal(a.cls), [], dict(vc.attr(a, "config"), num_folds=F))
        vc.ensure("same_class", isinstance(b, Obj) and b.cls is a.cls)
        vc.ensure("num_folds", vc.attr(b, "num_folds") == F)
        _cfg_equal(vc, a, b, "rebuilt_from_config")
        vc.ensure("rebuilt_same_shape", vc.eq(vc.attr(a, "shape"), vc.attr(b, "shape")))
    obligation(f"C02.rebuild_from_config.Torch{_cls}", "C02", [f"{TN}:Torch{_cls}.__init__" if _cls in ("IndexParameter",) else f"{TN}:TorchParameterOp.__init__"])(_h)


for _rank in (1, 2, 3):
    def _h(vc, _rank=_rank):
        """tensors folded into one storage agree on shape, requires_grad and dtype"""
        def mk(tag):
            shp = vc.shape("shape" + tag, _rank)
            return vc.new(f"{TN}:TorchTensorParameter", *shp, requires_grad=vc.bool("rg" + tag),
                          dtype=SymToken("dtype", vc.int("dtype" + tag)), initializer_=vc.opaque("init" + tag))
        a, b = mk("A"), mk("B")
        vc.assume(vc.eq(vc.attr(a, "fold_settings"), vc.attr(b, "fold_settings")))
        vc.ensure("same_shape", vc.eq(vc.attr(a, "shape"), vc.attr(b, "shape")))
        vc.ensure("same_requires_grad", vc.eq(vc.attr(a, "requires_grad"), vc.attr(b, "requires_grad")))
        vc.ensure("same_dtype", vc.eq(vc.attr(a, "dtype"), vc.attr(b, "dtype")))
    obligation(f"C02.fold_settings.TorchTensorParameter.rank{_rank}", "C02", [f"{TN}:TorchTensorParameter.fold_settings"])(_h)


# ------------------------------------------------------------------------------------------------
# O2: the optimisation rule that rewrites ReduceSum(dim=r) o OuterProduct(dim=o) into an einsum (+ flatten) emits nodes
# whose composition computes exactly that function, for every rank <= 4 (the rule's own limit), every (o, r), all sizes
# ------------------------------------------------------------------------------------------------
from engine.tensor import MR

OP = "cirkit/backend/torch/optimization/parameters.py"
PO = "cirkit/backend/torch/parameters/optimized.py"

for _n in (1, 2, 3, 4):
    for _o in range(_n):
        for _r in range(_n):
            def _h(vc, _n=_n, _o=_o, _r=_r):
                F = vc.int("F", lo=1)
                s1 = vc.shape("in_shape1", _n)
                K2 = vc.int("K2", lo=1)
                s2 = tuple(K2 if j == _o else s1[j] for j in range(_n))
                nodes = vc.call(f"{OP}:_emit_outer_reduce_flatten_parameter", s1, s2, _o, _r)
                nodes = list(vc.I.B.iterate(vc.I, nodes))
                vc.ensure("one_or_two_nodes", len(nodes) in (1, 2))
                F_nodes = [vc.I.call(ClassVal(nd.cls), [], dict(vc.attr(nd, "config"), num_folds=F)) for nd in nodes]
                x1, x2 = vc.tensor("x1", (F, *s1)), vc.tensor("x2", (F, *s2))
                y = vc.call((F_nodes[0], "forward"), x1, x2)
                for nd in F_nodes[1:]:
                    y = vc.call((nd, "forward"), y)
                # spec: z[f, .., i1*K2+i2 (at o), ..] = x1[f, .., i1, ..] * x2[f, .., i2, ..], then sum over dim r
                outer_shape = [s1[j] * K2 if j == _o else s1[j] for j in range(_n)]
                expect = [F] + [outer_shape[j] for j in range(_n) if j != _r]
                ok = len(y.shape) == len(expect)
                vc.ensure("rank", ok)
                if not ok:
                    return
                for j, (a, b) in enumerate(zip(y.shape, expect)):
                    vc.ensure(f"shape.dim{j}", to_z3(a) == to_z3(b))
                vc.ensure("declared_shape", vc.eq(vc.attr(nodes[-1], "shape"), tuple(expect[1:])))
                f = vc.index_consts([F])[0]
                base = vc.index_consts(list(s1), "a")      # index into x1 (position o: i1)
                i2 = vc.index_consts([K2], "b")[0]
                if _r == _o:
                    out = [f] + [base[j] for j in range(_n) if j != _r]
                    spec = vc.red("sum", [s1[_o], K2], lambda p, q: x1.elem([f] + [p if j == _o else base[j] for j in range(_n)]) *
                                  x2.elem([f] + [q if j == _o else base[j] for j in range(_n)]))
                else:
                    pos = [MR([(base[j], s1[j]), (i2, K2)]) if j == _o else base[j] for j in range(_n)]
                    out = [f] + [pos[j] for j in range(_n) if j != _r]
                    spec = vc.red("sum", [s1[_r]], lambda t: x1.elem([f] + [t if j == _r else base[j] for j in range(_n)]) *
                                  x2.elem([f] + [t if j == _r else (i2 if j == _o else base[j]) for j in range(_n)]))
                vc.ensure("computes_reduce_sum_of_outer_product", y.elem(out) == spec)
            obligation(f"C02.opt.outer_reduce_flatten.rank{_n}.o{_o}.r{_r}", "C02",
                       [f"{OP}:_emit_outer_reduce_flatten_parameter", f"{PO}:TorchEinsumParameter.forward", f"{PO}:TorchEinsumParameter.__init__"])(_h)


# C06 relies on the same fact: evidence layers are folded together with their observation tensors, whose dtype follows the
# Python type of the observed value (int -> integer tensor, float -> real tensor); tensors of different dtype must not share
# a fold.  The obligation is registered for C06 as well.
for _rank in (1, 2):
    def _h(vc, _rank=_rank):
        def mk(tag):
            shp = vc.shape("shape" + tag, _rank)
            return vc.new(f"{TN}:TorchTensorParameter", *shp, requires_grad=vc.bool("rg" + tag),
                          dtype=SymToken("dtype", vc.int("dtype" + tag)), initializer_=vc.opaque("init" + tag))
        a, b = mk("A"), mk("B")
        vc.assume(vc.eq(vc.attr(a, "fold_settings"), vc.attr(b, "fold_settings")))
        vc.ensure("same_shape", vc.eq(vc.attr(a, "shape"), vc.attr(b, "shape")))
        vc.ensure("same_dtype", vc.eq(vc.attr(a, "dtype"), vc.attr(b, "dtype")))
    obligation(f"C06.fold_settings.TorchTensorParameter.rank{_rank}", "C06", [f"{TN}:TorchTensorParameter.fold_settings"])(_h)
