"""Shared machinery for the contracts on cirkit/symbolic/functional.py (whole-function obligations on circuit templates).

A *template* fixes the shape of the circuit DAG (which layer feeds which); everything else is symbolic: variable ids,
scopes, unit counts, state counts, arities of the parameters, the set Z / the observation.  The real operator is then
executed on the real objects (built through the real constructors) and the result circuit is compared, layer by layer,
with the homomorphic image the property demands.  The operator registry is replaced by a table built from
DEFAULT_OPERATOR_RULES and the annotated layer classes of each rule (assumption: that is what
OperatorRegistry.from_default_rules produces through annotation reflection; the bounded stand-ins run the real registry).
"""
import z3

from engine.values import Opaque, ClassVal, Builtin, Obj, to_z3, EMPTY
from engine.builtins_ import SymKeyDict
from contracts.lib import *
from contracts import specs as S

REG = "cirkit/symbolic/registry.py"


def make_registry(vc):
    table = vc.I.wrap_resolved(vc.repo.resolve_name(vc.repo.module_by_path(SO), "DEFAULT_OPERATOR_RULES"))
    rules = {}
    for op, funcs in table.items():
        for f in funcs:
            sig = []
            for a in f.info.node.args.args:
                ann = a.annotation
                if ann is not None and hasattr(ann, "id") and ann.id.endswith("Layer"):
                    sig.append(ClassVal(vc.repo.lookup(f"{SL}:{ann.id}")))
            rules[(op, tuple(sig))] = f
    reg = Opaque("registry")

    def retrieve_rule(op, *signature):
        key = (op, tuple(signature))
        if key not in rules:
            vc.I.raise_("OperatorSignatureNotFound", "retrieve_rule")
        return rules[key]
    reg.attrs["retrieve_rule"] = lambda o: Builtin("retrieve_rule", retrieve_rule)
    return reg


# ------------------------------------------------------------------------------------------------ templates
INPUT_KINDS = ("categorical", "categorical_logits", "embedding", "gaussian", "gaussian_lp")


def input_layer(vc, kind, scope, K, C):
    if kind == "categorical":
        return vc.new(f"{SL}:CategoricalLayer", scope, K, num_categories=C, probs=tensor_param(vc, (K, C), "unary", "SoftmaxParameter"))
    if kind == "categorical_logits":
        return vc.new(f"{SL}:CategoricalLayer", scope, K, num_categories=C, logits=tensor_param(vc, (K, C), "tensor"))
    if kind == "embedding":
        return vc.new(f"{SL}:EmbeddingLayer", scope, K, num_states=C, weight=tensor_param(vc, (K, C), "tensor"))
    if kind == "gaussian":
        return vc.new(f"{SL}:GaussianLayer", scope, K, mean=tensor_param(vc, (K,), "tensor"), stddev=tensor_param(vc, (K,), "unary", "SoftplusParameter"))
    if kind == "gaussian_lp":
        return vc.new(f"{SL}:GaussianLayer", scope, K, mean=tensor_param(vc, (K,), "tensor"), stddev=tensor_param(vc, (K,), "unary", "SoftplusParameter"),
                      log_partition=tensor_param(vc, (K,), "reference"))
    if kind == "polynomial":
        return vc.new(f"{SL}:PolynomialLayer", scope, K, degree=C, coeff=tensor_param(vc, (K, C + 1), "tensor"))
    if kind == "binomial":
        return vc.new(f"{SL}:BinomialLayer", scope, K, total_count=C, probs=tensor_param(vc, (K,), "unary", "SigmoidParameter"))
    raise ValueError(kind)


class Template:
    """layers in construction order, in_layers (dict layer -> [layers]), outputs, variable ids"""

    def __init__(self, vc, layers, in_layers, outputs, vars_):
        self.layers, self.in_layers, self.outputs, self.vars = layers, in_layers, outputs, vars_
        self.circuit = vc.new(f"{SCI}:Circuit", list(layers), {k: list(v) for k, v in in_layers.items()}, list(outputs))

    def topo(self, vc):
        return list(vc.I.B.iterate(vc.I, vc.call((self.circuit, "topological_ordering"))))


def distinct(vc, vs):
    for i in range(len(vs)):
        for j in range(i + 1, len(vs)):
            vc.assume(vs[i] != vs[j])


def template(vc, name, kind="categorical"):
    K, C = vc.int("K", lo=1), vc.int("C", lo=2)
    mk = lambda sc_: input_layer(vc, kind, sc_, K, C)
    if name == "single":                               # one input layer that is also the output
        v, s = scope1(vc, "v0")
        a = mk(s)
        return Template(vc, [a], {}, [a], [v])
    if name == "prod_sum":                             # in(v0), in(v1) -> hadamard -> sum
        Ko = vc.int("Ko", lo=1)
        (v0, s0), (v1, s1) = scope1(vc, "v0"), scope1(vc, "v1")
        distinct(vc, [v0, v1])
        a, b = mk(s0), mk(s1)
        h = vc.new(f"{SL}:HadamardLayer", K, arity=2)
        s = vc.new(f"{SL}:SumLayer", K, Ko, arity=1, weight=tensor_param(vc, (Ko, K), "unary", "SoftmaxParameter"))
        return Template(vc, [a, b, h, s], {h: [a, b], s: [h]}, [s], [v0, v1])
    if name == "mixture":                              # in(v0), in'(v0) -> sum of arity 2 ; two outputs (the sum and an input)
        Ko = vc.int("Ko", lo=1)
        v0, s0 = scope1(vc, "v0")
        s0b = vc.new(f"{SC}:Scope", [v0])
        a, b = mk(s0), mk(s0b)
        s = vc.new(f"{SL}:SumLayer", K, Ko, arity=2, weight=tensor_param(vc, (Ko, 2 * K), "tensor"))
        return Template(vc, [a, b, s], {s: [a, b]}, [s, a], [v0])
    if name == "kron3":                                # in(v0), in(v1), in(v2): kronecker(in0,in1) ; hadamard3? -> sum ; shared input
        Ko = vc.int("Ko", lo=1)
        (v0, s0), (v1, s1), (v2, s2) = scope1(vc, "v0"), scope1(vc, "v1"), scope1(vc, "v2")
        distinct(vc, [v0, v1, v2])
        a, b, c = mk(s0), mk(s1), mk(s2)
        h = vc.new(f"{SL}:HadamardLayer", K, arity=3)
        s = vc.new(f"{SL}:SumLayer", K, Ko, arity=1, weight=tensor_param(vc, (Ko, K), "tensor"))
        return Template(vc, [a, b, c, h, s], {h: [c, a, b], s: [h]}, [s, h], [v0, v1, v2])
    raise ValueError(name)


TEMPLATES = ("single", "prod_sum", "mixture", "kron3")


def sym_subset(vc, vs, name="Z", nonempty=True):
    """a symbolic set Z with Z <= {vs}; non-empty unless stated"""
    # built as the union of {v_i} guarded by a free membership flag m_i: every subset of {vs} is obtained, and the term is
    # enumerable, so its cardinality is computed exactly (no uninterpreted abstraction on these paths)
    from engine.values import SymSet
    arr = EMPTY
    flags = []
    for i, v in enumerate(vs):
        m = vc.bool(f"{name}_has_{i}")
        flags.append(m)
        arr = z3.SetUnion(arr, z3.If(m, z3.Store(EMPTY, to_z3(v), True), EMPTY))
    if nonempty:
        vc.assume(z3.Or(*flags))
    Z = SymSet(arr)
    vc.inputs[name] = Z
    return Z


# ------------------------------------------------------------------------------------------------ result comparison
def mirror_clauses(vc, tpl, out, label="mirror"):
    """the result circuit has one layer per layer of the operand, in the operand's topological order, wired the same way
    (same input order), with the outputs in the declared order; returns the list of (operand layer, result layer)"""
    topo = tpl.topo(vc)
    res = out.fields["_nodes"]
    ok = isinstance(out, Obj) and len(res) == len(topo)
    vc.ensure(label + ".one_layer_per_layer", ok)
    if not ok:
        return None
    image = {l: r for l, r in zip(topo, res)}
    wired = True
    for l in topo:
        want = [image[i] for i in tpl.in_layers.get(l, [])]
        got = list(out.fields["_in_nodes"].get(image[l], []))
        wired = wired and len(got) == len(want) and all(g is w for g, w in zip(got, want))
    vc.ensure(label + ".inputs_mirrored_in_order", wired)
    outs = list(out.fields["_outputs"])
    vc.ensure(label + ".outputs_in_declared_order", len(outs) == len(tpl.outputs) and all(o is image[t] for o, t in zip(outs, tpl.outputs)))
    return [(l, image[l]) for l in topo]


def scope_of(circuit):
    return scope_arr(circuit.fields["scope"])


def no_own_tensors(vc, out, tpl, label="sharing"):
    """C10: the derived circuit's parameters hold no tensor parameter of their own other than constants, and every
    reference points to a tensor of the operand"""
    ops = []
    for l in tpl.layers:
        ops.extend(vc.attr(l, "params").values())
    res = []
    for l in out.fields["_nodes"]:
        res.extend(vc.attr(l, "params").values())
        if l.cls.name == "EvidenceLayer":
            res.extend(vc.attr(vc.attr(l, "layer"), "params").values())
    S.sharing_clauses(vc, res, ops, label)
