"""C18: the compiler's circuit registry and the pipeline / operator-registry contexts stay coherent over ANY call history.

Histories are not sampled: each public method is verified against a one-step contract from an ARBITRARY state satisfying
the representation invariant (the two dicts of a BiMap are symbolic maps Ref -> Ref of arbitrary content), so that the
invariant holds after every finite sequence of calls by induction on its length.

  Inv(BiMap):  for all a: a in lhs  ->  lhs[a] in rhs  and  rhs[lhs[a]] is a        (and symmetrically)

  add(l, r)       requires l not in lhs, r not in rhs (asserted by the code: AssertionError otherwise); ensures Inv, l <-> r,
                  every other association unchanged
  has_* / get_*   pure; get_left(l) is the object associated with l, KeyError iff absent
  compile(sc)     memoised: an already compiled circuit is returned as the same object and nothing is registered
  compile_pipeline   compiles operands before the circuits derived from them, each circuit at most once, returns the
                  compiled circuit of the requested one; circuits compiled earlier keep their compiled circuit
  context managers  __enter__ makes the context (and its operator registry) the active one; __exit__ - with or without an
                  exception - restores exactly what was active before, for every nesting of DISTINCT contexts; every
                  PipelineContext owns its own operator registry
"""
import z3

from engine.vc import obligation
from engine.values import to_z3, Obj, Opaque, ClassVal, Builtin, BoundBuiltin
from engine.stubs import SymMap, RefVal, ref_term, RefS, CtxVar
from engine.interp import RaiseEx

UA = "cirkit/utils/algorithms.py"
BC = "cirkit/backend/compiler.py"
TC = "cirkit/backend/torch/compiler.py"
PL = "cirkit/pipeline.py"
RG = "cirkit/symbolic/registry.py"
SCI = "cirkit/symbolic/circuit.py"


def inv(L, R):
    a = z3.Const("a!inv", RefS)
    b = z3.Const("b!inv", RefS)
    return z3.And(
        z3.ForAll([a], z3.Implies(z3.Select(L.dom, a), z3.And(z3.Select(R.dom, z3.Select(L.val, a)), z3.Select(R.val, z3.Select(L.val, a)) == a))),
        z3.ForAll([b], z3.Implies(z3.Select(R.dom, b), z3.And(z3.Select(L.dom, z3.Select(R.val, b)), z3.Select(L.val, z3.Select(R.val, b)) == b))))


def arbitrary_bimap(vc):
    bm = vc.new(f"{UA}:BiMap")
    L, R = SymMap("L"), SymMap("R")
    bm.fields["_lhs_map"], bm.fields["_rhs_map"] = L, R
    vc.assume(inv(L, R))
    return bm, L, R


def frame(vc, M0dom, M0val, M, touched, label):
    """every key other than `touched` keeps its association"""
    x = z3.Const("x!frame", RefS)
    vc.ensure(label, z3.ForAll([x], z3.Implies(x != touched, z3.And(z3.Select(M.dom, x) == z3.Select(M0dom, x), z3.Select(M.val, x) == z3.Select(M0val, x)))))


@obligation("C18.BiMap.add", "C18", [f"{UA}:BiMap.add", f"{UA}:BiMap.has_left", f"{UA}:BiMap.has_right"])
def _(vc):
    bm, L, R = arbitrary_bimap(vc)
    l, r = vc.opaque("l"), vc.opaque("r")
    L0d, L0v, R0d, R0v = L.dom, L.val, R.dom, R.val
    present = z3.Or(z3.Select(L0d, l.const), z3.Select(R0d, r.const))
    exc, _ = vc.raises(lambda: vc.call((bm, "add"), l, r))
    if exc is not None:
        vc.ensure("refuses_only_when_an_end_is_already_associated", z3.And(exc == "AssertionError", present))
        return
    vc.ensure("accepts_only_fresh_ends", z3.Not(present))
    L1, R1 = bm.fields["_lhs_map"], bm.fields["_rhs_map"]
    vc.ensure("invariant_preserved", inv(L1, R1))
    vc.ensure("left_maps_to_right", z3.And(z3.Select(L1.dom, l.const), z3.Select(L1.val, l.const) == r.const))
    vc.ensure("right_maps_to_left", z3.And(z3.Select(R1.dom, r.const), z3.Select(R1.val, r.const) == l.const))
    frame(vc, L0d, L0v, L1, l.const, "other_left_associations_unchanged")
    frame(vc, R0d, R0v, R1, r.const, "other_right_associations_unchanged")


@obligation("C18.BiMap.lookups", "C18", [f"{UA}:BiMap.get_left", f"{UA}:BiMap.get_right", f"{UA}:BiMap.has_left", f"{UA}:BiMap.has_right"])
def _(vc):
    bm, L, R = arbitrary_bimap(vc)
    l, r = vc.opaque("l"), vc.opaque("r")
    hl, hr = vc.call((bm, "has_left"), l), vc.call((bm, "has_right"), r)
    vc.ensure("has_left_is_membership", to_z3(hl) == z3.Select(L.dom, l.const))
    vc.ensure("has_right_is_membership", to_z3(hr) == z3.Select(R.dom, r.const))
    exc, v = vc.raises(lambda: vc.call((bm, "get_left"), l))
    if exc is None:
        vc.ensure("get_left_returns_the_associated_object", z3.And(z3.Select(L.dom, l.const), ref_term(v) == z3.Select(L.val, l.const)))
        back = vc.call((bm, "get_right"), v)
        vc.ensure("round_trip", ref_term(back) == l.const)
    else:
        vc.ensure("KeyError_iff_absent", z3.And(exc == "KeyError", z3.Not(z3.Select(L.dom, l.const))))
    vc.ensure("lookups_do_not_modify", bm.fields["_lhs_map"] is L and bm.fields["_rhs_map"] is R)


def arbitrary_compiler(vc, cls=f"{BC}:AbstractCompiler"):
    """a compiler object whose registry is in an arbitrary state satisfying Inv (fields set as AbstractCompiler.__init__ does)"""
    ci = vc.repo.lookup(cls)
    comp = Obj(ci)
    cmap = vc.new(f"{BC}:CompiledCircuitsMap")
    L, R = SymMap("L"), SymMap("R")
    bm = cmap.fields["_bimap"]
    bm.fields["_lhs_map"], bm.fields["_rhs_map"] = L, R
    vc.assume(inv(L, R))
    comp.fields["_compiled_circuits"] = cmap
    return comp, bm, L, R


@obligation("C18.compile.memoised", "C18", [f"{BC}:AbstractCompiler.compile", f"{BC}:AbstractCompiler.is_compiled", f"{BC}:AbstractCompiler.get_compiled_circuit",
                                            f"{BC}:CompiledCircuitsMap.is_compiled", f"{BC}:CompiledCircuitsMap.get_compiled_circuit"])
def _(vc):
    comp, bm, L, R = arbitrary_compiler(vc)
    sc = vc.opaque("sc")
    calls = []
    fresh = vc.opaque("fresh_cc")

    def pipeline(I, args, kwargs):
        calls.append(args)
        return fresh
    vc.I.summaries[f"{BC}:AbstractCompiler.compile_pipeline"] = pipeline
    known = z3.Select(L.dom, sc.const)
    r1 = vc.call((comp, "compile"), sc)
    if calls:
        vc.ensure("pipeline_runs_only_for_unknown_circuits", z3.Not(known))
        vc.ensure("returns_what_the_pipeline_returns", r1 is fresh)
        return
    vc.ensure("known_circuit", known)
    vc.ensure("returns_the_registered_compiled_circuit", ref_term(r1) == z3.Select(L.val, sc.const))
    r2 = vc.call((comp, "compile"), sc)
    vc.ensure("second_call_returns_the_same_object", ref_term(r2) == ref_term(r1))
    vc.ensure("nothing_registered", bm.fields["_lhs_map"] is L and bm.fields["_rhs_map"] is R and not calls)
    vc.ensure("round_trip_to_symbolic", ref_term(vc.call((comp, "get_symbolic_circuit"), r1)) == sc.const)
    vc.ensure("has_symbolic", to_z3(vc.call((comp, "has_symbolic"), r1)) == z3.BoolVal(True))


def _pipeline(vc, shape):
    """symbolic circuits related by `operation.operands` (only the fields pipeline_topological_ordering reads)"""
    def circ(name, *operands):
        c = Obj(vc.repo.lookup(f"{SCI}:Circuit"))
        c.fields["operation"] = None
        if operands:
            op = Obj(vc.repo.lookup(f"{SCI}:CircuitOperation"))
            op.fields["operands"] = tuple(operands)
            c.fields["operation"] = op
        c.name = name
        return c
    a = circ("a")
    if shape == "chain":                        # a <- b <- c
        b = circ("b", a)
        c = circ("c", b)
        return c, [a, b, c], {b: [a], c: [b]}
    if shape == "diamond":                      # a <- b, a <- c, (b, c) <- d ; a shared
        b, c = circ("b", a), circ("c", a)
        d = circ("d", b, c)
        return d, [a, b, c, d], {b: [a], c: [a], d: [b, c]}
    if shape == "square":                       # a <- b = multiply(a, a)
        b = circ("b", a, a)
        return b, [a, b], {b: [a, a]}
    if shape == "triangle":                     # a <- b = conj(a), (a, b) <- c = multiply(a, conj(a)): a is an operand of the root AND of an operand
        b = circ("b", a)
        c = circ("c", a, b)
        return c, [a, b, c], {b: [a], c: [a, b]}
    if shape == "triangle_other_order":         # the same with the operands of the root listed the other way round
        b = circ("b", a)
        c = circ("c", b, a)
        return c, [a, b, c], {b: [a], c: [b, a]}
    if shape == "deep_shortcut":                # a <- b <- c <- d and d also reads a directly
        b = circ("b", a)
        c = circ("c", b)
        d = circ("d", a, c)
        return d, [a, b, c, d], {b: [a], c: [b], d: [a, c]}
    raise ValueError(shape)


for _shape in ("chain", "diamond", "square", "triangle", "triangle_other_order", "deep_shortcut"):
    for _pre in ("none", "first", "all_but_root"):
        def _h(vc, _shape=_shape, _pre=_pre):
            """compile_pipeline: operands first, each circuit once, earlier compilations kept"""
            root, circuits, deps = _pipeline(vc, _shape)
            ci = vc.repo.lookup(f"{TC}:TorchCompiler")
            comp = Obj(ci)
            cmap = vc.new(f"{BC}:CompiledCircuitsMap")
            comp.fields["_compiled_circuits"] = cmap
            bm = cmap.fields["_bimap"]
            compiled_before = {"none": [], "first": circuits[:1], "all_but_root": circuits[:-1]}[_pre]
            old = {}
            for c in compiled_before:
                old[c] = vc.opaque("old_cc_" + c.name)
                vc.call((comp, "register_compiled_circuit"), c, old[c])
            order = []

            def compile_circuit(I, args, kwargs):
                self_, sc = args
                order.append(sc)
                # contract of _compile_circuit: operands are compiled already; registers (sc, fresh compiled circuit)
                ok = all(o in bm.fields["_lhs_map"] for o in deps.get(sc, []))
                vc.ensure(f"operands_compiled_before.{sc.name}", ok)
                cc = vc.opaque("cc_" + sc.name)
                vc.call((self_, "register_compiled_circuit"), sc, cc)
                return cc
            vc.I.summaries[f"{TC}:TorchCompiler._compile_circuit"] = compile_circuit
            res = vc.call((comp, "compile_pipeline"), root)
            lhs = bm.fields["_lhs_map"]
            vc.ensure("every_circuit_of_the_pipeline_is_compiled", all(c in lhs for c in circuits))
            vc.ensure("each_circuit_compiled_at_most_once", len(order) == len(set(id(c) for c in order)))
            vc.ensure("only_unknown_circuits_are_compiled", all(c not in compiled_before for c in order) and len(order) == len(circuits) - len(compiled_before))
            vc.ensure("earlier_compilations_kept", all(lhs[c] is old[c] for c in compiled_before))
            vc.ensure("returns_compiled_root", res is lhs[root])
            rhs = bm.fields["_rhs_map"]
            vc.ensure("bijection", len(lhs) == len(rhs) and all(rhs[v] is k for k, v in lhs.items()))
        obligation(f"C18.compile_pipeline.{_shape}.{_pre}", "C18", [f"{TC}:TorchCompiler.compile_pipeline", f"{SCI}:pipeline_topological_ordering",
                                                                    f"{UA}:BiMap.add"])(_h)


# ------------------------------------------------------------------------------------------------ contexts
def _contexts(vc, n):
    """n pipeline contexts built by the REAL PipelineContext.__init__ (compiler retrieval stubbed), the two context variables
    with a default context / registry active"""
    vc.I.summaries[f"{PL}:retrieve_compiler"] = lambda I, a, k: vc.opaque("compiler")
    default_ctx = vc.opaque("default_context")
    pvar = CtxVar("_PIPELINE_CONTEXT", default_ctx)
    vc.I.global_overrides = {(PL, "_PIPELINE_CONTEXT"): pvar}
    ctxs = [vc.new(f"{PL}:PipelineContext", "torch") for _ in range(n)]
    # the operator-registry variable is the repo's own module global, evaluated by the interpreter (default: from_default_rules())
    ovar = vc.I.wrap_resolved(vc.repo.resolve_name(vc.repo.module_by_path(RG), "OPERATOR_REGISTRY"))
    return ctxs, pvar, ovar, default_ctx


@obligation("C18.PipelineContext.owns_its_operator_registry", "C18", [f"{PL}:PipelineContext.__init__", f"{RG}:OperatorRegistry.from_default_rules", f"{RG}:OperatorRegistry.add_rule"])
def _(vc):
    ctxs, pvar, ovar, _ = _contexts(vc, 3)
    regs = [c.fields["_op_registry"] for c in ctxs] + [ovar.current()]
    vc.ensure("registries_are_distinct_objects", len({id(r) for r in regs}) == len(regs))
    ops = [sorted(getattr(k, "name", str(k)) for k in r.fields["_rules"].keys()) for r in regs]
    vc.ensure("each_registry_holds_the_default_operators", all(o == ops[0] and len(o) == 4 for o in ops))
    sizes = [[len(v) for v in r.fields["_rules"].values()] for r in regs]
    vc.ensure("each_registry_holds_all_default_rules", all(s == sizes[0] for s in sizes) and sum(sizes[0]) == 16)


def _active(pvar, ovar):
    return pvar.current(), ovar.current()


for _depth in (1, 2, 3):
    for _exc in (False, True):
        def _h(vc, _depth=_depth, _exc=_exc):
            """enter d distinct contexts, leave them in reverse order (passing exception information when _exc): after every
            step the active context / registry are those of the innermost entered context, at the end the initial ones"""
            ctxs, pvar, ovar, default_ctx = _contexts(vc, _depth)
            start = _active(pvar, ovar)
            stack = [start]
            for i, c in enumerate(ctxs):
                r = vc.call((c, "__enter__"))
                vc.ensure(f"enter{i}.returns_self", r is c)
                act = _active(pvar, ovar)
                vc.ensure(f"enter{i}.context_active", act[0] is c)
                vc.ensure(f"enter{i}.registry_active", act[1] is c.fields["_op_registry"])
                stack.append(act)
            for i, c in reversed(list(enumerate(ctxs))):
                args = (vc.opaque("exc_type"), vc.opaque("exc_value"), vc.opaque("tb")) if _exc else (None, None, None)
                ret = vc.call((c, "__exit__"), *args)
                stack.pop()
                vc.ensure(f"exit{i}.exception_not_swallowed", ret is None or ret is False)
                act = _active(pvar, ovar)
                vc.ensure(f"exit{i}.previous_context_restored", act[0] is stack[-1][0])
                vc.ensure(f"exit{i}.previous_registry_restored", act[1] is stack[-1][1])
                vc.ensure(f"exit{i}.token_dropped", c.fields["_token"] is None and c.fields["_op_registry"].fields["_token"] is None)
            vc.ensure("initial_state_restored", _active(pvar, ovar)[0] is start[0] and _active(pvar, ovar)[1] is start[1])
            vc.ensure("variables_back_to_default", pvar.value is CtxVar.MISSING and ovar.value is CtxVar.MISSING)
        obligation(f"C18.contexts.nested{_depth}.{'exception' if _exc else 'normal'}", "C18",
                   [f"{PL}:PipelineContext.__enter__", f"{PL}:PipelineContext.__exit__", f"{RG}:OperatorRegistry.__enter__", f"{RG}:OperatorRegistry.__exit__"])(_h)


@obligation("C18.contexts.sequential_reuse", "C18", [f"{PL}:PipelineContext.__enter__", f"{PL}:PipelineContext.__exit__"])
def _(vc):
    (c,), pvar, ovar, default_ctx = _contexts(vc, 1)
    start = _active(pvar, ovar)
    for i in range(3):
        vc.call((c, "__enter__"))
        vc.ensure(f"round{i}.active", _active(pvar, ovar)[0] is c)
        vc.call((c, "__exit__"), None, None, None)
        vc.ensure(f"round{i}.restored", _active(pvar, ovar)[0] is start[0] and _active(pvar, ovar)[1] is start[1])


@obligation("C18.module_level_operators_use_the_active_context", "C18", [f"{PL}:compile", f"{PL}:integrate", f"{PL}:multiply", f"{PL}:conjugate", f"{PL}:differentiate", f"{PL}:concatenate"])
def _(vc):
    """compile / integrate / ... called without a context act on the ACTIVE context and on no other"""
    (c1, c2), pvar, ovar, default_ctx = _contexts(vc, 2)
    seen = []
    for name in ("compile", "integrate", "multiply", "conjugate", "differentiate", "concatenate"):
        vc.I.summaries[f"{PL}:PipelineContext.{name}"] = (lambda name: lambda I, a, k: seen.append((name, a[0])) or vc.opaque("result"))(name)
    x = vc.opaque("x")
    vc.call((c1, "__enter__"))
    vc.call((c2, "__enter__"))
    vc.call(f"{PL}:compile", x)
    vc.call(f"{PL}:integrate", x)
    vc.call((c2, "__exit__"), None, None, None)
    vc.call(f"{PL}:multiply", x, x)
    vc.call(f"{PL}:conjugate", x)
    vc.call(f"{PL}:differentiate", x)
    vc.call(f"{PL}:concatenate", x, x)
    vc.call(f"{PL}:compile", x, c2)
    vc.call((c1, "__exit__"), None, None, None)
    want = [("compile", c2), ("integrate", c2), ("multiply", c1), ("conjugate", c1), ("differentiate", c1), ("concatenate", c1), ("compile", c2)]
    vc.ensure("each_call_lands_in_the_active_or_given_context", len(seen) == len(want) and all(s[0] == w[0] and s[1] is w[1] for s, w in zip(seen, want)))


for _op, _n in (("integrate", 1), ("multiply", 2), ("conjugate", 1), ("differentiate", 1), ("concatenate", 2)):
    def _h(vc, _op=_op, _n=_n):
        """ctx.op(cc...): refuses compiled circuits unknown to this context (ValueError); otherwise applies the symbolic
        operator to the registered symbolic circuits, with the context's own operator registry, and compiles the result"""
        comp, bm, L, R = arbitrary_compiler(vc)
        ctx = Obj(vc.repo.lookup(f"{PL}:PipelineContext"))
        reg = vc.opaque("op_registry")
        ctx.fields["_compiler"], ctx.fields["_op_registry"] = comp, reg
        ccs = [vc.opaque(f"cc{i}") for i in range(_n)]
        seen = {}
        derived, compiled = vc.opaque("derived_sc"), vc.opaque("derived_cc")

        def sf(I, a, k):
            seen["args"], seen["kw"] = a, k
            return derived
        vc.I.summaries[f"cirkit/symbolic/functional.py:{_op}"] = sf
        vc.I.summaries[f"{BC}:AbstractCompiler.compile"] = lambda I, a, k: seen.setdefault("compiled", a[1]) and compiled
        known = z3.And(*[z3.Select(R.dom, c.const) for c in ccs])
        exc, out = vc.raises(lambda: vc.call((ctx, _op), *ccs))
        if exc is not None:
            vc.ensure("refuses_unknown_compiled_circuit_with_ValueError", z3.And(exc == "ValueError", z3.Not(known)))
            vc.ensure("nothing_compiled_on_refusal", "compiled" not in seen)
            return
        vc.ensure("all_operands_known", known)
        ops = seen.get("args", [])
        if _op == "concatenate":
            ops = list(ops[0]) if ops else []
        vc.ensure("operator_applied_to_the_registered_symbolic_circuits", len(ops) >= _n and z3.And(*[ref_term(o) == z3.Select(R.val, c.const) for o, c in zip(ops, ccs)]))
        vc.ensure("operator_uses_this_context_registry", seen.get("kw", {}).get("registry") is reg)
        vc.ensure("result_is_compiled_in_this_context", seen.get("compiled") is derived and out is compiled)
    obligation(f"C18.PipelineContext.{_op}", "C18", [f"{PL}:PipelineContext.{_op}"])(_h)
