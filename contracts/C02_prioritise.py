"""C02 / C14 (optimize=True): graph.optimize.match_optimization_patterns + _prioritize_optimization_strategy + _sort_matches_priority +
_match_pattern_graph establish the PRECONDITION under which optimize_graph's splicing is proved (C02_rewrite): whatever the matcher finds,

  (disjoint)     no module belongs to two of the returned matches;
  (consistent)   module_matches maps EVERY entry of a returned match to that very match, and nothing else: its keys are exactly the entries of
                 the returned matches (a module mapped to a match that was pruned elsewhere would be spliced out without its replacement);
  (no duplicate) the list of matches holds every match once;
  (outputs)      a module that is an output of the graph is never a non-root entry of a returned match (it would be fused away and its
                 value would no longer be computed);
  (output patterns) a pattern with is_output() is rooted at outputs only.

The REAL functions run on graph templates; the matcher is a harness function that returns, for each (root, pattern), a candidate exclusive
chain or None under a FREE boolean (so every subset of the candidates is explored), and each candidate carries a parameter sub-match of
SYMBOLIC size, so every priority order between overlapping candidates is explored as well (WHICH of two overlapping candidates is preferred is
not part of the property and is not constrained).  What the matcher itself guarantees (exclusive
chains) is proved in C02_patterns; here only chains are offered.  Bounded in the shape of the graph (templates), unbounded in sizes.
"""
import z3

from engine.vc import obligation
from engine.values import Opaque, Builtin, Obj, to_z3
from engine.interp import Unsupported
from contracts.lib import *

GO = "cirkit/backend/torch/graph/optimize.py"

# name: (topological order, edges node -> inputs, outputs, candidate chains per pattern [root first], patterns searched at outputs only)
TEMPLATES = {
    "chain4": (["d", "c", "b", "a"], {"a": ["b"], "b": ["c"], "c": ["d"]}, ["a"],
               {"p2": [["a", "b"], ["b", "c"], ["c", "d"]], "p3": [["a", "b", "c"], ["b", "c", "d"]]}, ()),
    "chain4_inner_output": (["d", "c", "b", "a"], {"a": ["b"], "b": ["c"], "c": ["d"]}, ["a", "b"],
                            {"p2": [["a", "b"], ["b", "c"], ["c", "d"]], "p3": [["a", "b", "c"], ["b", "c", "d"]]}, ()),
    "chain3_three_patterns": (["c", "b", "a"], {"a": ["b"], "b": ["c"]}, ["a"],
                              {"p1": [["a"], ["b"], ["c"]], "p2": [["a", "b"], ["b", "c"]], "p3": [["a", "b", "c"]]}, ()),
    "two_branches": (["e", "d", "c", "b", "a"], {"a": ["b", "d"], "b": ["c"], "d": ["e"]}, ["a"],
                     {"p2": [["b", "c"], ["d", "e"]], "p1": [["a"], ["b"], ["d"]], "q2": [["b", "c"]]}, ()),
    "output_pattern": (["c", "b", "a"], {"a": ["b"], "b": ["c"]}, ["a"],
                       {"p2": [["a", "b"], ["b", "c"]], "o1": [["a"], ["b"], ["c"]], "o2": [["a", "b"], ["b", "c"]]}, ("o1", "o2")),
    "two_outputs_sharing": (["d", "c", "b", "a"], {"a": ["c"], "b": ["c"], "c": ["d"]}, ["a", "b"],
                            {"p1": [["a"], ["b"], ["c"], ["d"]], "p2": [["c", "d"]]}, ()),
}


def _run(vc, tname):
    order, edges, outputs, cands, out_patterns = TEMPLATES[tname]
    mods = {n: Opaque(n, {"__identity_eq__": True}) for n in order}
    ins = {mods[n]: [mods[i] for i in edges.get(n, [])] for n in order}
    outs = {mods[n]: [mods[k] for k in order if n in edges.get(k, [])] for n in order}
    incomings = Builtin("incomings_fn", lambda m: list(ins[m]))
    outcomings = Builtin("outcomings_fn", lambda m: list(outs[m]))
    patterns, table, offered = [], {}, []
    for pname, chains in cands.items():
        p = Opaque(f"pattern_{pname}")
        p.attrs["is_output"] = (lambda flag: lambda o: Builtin("is_output", lambda: flag))(pname in out_patterns)
        patterns.append(p)
        for ch in chains:
            table[(mods[ch[0]].name, p.name)] = (pname, ch)
    asked = []

    def matcher(m, pattern, incomings_fn=None, outcomings_fn=None):
        asked.append((m, pattern))
        hit = table.get((m.name, pattern.name))
        if hit is None:
            return None
        pname, ch = hit
        tag = f"{pname}_{'_'.join(ch)}"
        if not vc.I.decide(to_z3(vc.bool(f"found_{tag}"))):
            return None
        sub = Opaque(f"submatch_{tag}")
        extra = vc.int(f"extra_size_{tag}", lo=0)
        sub.attrs["size"] = lambda o, extra=extra: extra
        match = vc.new(f"{GO}:GraphOptMatch", pattern, [mods[n] for n in ch], [{"weight": [sub]}] + [{} for _ in ch[1:]])
        offered.append((match, ch, pattern))
        return match
    matches, module_matches = vc.call(f"{GO}:match_optimization_patterns", list(mods[n] for n in order), [mods[n] for n in outputs], list(patterns),
                                      incomings_fn=incomings, outcomings_fn=outcomings, pattern_matcher_fn=Builtin("pattern_matcher_fn", matcher))
    matches = list(vc.I.B.iterate(vc.I, matches))
    chain_of = {id(m): ch for m, ch, _ in offered}
    vc.ensure("every_returned_match_was_found_by_the_matcher", all(id(m) in chain_of for m in matches))
    vc.ensure("no_match_listed_twice", len({id(m) for m in matches}) == len(matches))
    members = [n for m in matches for n in chain_of.get(id(m), [])]
    vc.ensure("returned_matches_are_pairwise_disjoint", len(set(members)) == len(members))
    keys = list(module_matches.keys()) if isinstance(module_matches, dict) else None
    vc.ensure("module_matches_is_a_mapping", keys is not None)
    if keys is None:
        return
    vc.ensure("keys_are_exactly_the_entries_of_the_returned_matches", sorted(k.name for k in keys) == sorted(members))
    ok = True
    for m in matches:
        for n in chain_of.get(id(m), []):
            ok = ok and mods[n] in module_matches and module_matches[mods[n]] is m
    vc.ensure("every_entry_of_a_returned_match_is_mapped_to_that_match", ok)
    vc.ensure("an_output_is_never_a_non_root_entry", all(n not in outputs for m in matches for n in chain_of.get(id(m), [])[1:]))
    vc.ensure("output_patterns_are_rooted_at_outputs_only", all(m.name in outputs for m, p in asked if p.name[len("pattern_"):] in out_patterns))


for _t in TEMPLATES:
    obligation(f"C02.opt.match_optimization_patterns.{_t}", "C02",
               [f"{GO}:match_optimization_patterns", f"{GO}:_prioritize_optimization_strategy", f"{GO}:_sort_matches_priority",
                f"{GO}:_match_pattern_graph", f"{GO}:GraphOptMatch.size"])((lambda t: lambda vc: _run(vc, t))(_t))
