"""C10 (symbolic side): a derived circuit owns no learnable parameter of its own.

  * Parameter.ref(): for every shape of parameter graph listed below the result has the same shape, denotes the same
    tensor function of the *same* tensor objects (references, not copies) and contains no TensorParameter other than
    constants;
  * Layer.copyref(): for every layer class, the copy has the same class, configuration and scope, and each parameter
    denotes the same value through references to the operand's tensors.
Together with the rule obligations of C03/C04/C05/C07 (`sharing_clauses`) this covers every way functional.py creates
the layers of a derived circuit.  For all unit counts, state counts, arities, degrees and variable ids.
"""
import z3

from engine.vc import obligation
from engine.values import to_z3
from contracts.lib import *
from contracts import specs as S


def _graphs(vc, shape):
    """operand parameter graphs of several DAG shapes over fresh tensors"""
    init = vc.new(f"{SI}:NormalInitializer")
    t = lambda: vc.new(f"{SP}:TensorParameter", *shape, initializer=init)
    P = f"{SP}:Parameter"
    yield "tensor", vc.call(f"{P}.from_input", t())
    yield "constant", vc.call(f"{P}.from_input", vc.new(f"{SP}:ConstantParameter", *shape, value=vc.real("c")))
    yield "reference", vc.call(f"{P}.from_input", vc.new(f"{SP}:ReferenceParameter", t()))
    yield "frozen", vc.call(f"{P}.from_unary", vc.new(f"{SP}:ExpParameter", tuple(shape)),
                            vc.new(f"{SP}:TensorParameter", *shape, initializer=init, learnable=False))
    yield "chain", vc.call(f"{P}.from_sequence", t(), vc.new(f"{SP}:ExpParameter", tuple(shape)), vc.new(f"{SP}:SoftmaxParameter", tuple(shape)))
    yield "binary", vc.call(f"{P}.from_binary", vc.new(f"{SP}:HadamardParameter", tuple(shape), tuple(shape)), t(),
                            vc.call(f"{P}.from_unary", vc.new(f"{SP}:SigmoidParameter", tuple(shape)), vc.new(f"{SP}:ReferenceParameter", t())))
    shared = t()
    yield "diamond", vc.call(f"{P}.from_binary", vc.new(f"{SP}:SumParameter", tuple(shape), tuple(shape)),
                             vc.call(f"{P}.from_unary", vc.new(f"{SP}:ExpParameter", tuple(shape)), shared),
                             vc.call(f"{P}.from_unary", vc.new(f"{SP}:SquareParameter", tuple(shape)), vc.new(f"{SP}:ReferenceParameter", shared)))


for _g in ("tensor", "constant", "reference", "frozen", "chain", "binary", "diamond"):
    def _h(vc, _g=_g):
        A, Bn = vc.int("A", lo=1), vc.int("B", lo=1)
        P = dict(_graphs(vc, (A, Bn)))[_g]
        R = vc.call((P, "ref"))
        env = {}
        a, b = S.den_param(vc, P, env), S.den_param(vc, R, env)
        S.shape_eq(vc, b, [A, Bn])
        idx = vc.index_consts([A, Bn])
        vc.ensure("denotes_same_value_of_same_tensors", b.elem(idx) == a.elem(idx))
        vc.ensure("same_number_of_nodes", len(R.fields["_nodes"]) == len(P.fields["_nodes"]))
        S.sharing_clauses(vc, [R], [P])
        # a reference of a reference still points at the owning tensor
        R2 = vc.call((R, "ref"))
        vc.ensure("ref_of_ref_same_value", S.den_param(vc, R2, env).elem(idx) == a.elem(idx))
        S.sharing_clauses(vc, [R2], [P], "sharing2")
    obligation(f"C10.Parameter.ref.{_g}", "C10", [f"{SP}:Parameter.ref", f"{SP}:Parameter._process_nodes", f"{UA}:topologically_process_nodes"])(_h)


def _layers(vc, kind):
    K, C, H = vc.int("K", lo=1), vc.int("C", lo=2), vc.int("H", lo=2)
    v, scope = scope1(vc)
    yield "EmbeddingLayer", lambda: vc.new(f"{SL}:EmbeddingLayer", scope, K, num_states=C, weight=tensor_param(vc, (K, C), kind, "ExpParameter"))
    yield "CategoricalLayer.probs", lambda: vc.new(f"{SL}:CategoricalLayer", scope, K, num_categories=C, probs=tensor_param(vc, (K, C), kind, "SoftmaxParameter"))
    yield "CategoricalLayer.logits", lambda: vc.new(f"{SL}:CategoricalLayer", scope, K, num_categories=C, logits=tensor_param(vc, (K, C), kind, "LogParameter"))
    yield "BinomialLayer.probs", lambda: vc.new(f"{SL}:BinomialLayer", scope, K, total_count=C, probs=tensor_param(vc, (K,), kind, "SigmoidParameter"))
    yield "BinomialLayer.logits", lambda: vc.new(f"{SL}:BinomialLayer", scope, K, total_count=C, logits=tensor_param(vc, (K,), kind, "LogParameter"))
    yield "GaussianLayer", lambda: vc.new(f"{SL}:GaussianLayer", scope, K, mean=tensor_param(vc, (K,), kind, "ExpParameter"), stddev=tensor_param(vc, (K,), "unary", "SoftplusParameter"))
    yield "GaussianLayer.lp", lambda: vc.new(f"{SL}:GaussianLayer", scope, K, mean=tensor_param(vc, (K,), kind, "ExpParameter"), stddev=tensor_param(vc, (K,), "unary", "SoftplusParameter"), log_partition=tensor_param(vc, (K,), kind, "LogParameter"))
    yield "PolynomialLayer", lambda: vc.new(f"{SL}:PolynomialLayer", scope, K, degree=C, coeff=tensor_param(vc, (K, C + 1), kind, "ExpParameter"))
    yield "ConstantValueLayer", lambda: vc.new(f"{SL}:ConstantValueLayer", K, log_space=True, value=tensor_param(vc, (K,), kind, "LogParameter"))
    yield "SumLayer", lambda: vc.new(f"{SL}:SumLayer", C, K, arity=H, weight=tensor_param(vc, (K, H * C), kind, "SoftmaxParameter"))
    yield "HadamardLayer", lambda: vc.new(f"{SL}:HadamardLayer", K, arity=H)
    yield "KroneckerLayer", lambda: vc.new(f"{SL}:KroneckerLayer", K, arity=2)


_LAYER_NAMES = ["EmbeddingLayer", "CategoricalLayer.probs", "CategoricalLayer.logits", "BinomialLayer.probs", "BinomialLayer.logits",
                "GaussianLayer", "GaussianLayer.lp", "PolynomialLayer", "ConstantValueLayer", "SumLayer", "HadamardLayer", "KroneckerLayer"]


def copy_clauses(vc, sl, out):
    ok = out is not None and out is not sl and out.cls is sl.cls
    vc.ensure("same_class_new_object", ok)
    if not ok:
        return
    for a in ("num_input_units", "num_output_units", "arity"):
        vc.ensure("same_" + a, vc.attr(out, a) == vc.attr(sl, a))
    if "scope" in sl.fields:
        vc.ensure("same_scope", same_scope(vc, vc.attr(out, "scope"), vc.attr(sl, "scope")))
    pin, pout = params_of(vc, sl), params_of(vc, out)
    vc.ensure("same_parameter_names", list(pin.keys()) == list(pout.keys()))
    cin, cout = vc.attr(sl, "config"), vc.attr(out, "config")
    vc.ensure("same_config_keys", list(cin.keys()) == list(cout.keys()))
    for k in cin:
        if k != "scope" and k in cout:
            vc.ensure(f"same_config.{k}", vc.eq(cin[k], cout[k]))
    # every scalar hyper-parameter the layer HOLDS (not only what `config` chooses to list: copyref rebuilds the layer from config, so a
    # hyper-parameter missing there silently falls back to the constructor's default - e.g. log_space of a constant layer)
    from engine.values import is_z3 as _isz3
    for fname, fval in sl.fields.items():
        if isinstance(fval, (bool, int)) or _isz3(fval):
            vc.ensure(f"same_attribute.{fname}", fname in out.fields and vc.eq(out.fields[fname], fval))
    env = {}
    for name in pin:
        if name not in pout:
            continue
        a, b = S.den_param(vc, pin[name], env), S.den_param(vc, pout[name], env)
        S.shape_eq(vc, b, a.shape, f"param.{name}.shape")
        if len(a.shape) == len(b.shape):
            idx = vc.index_consts(a.shape)
            vc.ensure(f"param.{name}.same_value_of_same_tensors", b.elem(idx) == a.elem(idx))
    S.sharing_clauses(vc, list(pout.values()), list(pin.values()))


for _name in _LAYER_NAMES:
    for _kind in PARAM_KINDS:
        if _kind != "tensor" and _name in ("HadamardLayer", "KroneckerLayer"):
            continue

        def _h(vc, _name=_name, _kind=_kind):
            sl = dict(_layers(vc, _kind))[_name]()
            copy_clauses(vc, sl, vc.call((sl, "copyref")))
        obligation(f"C10.Layer.copyref.{_name}.{_kind}", "C10", [f"{SL}:Layer.copyref"])(_h)


@obligation("C10.Layer.copyref.EvidenceLayer", "C10", [f"{SL}:Layer.copyref", f"{SL}:EvidenceLayer.__init__"])
def _(vc):
    K, C = vc.int("K", lo=1), vc.int("C", lo=2)
    v, scope = scope1(vc)
    inner = vc.new(f"{SL}:CategoricalLayer", scope, K, num_categories=C, probs=tensor_param(vc, (K, C), "tensor"))
    obs = vc.call(f"{SP}:Parameter.from_input", vc.new(f"{SP}:ConstantParameter", 1, value=vc.real("x")))
    sl = vc.new(f"{SL}:EvidenceLayer", inner, observation=obs)
    out = vc.call((sl, "copyref"))
    ok = out is not None and out is not sl and out.cls is sl.cls
    vc.ensure("same_class_new_object", ok)
    if ok:
        vc.ensure("wraps_the_same_layer", vc.attr(out, "layer") is inner)
        vc.ensure("units", vc.attr(out, "num_output_units") == K)
        env = {}
        a, b = S.den_param(vc, obs, env), S.den_param(vc, vc.attr(out, "observation"), env)
        S.shape_eq(vc, b, [1])
        vc.ensure("same_observation", b.elem([0]) == a.elem([0]))


# ------------------------------------------------------------------------------------------------ copies of parameter nodes (Parameter.ref copies every non-tensor node)
from contracts.C14_shapes import RULES as _NODE_RULES
from engine.values import is_z3 as _is_z3

for _cls, _mk in _NODE_RULES.items():
    def _h(vc, _cls=_cls, _mk=_mk):
        """ParameterNode.__copy__ rebuilds the node from `config`: the copy must hold every scalar / shape hyper-parameter of the original (axis, shapes,
        bounds, index lists, order ...): a hyper-parameter missing from config would silently fall back to the constructor's default in every derived circuit"""
        p, _ = _mk(vc, _cls)
        c = vc.call((p, "__copy__"))
        ok = isinstance(c, Obj) and c.cls is p.cls and c is not p
        vc.ensure("copy_is_a_new_node_of_the_same_class", ok)
        if not ok:
            return

        def same(a, b):
            if isinstance(a, (tuple, list)) and isinstance(b, (tuple, list)):
                return len(a) == len(b) and all(same(x, y) for x, y in zip(a, b))
            if a is None or b is None:
                return a is None and b is None
            if isinstance(a, (bool, int, float)) or _is_z3(a):
                return vc.must(vc.eq(a, b)) if (_is_z3(a) or _is_z3(b)) else a == b
            from engine.values import SymSeq as _SS
            if isinstance(a, _SS) or isinstance(b, _SS):
                return vc.must(vc.eq(a, b))
            return True                      # other objects (initialisers, dtypes) are compared by the dedicated obligations
        for fname, fval in p.fields.items():
            if isinstance(fval, (bool, int, float, tuple, list)) or _is_z3(fval) or fval is None or type(fval).__name__ == "SymSeq":
                vc.ensure(f"same_attribute.{fname}", fname in c.fields and same(fval, c.fields[fname]))
        vc.ensure("same_shape", vc.eq(vc.attr(p, "shape"), vc.attr(c, "shape")))
    obligation(f"C10.ParameterNode.copy.{_cls}", "C10", [f"{SP}:ParameterNode.__copy__"])(_h)
