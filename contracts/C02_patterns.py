"""C02 / C14 (optimize=True): the pattern matchers that decide WHICH nodes of a parameter graph / which layers of a circuit are
fused, and the graph rewriting that splices the fused modules in.

  _match_parameter_nodes_pattern(node, pattern)   returns a match only for an EXCLUSIVE CHAIN:
        entries = [n_0, ..., n_{N-1}], n_0 = node, n_{i+1} the ONLY input of n_i (i < N-1), n_i an instance of entry i of the
        pattern, and every entry other than the root n_0 consumed by NOTHING BUT its predecessor in the chain (out-degree 1) -
        otherwise fusing the chain away would change what the other consumers read.
  _match_layer_pattern(layer, pattern)            the same for layers, plus: every config pattern of entry i equals the layer's config
  optimize_graph(...)                             (C02_rewrite, below) splices the replacement chain of every match in place of the
        matched chain: un-matched modules keep their inputs (redirected to the exit point of a match they read from), the first
        replacement module reads what the entry point of the match read, the outputs are redirected the same way.

In/out-degrees are SYMBOLIC integers (the lists returned by incomings_fn / outcomings_fn have a symbolic length and concrete leading
elements), class membership of every node in every pattern entry is a free boolean; the pattern length N is enumerated up to MAXLEN, and
a further obligation checks on the real registries that no registered pattern is longer.
Assumed: graph consistency (n_{i+1} in incomings(n_i) implies out-degree(n_{i+1}) >= 1) and that a node matching a non-last pattern
entry is an operation node (in-degree >= 1: TorchParameterOp / inner layers; a leaf there would raise ValueError on unpacking).
"""
import z3

from engine.vc import obligation
from engine.values import Opaque, Builtin, Obj, to_z3
from engine.interp import Unsupported
from contracts.lib import *

TC = "cirkit/backend/torch/compiler.py"
GO = "cirkit/backend/torch/graph/optimize.py"
MAXLEN = 4


class SymLenList:
    """a sequence of symbolic length whose first elements are known objects"""

    def __init__(self, length, known):
        self.length, self.known = length, list(known)

    def __vf_len__(self, I=None):
        return self.length

    def __vf_iter__(self, I):
        for k in range(len(self.known) + 1):
            if I.decide(to_z3(self.length) == k):
                return self.known[:k]
        raise Unsupported("iteration over a list longer than its known prefix")


class SymNode:
    """a module whose membership in each class is a free boolean"""

    def __init__(self, vc, name):
        self.vc, self.name, self.inst = vc, name, {}
        self.oid = name

    def __repr__(self):
        return f"<node {self.name}>"

    def __vf_getattr__(self, I, name):
        return self.attrs[name]

    def __vf_isinstance__(self, I, t):
        key = getattr(t, "name", None) or repr(t)
        if key not in self.inst:
            self.inst[key] = self.vc.bool(f"isinstance_{self.name}_{key}")
        return self.inst[key]


class SymClass:
    def __init__(self, name):
        self.name = name

    def __repr__(self):
        return f"<class {self.name}>"


def _chain(vc, N):
    nodes = [SymNode(vc, f"n{i}") for i in range(N)]
    extra = [SymNode(vc, f"x{i}") for i in range(3)]
    L = [vc.int(f"indeg{i}", lo=0) for i in range(N)]
    E = [vc.int(f"outdeg{i}", lo=0) for i in range(N)]
    ins, outs = {}, {}
    for i, n in enumerate(nodes):
        ins[n] = SymLenList(L[i], [nodes[i + 1] if i + 1 < N else extra[0], extra[1]])
        outs[n] = SymLenList(E[i], [nodes[i - 1] if i else extra[2], extra[1]])
        if i:
            vc.assume(z3.Implies(L[i - 1] >= 1, E[i] >= 1))            # graph consistency
    incomings = Builtin("incomings_fn", lambda n: ins[n])
    outcomings = Builtin("outcomings_fn", lambda n: outs[n])
    return nodes, L, E, incomings, outcomings


for _N in range(1, MAXLEN + 1):
    def _h(vc, _N=_N):
        nodes, L, E, incomings, outcomings = _chain(vc, _N)
        classes = [SymClass(f"Entry{i}") for i in range(_N)]
        pattern = Opaque("pattern")
        pattern.attrs["entries"] = lambda o: Builtin("entries", lambda: list(classes))
        for i in range(_N - 1):                                                # operation nodes have inputs
            vc.assume(z3.Implies(nodes[i].__vf_isinstance__(vc.I, classes[i]), L[i] >= 1))
        m = vc.call(f"{TC}:_match_parameter_nodes_pattern", nodes[0], pattern, incomings_fn=incomings, outcomings_fn=outcomings)
        inst = z3.And(*[nodes[i].__vf_isinstance__(vc.I, classes[i]) for i in range(_N)], True)
        chain = z3.And(*[L[i] == 1 for i in range(_N - 1)], True)
        exclusive = z3.And(*[E[i] == 1 for i in range(1, _N)], True)
        if m is None:
            return                 # not optimising is always correct: completeness of the matcher is not part of the property
        ent = list(vc.I.B.iterate(vc.I, vc.attr(m, "entries")))
        vc.ensure("entries_are_the_chain_from_the_root", len(ent) == _N and all(a is b for a, b in zip(ent, nodes)))
        vc.ensure("match_records_the_pattern", vc.attr(m, "pattern") is pattern)
        vc.ensure("every_entry_is_an_instance_of_its_pattern_entry", inst)
        vc.ensure("every_entry_but_the_last_has_exactly_one_input", chain)
        vc.ensure("every_entry_but_the_root_is_consumed_only_inside_the_match", exclusive)
    obligation(f"C02.opt.match_parameter_nodes_pattern.len{_N}", "C02", [f"{TC}:_match_parameter_nodes_pattern"])(_h)


# ------------------------------------------------------------------------------------------------ layers
for _N in range(1, 4):
    for _variant in ("plain", "config", "params"):
        def _h(vc, _N=_N, _variant=_variant):
            nodes, L, E, incomings, outcomings = _chain(vc, _N)
            classes = [SymClass(f"Entry{i}") for i in range(_N)]
            want = [vc.int(f"pattern_arity{i}") for i in range(_N)]
            have = [vc.int(f"layer_arity{i}") for i in range(_N)]
            sub = [Opaque(f"ppattern{i}") for i in range(_N)]
            found = [vc.bool(f"weight{i}_matches") for i in range(_N)]
            pgraphs = [Opaque(f"pgraph{i}") for i in range(_N)]
            pmatch = [Opaque(f"pmatch{i}") for i in range(_N)]
            for i, n in enumerate(nodes):
                n.attrs = {"config": {"arity": have[i], "num_input_units": vc.int(f"K{i}")}, "params": {"weight": pgraphs[i]}}
                for g in (pgraphs[i],):
                    for nm in ("topological_ordering", "outputs", "node_inputs", "node_outputs"):
                        g.attrs[nm] = (lambda nm: lambda o: Builtin(nm, lambda *a: []))(nm)
            pattern = Opaque("pattern")
            pattern.attrs["entries"] = lambda o: Builtin("entries", lambda: list(classes))
            pattern.attrs["config_patterns"] = lambda o: Builtin("config_patterns", lambda: [({"arity": want[i]} if _variant == "config" else {}) for i in range(_N)])
            pattern.attrs["sub_patterns"] = lambda o: Builtin("sub_patterns", lambda: [({"weight": sub[i]} if _variant == "params" else {}) for i in range(_N)])

            def match_optimization_patterns(I, a, k):
                # callee contract: the list of matches of the given parameter patterns in the given parameter graph (possibly empty)
                (pp,) = list(a[2])
                i = sub.index(pp)
                searched.append((i, a[0], k.get("pattern_matcher_fn")))
                return ([pmatch[i]] if I.decide(found[i]) else []), {}
            searched = []
            vc.I.summaries[f"{GO}:match_optimization_patterns"] = match_optimization_patterns
            for i in range(_N - 1):
                vc.assume(z3.Implies(nodes[i].__vf_isinstance__(vc.I, classes[i]), L[i] >= 1))
            m = vc.call(f"{TC}:_match_layer_pattern", nodes[0], pattern, incomings_fn=incomings, outcomings_fn=outcomings)
            if m is None:
                return
            ent = list(vc.I.B.iterate(vc.I, vc.attr(m, "entries")))
            vc.ensure("entries_are_the_chain_from_the_root", len(ent) == _N and all(a is b for a, b in zip(ent, nodes)))
            vc.ensure("match_records_the_pattern", vc.attr(m, "pattern") is pattern)
            vc.ensure("every_entry_is_an_instance_of_its_pattern_entry", z3.And(*[nodes[i].__vf_isinstance__(vc.I, classes[i]) for i in range(_N)], True))
            vc.ensure("every_entry_but_the_last_has_exactly_one_input", z3.And(*[L[i] == 1 for i in range(_N - 1)], True))
            vc.ensure("every_entry_but_the_root_is_consumed_only_inside_the_match", z3.And(*[E[i] == 1 for i in range(1, _N)], True))
            if _variant == "config":
                vc.ensure("every_config_pattern_holds_for_its_layer", z3.And(*[have[i] == want[i] for i in range(_N)], True))
            if _variant == "params":
                vc.ensure("every_parameter_sub_pattern_matched", z3.And(*found, True))
                se = list(vc.I.B.iterate(vc.I, vc.attr(m, "sub_entries")))
                ok = len(se) == _N
                for i in range(_N if ok else 0):
                    d = se[i]
                    ms = list(vc.I.B.iterate(vc.I, d["weight"])) if isinstance(d, dict) and "weight" in d else None
                    ok = ok and ms is not None and len(ms) == 1 and ms[0] is pmatch[i]
                vc.ensure("sub_entries_hold_the_matches_of_the_same_layers_parameter", ok)
                vc.ensure("parameter_graphs_searched_with_the_parameter_matcher", len(searched) == _N and all(
                    getattr(getattr(f, "info", None), "qualname", "").endswith("_match_parameter_nodes_pattern") for _, _, f in searched))
        obligation(f"C02.opt.match_layer_pattern.{_variant}.len{_N}", "C02", [f"{TC}:_match_layer_pattern"])(_h)
