"""C17: initialisation follows the symbolic initialiser whatever the folding.

  rule(dirichlet)    the compiled initialiser draws the simplex along axis `norm(init.axis, n) + 1` of a tensor that carries a
                     leading fold dimension - the declared axis of the parameter's OWN shape, for every rank n, every
                     admissible (also negative) axis; the sample's simplex axis is moved exactly there (layout clause)
  foldwise           initialiser i of a folded tensor is applied to fold slice i and to nothing else, every fold is covered,
                     `None` entries are skipped; each slice keeps the leading dimension (so the axis arithmetic above applies
                     to folded and unfolded tensors alike)
  tensor rules       compile_tensor_parameter / compile_constant_parameter: same shape, requires_grad == learnable
                     (False for constants), dtype by the DataType table, initialiser compiled from the parameter's own
                     initialiser, registration of (symbolic, compiled) in the compiler state
  fold of tensors    _fold_parameter_nodes_group: folded tensor with len(group) folds, shape / requires_grad / dtype of the
                     members, initialisers in group order, registry entry of member i -> (folded tensor, i); pointers: the
                     fold index lists are concatenated in group order
"""
import z3

from engine.vc import obligation
from engine.values import to_z3, Obj, ClassVal, PartialVal, ExternalVal, FuncVal, Opaque, BoundBuiltin
from engine.stubs import SymToken
from engine.tensor import Tensor

RI = "cirkit/backend/torch/rules/initializers.py"
TI = "cirkit/backend/torch/initializers.py"
SI = "cirkit/symbolic/initializers.py"
RP = "cirkit/backend/torch/rules/parameters.py"
SP = "cirkit/symbolic/parameters.py"
TN = "cirkit/backend/torch/parameters/nodes.py"
TC = "cirkit/backend/torch/compiler.py"


for _n in (1, 2, 3):
    for _ax in range(-_n, _n):
        def _h(vc, _n=_n, _ax=_ax):
            F = vc.int("F", lo=1)
            shape = vc.shape("shape", _n)
            alpha = vc.real("alpha")
            vc.assume(alpha > 0)
            init = Obj(vc.repo.lookup(f"{SI}:DirichletInitializer"), {"alpha": 1.5, "axis": _ax})
            f = vc.call(f"{RI}:compile_dirichlet_initializer", vc.opaque("compiler"), init)
            ok = isinstance(f, PartialVal)
            vc.ensure("returns_partial_of_dirichlet_", ok and isinstance(f.func, FuncVal) and f.func.info.name == "dirichlet_")
            if not ok:
                return
            a = _ax % _n
            # the initialiser is applied to a tensor with a leading fold dimension: (1, *shape) unfolded, slice (1, *shape) folded
            t = vc.tensor("t", (1, *shape))
            vc.I.call(f, [t], {})
            writes = vc.I.__dict__.get("writes", [])
            samples = vc.I.__dict__.get("dirichlet_samples", [])
            vc.ensure("one_write_one_sample", len(writes) == 1 and len(samples) == 1)
            if len(writes) != 1 or len(samples) != 1:
                return
            tgt, src = writes[0]
            smp = samples[0]
            vc.ensure("writes_the_given_tensor", tgt is t)
            want = [1] + [shape[j] for j in range(_n) if j != a] + [shape[a]]
            vc.ensure("sample_shape", len(smp.shape) == len(want) and all(vc.must(to_z3(x) == to_z3(y)) for x, y in zip(smp.shape, want)))
            idx = vc.index_consts([1, *shape])
            rest = [idx[0]] + [idx[1 + j] for j in range(_n) if j != a]
            vc.ensure("simplex_axis_is_the_declared_axis_of_the_parameter_shape", src.elem(idx) == smp.elem(rest + [idx[1 + a]]))
        obligation(f"C17.rule.dirichlet.rank{_n}.axis{_ax}", "C17", [f"{RI}:compile_dirichlet_initializer", f"{TI}:dirichlet_"])(_h)


for _k in (1, 2, 3):
    def _h(vc, _k=_k):
        shape = vc.shape("shape", 2)
        t = vc.tensor("t", (_k, *shape))
        calls = []

        def mk(i):
            o = Opaque(f"init{i}")
            o.__dict__["__vf_call__"] = lambda x, i=i: calls.append((i, x)) or x
            return o
        inits = [mk(i) for i in range(_k)]
        if _k == 3:
            inits[1] = None
        r = vc.call(f"{TI}:foldwise_initializer_", t, initializers=inits)
        vc.ensure("returns_the_tensor", r is t)
        expected = [i for i in range(_k) if inits[i] is not None]
        vc.ensure("each_initialiser_called_once_in_order", [c[0] for c in calls] == expected)
        for i, x in calls:
            ok = isinstance(x, Tensor) and len(x.shape) == 3
            vc.ensure(f"init{i}.receives_slice_with_leading_dimension", ok and vc.must(z3.And(to_z3(x.shape[0]) == 1, to_z3(x.shape[1]) == to_z3(shape[0]), to_z3(x.shape[2]) == to_z3(shape[1]))))
            if ok:
                a, b = vc.index_consts(list(shape), f"s{i}")
                vc.ensure(f"init{i}.slice_is_fold_{i}", x.elem([0, a, b]) == t.elem([i, a, b]))
    obligation(f"C17.foldwise_initializer.folds{_k}", "C17", [f"{TI}:foldwise_initializer_"])(_h)


def _compiler(vc, registered):
    state = Opaque("state")
    state.attrs["register_compiled_parameter"] = lambda o: BoundBuiltin(lambda sp, cp, fold_idx=0, **kw: registered.append((sp, cp, kw.get("fold_idx", fold_idx))))
    comp = Opaque("compiler")
    comp.attrs["state"] = state
    comp.attrs["compile_initializer"] = lambda o: BoundBuiltin(lambda init: ("compiled", init))
    return comp


for _dt in ("INTEGER", "REAL", "COMPLEX"):
    for _learn in (True, False):
        def _h(vc, _dt=_dt, _learn=_learn):
            from contracts.lib import dtype_of
            A, Bn = vc.int("A", lo=1), vc.int("B", lo=1)
            init = vc.new(f"{SI}:NormalInitializer")
            p = vc.new(f"{SP}:TensorParameter", A, Bn, initializer=init, learnable=_learn, dtype=dtype_of(vc, _dt))
            reg = []
            t = vc.call(f"{RP}:compile_tensor_parameter", _compiler(vc, reg), p)
            ok = isinstance(t, Obj) and t.cls.name == "TorchTensorParameter"
            vc.ensure("torch_tensor_parameter", ok)
            if not ok:
                return
            vc.ensure("same_shape", vc.eq(vc.attr(t, "shape"), (A, Bn)))
            vc.ensure("requires_grad_is_learnable", vc.attr(t, "requires_grad") is _learn)
            vc.ensure("initialiser_compiled_from_own_initialiser", t.fields["_initializer_"] == ("compiled", init))
            vc.ensure("registered_once_with_itself", len(reg) == 1 and reg[0][0] is p and reg[0][1] is t)
            vc.ensure("one_fold", vc.attr(t, "num_folds") == 1)
            dt = vc.attr(t, "dtype")
            name = getattr(dt, "dotted", getattr(dt, "name", str(dt)))
            want = {"INTEGER": "int64", "REAL": "default_dtype", "COMPLEX": "to_complex"}[_dt]
            vc.ensure("dtype_by_table", want in str(name))
        obligation(f"C17.rule.tensor_parameter.{_dt.lower()}.{'learnable' if _learn else 'frozen'}", "C17", [f"{RP}:compile_tensor_parameter", f"{RP}:_retrieve_dtype"])(_h)


@obligation("C17.rule.constant_parameter", "C17", [f"{RP}:compile_constant_parameter"])
def _(vc):
    A = vc.int("A", lo=1)
    p = vc.new(f"{SP}:ConstantParameter", A, value=vc.real("c"))
    reg = []
    t = vc.call(f"{RP}:compile_constant_parameter", _compiler(vc, reg), p)
    ok = isinstance(t, Obj) and t.cls.name == "TorchTensorParameter"
    vc.ensure("torch_tensor_parameter", ok)
    if ok:
        vc.ensure("never_requires_grad", vc.attr(t, "requires_grad") is False)
        vc.ensure("same_shape", vc.eq(vc.attr(t, "shape"), (A,)))
        vc.ensure("initialiser_of_the_constant", t.fields["_initializer_"] == ("compiled", p.fields["initializer"]))
        vc.ensure("registered", len(reg) == 1 and reg[0][0] is p and reg[0][1] is t)


for _k in (1, 2, 3):
    def _h(vc, _k=_k):
        shape = vc.shape("shape", 2)
        rg = vc.bool("requires_grad")
        dt = SymToken("dtype", vc.int("dtype"))
        calls = []

        def mk(i):
            o = Opaque(f"init{i}")
            o.__dict__["__vf_call__"] = lambda x, i=i: calls.append(i) or x
            return o
        group = [vc.new(f"{TN}:TorchTensorParameter", *shape, requires_grad=rg, dtype=dt, initializer_=mk(i)) for i in range(_k)]
        sym = {id(g): vc.opaque(f"sym{i}") for i, g in enumerate(group)}
        reg = []
        state = Opaque("state")
        state.attrs["retrieve_symbolic_parameter"] = lambda o: BoundBuiltin(lambda p: sym[id(p)])
        state.attrs["register_compiled_parameter"] = lambda o: BoundBuiltin(lambda sp, cp, **kw: reg.append((sp, cp, kw.get("fold_idx"))))
        comp = Opaque("compiler")
        comp.attrs["state"] = state
        f = vc.call(f"{TC}:_fold_parameter_nodes_group", group, compiler=comp)
        ok = isinstance(f, Obj) and f.cls.name == "TorchTensorParameter" and all(f is not g for g in group)
        vc.ensure("new_folded_tensor", ok)
        if not ok:
            return
        vc.ensure("one_fold_per_member", vc.attr(f, "num_folds") == _k)
        vc.ensure("same_shape", vc.eq(vc.attr(f, "shape"), tuple(shape)))
        vc.ensure("same_requires_grad", vc.eq(vc.attr(f, "requires_grad"), rg))
        vc.ensure("same_dtype", vc.eq(vc.attr(f, "dtype"), dt))
        ini = f.fields["_initializer_"]
        good = isinstance(ini, PartialVal) and isinstance(ini.func, FuncVal) and ini.func.info.name == "foldwise_initializer_"
        vc.ensure("foldwise_initialiser", good)
        if good:
            # the folded initialiser runs on EVERY reset_parameters(): two initialisations apply every member's initialiser twice, in order
            t = vc.tensor("storage", (_k, *shape))
            for rnd in (1, 2):
                del calls[:]
                vc.I.call(ini, [t], {})
                vc.ensure(f"initialisation{rnd}_applies_every_members_initialiser_in_group_order", calls == list(range(_k)))
            v = ini.kwargs.get("initializers", [])
            if isinstance(v, (list, tuple)):          # (any other re-iterable is judged by the behavioural clauses above)
                vc.ensure("initialisers_in_group_order", len(v) == _k and all(a is g.fields["_initializer_"] for a, g in zip(v, group)))
        vc.ensure("registry_points_member_i_to_fold_i", len(reg) == _k and all(r[0] is sym[id(g)] and r[1] is f and r[2] == i for i, (r, g) in enumerate(zip(reg, group))))
    obligation(f"C17.fold_tensor_group.size{_k}", "C17", [f"{TC}:_fold_parameter_nodes_group"])(_h)


@obligation("C02.fold_pointer_group", "C02", [f"{TC}:_fold_parameter_nodes_group", f"{TN}:TorchPointerParameter.__init__"])
def _(vc):
    """pointers folded together dereference the same tensor and select the concatenation of their fold index lists"""
    F = vc.int("F", lo=3)
    s = vc.shape("shape", 2)
    target = vc.opaque("target", attrs={"num_folds": F, "shape": s}, cls=f"{TN}:TorchTensorParameter")
    i1, i2, i3 = vc.int("i1", lo=0), vc.int("i2", lo=0), vc.int("i3", lo=0)
    vc.assume(z3.And(i1 < F, i2 < F, i3 < F))
    a = vc.new(f"{TN}:TorchPointerParameter", target, fold_idx=i1)
    b = vc.new(f"{TN}:TorchPointerParameter", target, fold_idx=[i2, i3])
    vc.assume(z3.Not(z3.And(i2 == 0, i3 == 1, F == 2)))
    f = vc.call(f"{TC}:_fold_parameter_nodes_group", [a, b], compiler=vc.opaque("compiler"))
    ok = isinstance(f, Obj) and f.cls.name == "TorchPointerParameter"
    vc.ensure("pointer", ok)
    if ok:
        vc.ensure("same_target", vc.call((f, "deref")) is target)
        idx = vc.attr(f, "fold_idx")
        if idx is None:  # the identity selection is stored as None: only when the concatenation IS 0..F-1
            vc.ensure("identity_selection_only_when_concatenation_is_identity", z3.And(F == 3, i1 == 0, i2 == 1, i3 == 2))
        else:
            vc.ensure("concatenated_fold_indices", vc.eq(idx, [i1, i2, i3]))
        vc.ensure("three_folds", vc.attr(f, "num_folds") == 3)
