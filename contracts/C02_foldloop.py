"""C02 / C01: graph.folding.build_folded_graph by the Hoare loop rule on the real statements (the whole function on graph templates is in
C01_addressbook; this is the part that does not depend on the shape of the graph).

State of the loop (arbitrary at the start of an iteration): `modules` - a list of SYMBOLIC length whose elements are known only where the
iteration reads them; `fold_idx` - frame-guarded map module -> (fold id, slice) with symbolic ints; `in_fold_idx`, `in_modules` - written only.

(step)    ONE iteration of the inner loop, for a group of 1-2 modules of arity 0-2 whose inputs may share folds (every coincidence of their
          symbolic fold ids is explored): the group builder is called once on the group; the folded module is appended (and nothing else);
          its inputs are the DISTINCT folded modules its members' inputs live in; every member m_i is located at (len(modules) before, i);
          the index table of the new fold lists, per member and per input IN ORDER, the location of that input; nothing else is written.
(suffix)  the output locations are the locations of the outputs IN THE DECLARED ORDER (evaluation reads outputs through them); the folded outputs
          are the distinct modules holding them, each once (their order is not constrained: nothing evaluates through it); FoldIndexInfo holds
          the modules, the index tables and the output locations.
"""
import itertools

import z3

from engine.vc import obligation
from engine.values import Opaque, Builtin, Obj, to_z3
from engine.interp import Unsupported
from contracts.lib import *
from contracts.C02_rewrite import GuardedMap, ABSENT

FO = "cirkit/backend/torch/graph/folding.py"


class ModList:
    """a list of symbolic length n0 (+ what the iteration appends); element at a symbolic position: one object per DISTINCT position (the
    coincidences of positions are decided by branching)"""

    def __init__(self, vc, n0):
        self.vc, self.n0, self.seen, self.appended = vc, n0, [], []

    def __vf_len__(self, I=None):
        return self.n0 + len(self.appended)

    def __vf_getitem__(self, I, i):
        if not I.decide(z3.And(to_z3(i) >= 0, to_z3(i) < to_z3(self.n0))):
            for k, m in enumerate(self.appended):
                if I.decide(to_z3(i) == to_z3(self.n0) + k):
                    return m
            I.raise_("IndexError", "modules")
        for idx, m in self.seen:
            if I.decide(to_z3(i) == to_z3(idx)):
                return m
        m = Opaque(f"folded_at_{len(self.seen)}", {"__identity_eq__": True})
        self.seen.append((i, m))
        return m

    def __vf_getattr__(self, I, name):
        if name == "append":
            return Builtin("append", lambda x: self.appended.append(x))
        raise Unsupported(f"modules.{name}")


def _step(vc, arities):
    mk = lambda n: Opaque(n, {"__identity_eq__": True})
    group = [mk(f"m{i}") for i in range(len(arities))]
    ins = {id(m): [mk(f"m{i}_in{j}") for j in range(a)] for i, (m, a) in enumerate(zip(group, arities))}
    n0 = vc.int("n0", lo=0)
    loc_of = {}
    known = {}
    for m in group:
        known[m] = ABSENT
        for x in ins[id(m)]:
            f, s = vc.int(f"fold_of_{x.name}"), vc.int(f"slice_of_{x.name}", lo=0)
            vc.assume(z3.And(to_z3(f) >= 0, to_z3(f) < to_z3(n0)))                         # invariant: recorded fold ids point into `modules`
            loc_of[id(x)] = (f, s)
            known[x] = (f, s)
    fold_idx = GuardedMap("fold_idx", known)
    in_fold_idx, in_modules = GuardedMap("in_fold_idx", {}), GuardedMap("in_modules", {})
    modules = ModList(vc, n0)
    folded = mk("folded")
    calls = []

    def incomings(m):
        if id(m) not in ins:
            raise Unsupported("incomings_fn of a module outside the iteration's frame")
        return list(ins[id(m)])

    def fold_group(g):
        calls.append(list(vc.I.B.iterate(vc.I, g)))
        return folded
    loc = {"modules": modules, "in_modules": in_modules, "fold_idx": fold_idx, "in_fold_idx": in_fold_idx,
           "incomings_fn": Builtin("incomings_fn", incomings), "fold_group_fn": Builtin("fold_group_fn", fold_group)}
    vc.I.arbitrary_set_order = True              # `list({...})`: the order of the folded inputs is arbitrary (only the SET is specified below)
    vc.run_loop_body(f"{FO}:build_folded_graph", loc, list(group), loop=(0, 0))
    same = lambda got, want: len(got) == len(want) and all(a is b for a, b in zip(got, want))
    vc.ensure("group_builder_called_once_on_the_group", len(calls) == 1 and same(calls[0], group))
    vc.ensure("exactly_the_folded_module_appended", same(modules.appended, [folded]))
    # inputs of the folded module: the distinct folded modules holding the members' inputs
    w = [(k, v) for k, v in in_modules.written]
    vc.ensure("inputs_written_once_for_the_folded_module", len(w) == 1 and w[0][0] is folded)
    if len(w) == 1:
        got = list(vc.I.B.iterate(vc.I, w[0][1]))
        want = []
        for m in group:
            for x in ins[id(m)]:
                want.append(modules.__vf_getitem__(vc.I, loc_of[id(x)][0]))
        vc.ensure("inputs_are_the_folds_holding_the_members_inputs", all(any(g is t for t in want) for g in got) and all(any(g is t for g in got) for t in want))
        vc.ensure("inputs_listed_once", len({id(g) for g in got}) == len(got))
    # locations of the members
    fw = fold_idx.written
    ok = len(fw) == len(group)
    cl = []
    for i, m in enumerate(group):
        hit = [v for k, v in fw if k is m]
        ok = ok and len(hit) == 1 and isinstance(hit[0], tuple) and len(hit[0]) == 2
        if ok:
            cl.append(z3.And(to_z3(hit[0][0]) == to_z3(n0), to_z3(hit[0][1]) == i))
    vc.ensure("exactly_the_members_located", ok)
    if ok:
        vc.ensure("member_i_located_at_new_fold_slice_i", z3.And(*cl, True))
    # index table of the new fold
    iw = in_fold_idx.written
    ok = len(iw) == 1
    vc.ensure("one_index_table_written", ok)
    if ok:
        vc.ensure("index_table_keyed_by_the_new_fold_id", to_z3(iw[0][0]) == to_z3(n0))
        table = iw[0][1]
        if arities[0] == 0:
            vc.ensure("input_folds_have_an_empty_table", list(table) == [])
        else:
            shape_ok = len(table) == len(group) and all(len(row) == a for row, a in zip(table, arities))
            vc.ensure("table_has_one_row_per_member_one_entry_per_input", shape_ok)
            if shape_ok:
                cl = []
                for row, m in zip(table, group):
                    for ent, x in zip(row, ins[id(m)]):
                        cl.append(z3.And(to_z3(ent[0]) == to_z3(loc_of[id(x)][0]), to_z3(ent[1]) == to_z3(loc_of[id(x)][1])))
                vc.ensure("entries_are_the_locations_of_the_inputs_in_order", z3.And(*cl, True))


for _ar in [(0,), (1,), (2,), (0, 0), (1, 1), (2, 2), (3,), (1, 1, 1)]:
    obligation(f"C02.build_folded_graph.step.group{len(_ar)}.arity{_ar[0]}", "C02", [f"{FO}:build_folded_graph"])((lambda a: lambda vc: _step(vc, a))(_ar))


def _suffix(vc, n_out):
    mk = lambda n: Opaque(n, {"__identity_eq__": True})
    outs = [mk(f"out{i}") for i in range(n_out)]
    n0 = vc.int("n0", lo=1)
    known, locs = {}, []
    for o in outs:
        f, s = vc.int(f"fold_of_{o.name}"), vc.int(f"slice_of_{o.name}", lo=0)
        vc.assume(z3.And(to_z3(f) >= 0, to_z3(f) < to_z3(n0)))
        known[o] = (f, s)
        locs.append((f, s))
    fold_idx = GuardedMap("fold_idx", known)
    in_fold_idx, in_modules = GuardedMap("in_fold_idx", {}), GuardedMap("in_modules", {})
    modules = ModList(vc, n0)
    loc = {"modules": modules, "in_modules": in_modules, "fold_idx": fold_idx, "in_fold_idx": in_fold_idx, "outputs": list(outs)}
    vc.I.arbitrary_set_order = True              # a set of modules is iterated in an arbitrary order: an output order taken from one is refuted
    kind, res = vc.run_suffix(f"{FO}:build_folded_graph", loc, loop=0)
    vc.ensure("returns", kind == "return" and isinstance(res, tuple) and len(res) == 4)
    if not (kind == "return" and isinstance(res, tuple) and len(res) == 4):
        return
    r_modules, r_in, r_outs, info = res
    vc.ensure("modules_and_inputs_returned_as_built", r_modules is modules and r_in is in_modules)
    vc.ensure("nothing_written_after_the_loop", fold_idx.written == [] and in_fold_idx.written == [] and in_modules.written == [] and modules.appended == [])
    ofi = list(vc.I.B.iterate(vc.I, vc.attr(info, "out_fold_idx")))
    ok = len(ofi) == n_out
    vc.ensure("one_location_per_output", ok)
    if ok:
        vc.ensure("output_locations_in_declared_order", z3.And(*[z3.And(to_z3(a[0]) == to_z3(b[0]), to_z3(a[1]) == to_z3(b[1])) for a, b in zip(ofi, locs)], True))
    vc.ensure("info_holds_the_modules_and_tables", vc.attr(info, "ordering") is modules and vc.attr(info, "in_fold_idx") is in_fold_idx)
    # folded outputs: the distinct modules holding the outputs
    want = []
    for f, _ in locs:
        m = modules.__vf_getitem__(vc.I, f)
        if not any(m is t for t in want):
            want.append(m)
    got = list(vc.I.B.iterate(vc.I, r_outs))
    vc.ensure("folded_outputs_are_the_distinct_modules_holding_the_outputs", len(got) == len(want) and all(any(a is b for b in want) for a in got)
              and len({id(a) for a in got}) == len(got))


for _n in (1, 2, 3):
    obligation(f"C02.build_folded_graph.suffix.outputs{_n}", "C02", [f"{FO}:build_folded_graph"])((lambda n: lambda vc: _suffix(vc, n))(_n))


# ------------------------------------------------------------------------------------------------ build_unfold_index_info (no folding)
def _ustep(vc, arity, folds_ok):
    """ONE iteration from an arbitrary counter value: module k located at (k, 0); its table is ONE row listing the locations of its inputs in
    order (empty row for an input module); the counter advances by one; a module that is already folded (num_folds > 1) is refused"""
    mk = lambda n: Opaque(n, {"__identity_eq__": True})
    m = mk("m")
    nf = vc.int("num_folds", lo=1)
    m.attrs["num_folds"] = lambda o: nf
    ins = [mk(f"in{j}") for j in range(arity)]
    cur = vc.int("cur_module_id", lo=0)
    known, locs = {m: ABSENT}, []
    for x in ins:
        f, s = vc.int(f"fold_of_{x.name}", lo=0), vc.int(f"slice_of_{x.name}", lo=0)
        known[x] = (f, s)
        locs.append((f, s))
    fold_idx, in_fold_idx = GuardedMap("fold_idx", known), GuardedMap("in_fold_idx", {})

    def incomings(q):
        if q is not m:
            raise Unsupported("incomings_fn of a module outside the iteration's frame")
        return list(ins)
    loc = {"fold_idx": fold_idx, "in_fold_idx": in_fold_idx, "cur_module_id": cur, "incomings_fn": Builtin("incomings_fn", incomings)}
    vc.assume(to_z3(nf) == 1 if folds_ok else to_z3(nf) > 1)
    exc, _ = vc.raises(lambda: vc.run_loop_body(f"{FO}:build_unfold_index_info", loc, m, loop=0))
    if not folds_ok:
        vc.ensure("folded_module_refused", exc == "ValueError")
        vc.ensure("nothing_written_on_refusal", fold_idx.written == [] and in_fold_idx.written == [])
        return
    vc.ensure("no_exception", exc is None)
    fw, iw = fold_idx.written, in_fold_idx.written
    ok = len(fw) == 1 and fw[0][0] is m and isinstance(fw[0][1], tuple) and len(fw[0][1]) == 2
    vc.ensure("exactly_the_module_located", ok)
    if ok:
        vc.ensure("module_located_at_counter_slice_0", z3.And(to_z3(fw[0][1][0]) == to_z3(cur), to_z3(fw[0][1][1]) == 0))
    ok = len(iw) == 1
    vc.ensure("one_index_table_written", ok)
    if ok:
        vc.ensure("index_table_keyed_by_the_counter", to_z3(iw[0][0]) == to_z3(cur))
        table = iw[0][1]
        shape_ok = len(table) == 1 and len(table[0]) == arity
        vc.ensure("table_is_one_row_with_one_entry_per_input", shape_ok)
        if shape_ok and arity:
            vc.ensure("entries_are_the_locations_of_the_inputs_in_order",
                      z3.And(*[z3.And(to_z3(e[0]) == to_z3(l[0]), to_z3(e[1]) == to_z3(l[1])) for e, l in zip(table[0], locs)]))
    vc.ensure("counter_advances_by_one", to_z3(loc["cur_module_id"]) == to_z3(cur) + 1)


for _a in range(4):
    obligation(f"C02.build_unfold_index_info.step.arity{_a}", "C02", [f"{FO}:build_unfold_index_info"])((lambda a: lambda vc: _ustep(vc, a, True))(_a))
obligation("C02.build_unfold_index_info.step.already_folded", "C02", [f"{FO}:build_unfold_index_info"])(lambda vc: _ustep(vc, 1, False))


def _usuffix(vc, n_out):
    mk = lambda n: Opaque(n, {"__identity_eq__": True})
    outs = [mk(f"out{i}") for i in range(n_out)]
    known, locs = {}, []
    for o in outs:
        f, s = vc.int(f"fold_of_{o.name}", lo=0), vc.int(f"slice_of_{o.name}", lo=0)
        known[o] = (f, s)
        locs.append((f, s))
    fold_idx, in_fold_idx = GuardedMap("fold_idx", known), GuardedMap("in_fold_idx", {})
    ordering_ls = [mk("some_module")]
    loc = {"fold_idx": fold_idx, "in_fold_idx": in_fold_idx, "ordering_ls": ordering_ls, "outputs": list(outs), "cur_module_id": vc.int("cur_module_id", lo=0)}
    kind, info = vc.run_suffix(f"{FO}:build_unfold_index_info", loc, loop=0)
    vc.ensure("returns", kind == "return")
    if kind != "return":
        return
    ofi = list(vc.I.B.iterate(vc.I, vc.attr(info, "out_fold_idx")))
    ok = len(ofi) == n_out
    vc.ensure("one_location_per_output", ok)
    if ok:
        vc.ensure("output_locations_in_declared_order", z3.And(*[z3.And(to_z3(a[0]) == to_z3(b[0]), to_z3(a[1]) == to_z3(b[1])) for a, b in zip(ofi, locs)], True))
    vc.ensure("info_holds_the_ordering_and_tables", vc.attr(info, "ordering") is ordering_ls and vc.attr(info, "in_fold_idx") is in_fold_idx)
    vc.ensure("nothing_written_after_the_loop", fold_idx.written == [] and in_fold_idx.written == [])


for _n in (1, 2, 3):
    obligation(f"C02.build_unfold_index_info.suffix.outputs{_n}", "C02", [f"{FO}:build_unfold_index_info"])((lambda n: lambda vc: _usuffix(vc, n))(_n))
