"""C01 / C02 (L3, address book): build_address_book_stacked_entry describes, for a (folded) module, where each of its F x H
inputs is found in the stacked outputs of the modules feeding it.  The consumer (LayerAddressBook.lookup) concatenates the
outputs of `in_module_ids[0]` along the fold dimension and indexes the result with `in_fold_idx[0]`; the shortcuts `(None,)` and
`(slice(None), None)` stand for the index matrices [[0..S-1]] and [[0], .., [S-1]] of the S stacked folds.

Contract (for all fold counts of the feeding modules and all fold indices within them; F x H up to 4 entries, every pattern of
equal / different feeding modules):
    effective_index[f][h], decoded through the prefix sums of the fold counts of in_module_ids[0] (in that order),
    is exactly in_fold_idx[f][h] = (feeding module id, fold within it);
    the listed module ids are the distinct feeding modules in first-occurrence order;
    a shortcut is used only when it denotes that very index matrix.
"""
import itertools

import z3

from engine.vc import obligation
from engine.values import to_z3, Obj, IntTensorConst, SymSeq
from engine import builtins_ as B

FO = "cirkit/backend/torch/graph/folding.py"


def _patterns(n, k):
    """assignments of n entries to module ids 0..k-1 using every id at least once, first occurrences increasing is NOT
    required (module ids may appear in any order)"""
    for p in itertools.product(range(k), repeat=n):
        if len(set(p)) == k:
            yield p


SHAPES = [(1, 1), (1, 2), (2, 1), (1, 3), (3, 1), (2, 2)]

for _F, _H in SHAPES:
    for _k in (1, 2):
        for _pi, _pat in enumerate(_patterns(_F * _H, _k)):
            if _pi >= 8:
                break

            def _h(vc, _F=_F, _H=_H, _k=_k, _pat=_pat):
                mids = [10 + 3 * j for j in range(_k)]          # concrete, non-contiguous module ids
                nf = {m: vc.int(f"folds_of_{m}", lo=1) for m in mids}
                entries, folds = [], []
                for f in range(_F):
                    row = []
                    for h in range(_H):
                        m = mids[_pat[f * _H + h]]
                        j = vc.int(f"j{f}{h}", lo=0)
                        vc.assume(j < nf[m])
                        row.append((m, j))
                    entries.append(row)
                module = vc.opaque("module")
                e = vc.call(f"{FO}:build_address_book_stacked_entry", module, entries, num_folds=dict(nf))
                ok = isinstance(e, Obj) and e.cls.name == "AddressBookEntry"
                vc.ensure("entry", ok)
                if not ok:
                    return
                vc.ensure("module", e.fields["module"] is module)
                ids = e.fields["in_module_ids"]
                first = list(dict.fromkeys(mids[_pat[i]] for i in range(_F * _H)))
                vc.ensure("module_ids_distinct_in_first_occurrence_order", len(ids) == 1 and list(ids[0]) == first)
                if not (len(ids) == 1 and list(ids[0]) == first):
                    return
                offs, acc = {}, 0
                for m in first:
                    offs[m] = acc
                    acc = acc + nf[m]
                S_total = acc
                idx = e.fields["in_fold_idx"]
                vc.ensure("one_index", len(idx) == 1)
                if len(idx) != 1:
                    return
                ix = idx[0]
                if isinstance(ix, IntTensorConst):
                    rows = [list(B.iterate(vc.I, r)) for r in B.iterate(vc.I, ix.values)]
                    eff = rows
                    vc.ensure("index_shape", len(rows) == _F and all(len(r) == _H for r in rows))
                elif ix == (None,):
                    # x[None]: one output fold reading ALL S stacked folds in order
                    vc.ensure("shortcut_row.shape", z3.And(_F == 1, to_z3(S_total) == _H))
                    eff = [[h for h in range(_H)]]
                elif isinstance(ix, tuple) and len(ix) == 2 and ix[1] is None and isinstance(ix[0], slice):
                    vc.ensure("shortcut_column.shape", z3.And(_H == 1, to_z3(S_total) == _F))
                    eff = [[f] for f in range(_F)]
                else:
                    vc.ensure("index_form_understood", False)
                    return
                if len(eff) != _F or any(len(r) != _H for r in eff):
                    return
                for f in range(_F):
                    for h in range(_H):
                        m, j = entries[f][h]
                        vc.ensure(f"entry{f}{h}.points_at_its_feeding_module_and_fold", to_z3(eff[f][h]) == to_z3(offs[m] + j))
            obligation(f"C01.address_book.stacked_entry.{_F}x{_H}.modules{_k}.pattern{_pi}", "C01", [f"{FO}:build_address_book_stacked_entry"])(_h)


@obligation("C01.address_book.stacked_entry.output", "C01", [f"{FO}:build_address_book_stacked_entry"])
def _(vc):
    """the output entry lists the folds of the output layers in the declared order"""
    mids = [4, 9]
    nf = {m: vc.int(f"folds_of_{m}", lo=1) for m in mids}
    outs = []
    for t, m in enumerate((9, 4, 9)):
        j = vc.int(f"j{t}", lo=0)
        vc.assume(j < nf[m])
        outs.append((m, j))
    e = vc.call(f"{FO}:build_address_book_stacked_entry", None, [outs], num_folds=dict(nf), output=True)
    ids = e.fields["in_module_ids"]
    vc.ensure("module_ids", len(ids) == 1 and list(ids[0]) == [9, 4])
    ix = e.fields["in_fold_idx"][0]
    vals = list(B.iterate(vc.I, ix.values)) if isinstance(ix, IntTensorConst) else None
    vc.ensure("flat_index_tensor", vals is not None and len(vals) == 3)
    if vals is not None and len(vals) == 3:
        offs = {9: 0, 4: nf[9]}
        for t, (m, j) in enumerate(outs):
            vc.ensure(f"output{t}.points_at_its_layer_and_fold", to_z3(vals[t]) == to_z3(offs[m] + j))


# ------------------------------------------------------------------------------------------------ folded graph (C02-F2)
def _mod(vc, name, kind, nfolds=1):
    from engine.values import Opaque
    m = Opaque(name, {"fold_settings": (kind,), "sub_modules": {}, "num_folds": nfolds}, cls=vc.repo.lookup("cirkit/backend/torch/graph/modules.py:AbstractTorchModule"))
    m.kind = kind
    return m


GRAPHS = {
    # name: (frontiers as lists of (module name, kind), incomings, outputs)
    "two_inputs_one_consumer": ([[("a", "X"), ("b", "X")], [("c", "S")]], {"c": ["a", "b"]}, ["c"]),
    "interleaved_kinds": ([[("a", "X"), ("b", "Y"), ("c", "X")], [("d", "S"), ("e", "S"), ("f", "S")]], {"d": ["a"], "e": ["b"], "f": ["c"]}, ["f", "d", "e"]),
    "shared_input_two_outputs": ([[("a", "X"), ("b", "X")], [("p", "P"), ("q", "P")], [("s", "S")]], {"p": ["b", "a"], "q": ["a", "a"], "s": ["p"]}, ["s", "q", "s"]),
}

for _g, (_fr, _inc, _outs) in GRAPHS.items():
    def _h(vc, _fr=_fr, _inc=_inc, _outs=_outs):
        from engine.values import Opaque, Builtin
        mods = {n: _mod(vc, n, k) for fr in _fr for n, k in fr}
        groups = []

        def fold_group(group):
            groups.append(list(group))
            return Opaque("folded%d" % (len(groups) - 1), {"num_folds": len(group)})
        inc = Builtin("incomings", lambda m: [mods[x] for x in _inc.get(m.name, [])])
        res = vc.call(f"{FO}:build_folded_graph", [[mods[n] for n, _ in fr] for fr in _fr], outputs=[mods[o] for o in _outs],
                      incomings_fn=inc, fold_group_fn=Builtin("fold_group", fold_group))
        folded, in_modules, outputs, info = list(vc.I.B.iterate(vc.I, res))
        where = {}
        for gi, g in enumerate(groups):
            for pos, m in enumerate(g):
                vc.ensure(f"{m.name}.in_one_group_only", m.name not in where)
                where[m.name] = (gi, pos)
        vc.ensure("every_module_in_a_group", set(where) == set(mods))
        vc.ensure("groups_are_homogeneous", all(len({m.kind for m in g}) == 1 for g in groups))
        vc.ensure("one_folded_module_per_group_in_order", len(folded) == len(groups) and all(f.name == "folded%d" % i for i, f in enumerate(folded)))
        # members keep the frontier's relative order inside a group
        order = [n for fr in _fr for n, _ in fr]
        vc.ensure("group_keeps_frontier_order", all([order.index(m.name) for m in g] == sorted(order.index(m.name) for m in g) for g in groups))
        in_fold_idx = info.fields["in_fold_idx"]
        for gi, g in enumerate(groups):
            rows = in_fold_idx[gi]
            if not _inc.get(g[0].name):
                vc.ensure(f"group{gi}.inputless", list(rows) == [])
                continue
            ok = len(rows) == len(g)
            vc.ensure(f"group{gi}.one_row_per_member", ok)
            if ok:
                for pos, m in enumerate(g):
                    want = [where[x] for x in _inc[m.name]]
                    vc.ensure(f"{m.name}.inputs_point_at_the_folds_of_its_own_inputs_in_order", [tuple(t) for t in rows[pos]] == want)
                    vc.ensure(f"{m.name}.inputs_compiled_earlier", all(w[0] < gi for w in want))
        vc.ensure("outputs_point_at_the_folds_of_the_declared_outputs_in_order", [tuple(t) for t in info.fields["out_fold_idx"]] == [where[o] for o in _outs])
        want_out = list(dict.fromkeys(where[o][0] for o in _outs))
        vc.ensure("output_modules_deduplicated_in_first_occurrence_order", [f.name for f in outputs] == ["folded%d" % i for i in want_out])
        for gi, g in enumerate(groups):
            want = {where[x][0] for m in g for x in _inc.get(m.name, [])}
            got = {int(f.name[6:]) for f in in_modules.get(folded[gi], [])}
            vc.ensure(f"group{gi}.graph_edges", got == want)
    obligation(f"C02.build_folded_graph.{_g}", "C02", [f"{FO}:build_folded_graph", f"{FO}:group_foldable_modules"])(_h)
