"""C01 / C02 (L3, address book): build_address_book_stacked_entry describes, for a (folded) module, where each of its F x H
inputs is found in the stacked outputs of the modules feeding it.  The consumer (LayerAddressBook.lookup) concatenates the
outputs of `in_module_ids[0]` along the fold dimension and indexes the result with `in_fold_idx[0]`; the shortcuts `(None,)` and
`(slice(None), None)` stand for the index matrices [[0..S-1]] and [[0], .., [S-1]] of the S stacked folds.

Contract (for all fold counts of the feeding modules and all fold indices within them; F x H up to 4 entries, every pattern of
equal / different feeding modules):
    effective_index[f][h], decoded through the prefix sums of the fold counts of in_module_ids[0] (in that order),
    is exactly in_fold_idx[f][h] = (feeding module id, fold within it);
    the listed module ids are the distinct feeding modules in first-occurrence order;
    a shortcut is used only when it denotes that very index matrix.
"""
import itertools

import z3

from engine.vc import obligation
from engine.values import to_z3, Obj, IntTensorConst, SymSeq
from engine import builtins_ as B

FO = "cirkit/backend/torch/graph/folding.py"


def _patterns(n, k):
    """assignments of n entries to module ids 0..k-1 using every id at least once, first occurrences increasing is NOT
    required (module ids may appear in any order)"""
    for p in itertools.product(range(k), repeat=n):
        if len(set(p)) == k:
            yield p


SHAPES = [(1, 1), (1, 2), (2, 1), (1, 3), (3, 1), (2, 2)]

for _F, _H in SHAPES:
    for _k in (1, 2):
        for _pi, _pat in enumerate(_patterns(_F * _H, _k)):
            if _pi >= 8:
                break

            def _h(vc, _F=_F, _H=_H, _k=_k, _pat=_pat):
                mids = [10 + 3 * j for j in range(_k)]          # concrete, non-contiguous module ids
                nf = {m: vc.int(f"folds_of_{m}", lo=1) for m in mids}
                entries, folds = [], []
                for f in range(_F):
                    row = []
                    for h in range(_H):
                        m = mids[_pat[f * _H + h]]
                        j = vc.int(f"j{f}{h}", lo=0)
                        vc.assume(j < nf[m])
                        row.append((m, j))
                    entries.append(row)
                module = vc.opaque("module")
                e = vc.call(f"{FO}:build_address_book_stacked_entry", module, entries, num_folds=dict(nf))
                ok = isinstance(e, Obj) and e.cls.name == "AddressBookEntry"
                vc.ensure("entry", ok)
                if not ok:
                    return
                vc.ensure("module", e.fields["module"] is module)
                ids = e.fields["in_module_ids"]
                first = list(dict.fromkeys(mids[_pat[i]] for i in range(_F * _H)))
                vc.ensure("module_ids_distinct_in_first_occurrence_order", len(ids) == 1 and list(ids[0]) == first)
                if not (len(ids) == 1 and list(ids[0]) == first):
                    return
                offs, acc = {}, 0
                for m in first:
                    offs[m] = acc
                    acc = acc + nf[m]
                S_total = acc
                idx = e.fields["in_fold_idx"]
                vc.ensure("one_index", len(idx) == 1)
                if len(idx) != 1:
                    return
                ix = idx[0]
                if isinstance(ix, IntTensorConst):
                    rows = [list(B.iterate(vc.I, r)) for r in B.iterate(vc.I, ix.values)]
                    eff = rows
                    vc.ensure("index_shape", len(rows) == _F and all(len(r) == _H for r in rows))
                elif ix == (None,):
                    # x[None]: one output fold reading ALL S stacked folds in order
                    vc.ensure("shortcut_row.shape", z3.And(_F == 1, to_z3(S_total) == _H))
                    eff = [[h for h in range(_H)]]
                elif isinstance(ix, tuple) and len(ix) == 2 and ix[1] is None and isinstance(ix[0], slice):
                    vc.ensure("shortcut_column.shape", z3.And(_H == 1, to_z3(S_total) == _F))
                    eff = [[f] for f in range(_F)]
                else:
                    vc.ensure("index_form_understood", False)
                    return
                if len(eff) != _F or any(len(r) != _H for r in eff):
                    return
                for f in range(_F):
                    for h in range(_H):
                        m, j = entries[f][h]
                        vc.ensure(f"entry{f}{h}.points_at_its_feeding_module_and_fold", to_z3(eff[f][h]) == to_z3(offs[m] + j))
            obligation(f"C01.address_book.stacked_entry.{_F}x{_H}.modules{_k}.pattern{_pi}", "C01", [f"{FO}:build_address_book_stacked_entry"])(_h)


@obligation("C01.address_book.stacked_entry.output", "C01", [f"{FO}:build_address_book_stacked_entry"])
def _(vc):
    """the output entry lists the folds of the output layers in the declared order"""
    mids = [4, 9]
    nf = {m: vc.int(f"folds_of_{m}", lo=1) for m in mids}
    outs = []
    for t, m in enumerate((9, 4, 9)):
        j = vc.int(f"j{t}", lo=0)
        vc.assume(j < nf[m])
        outs.append((m, j))
    e = vc.call(f"{FO}:build_address_book_stacked_entry", None, [outs], num_folds=dict(nf), output=True)
    ids = e.fields["in_module_ids"]
    vc.ensure("module_ids", len(ids) == 1 and list(ids[0]) == [9, 4])
    ix = e.fields["in_fold_idx"][0]
    vals = list(B.iterate(vc.I, ix.values)) if isinstance(ix, IntTensorConst) else None
    vc.ensure("flat_index_tensor", vals is not None and len(vals) == 3)
    if vals is not None and len(vals) == 3:
        offs = {9: 0, 4: nf[9]}
        for t, (m, j) in enumerate(outs):
            vc.ensure(f"output{t}.points_at_its_layer_and_fold", to_z3(vals[t]) == to_z3(offs[m] + j))


# ------------------------------------------------------------------------------------------------ folded graph (C02-F2)
def _mod(vc, name, kind, nfolds=1):
    from engine.values import Opaque
    m = Opaque(name, {"fold_settings": (kind,), "sub_modules": {}, "num_folds": nfolds}, cls=vc.repo.lookup("cirkit/backend/torch/graph/modules.py:AbstractTorchModule"))
    m.kind = kind
    return m


GRAPHS = {
    # name: (frontiers as lists of (module name, kind), incomings, outputs)
    "two_inputs_one_consumer": ([[("a", "X"), ("b", "X")], [("c", "S")]], {"c": ["a", "b"]}, ["c"]),
    "interleaved_kinds": ([[("a", "X"), ("b", "Y"), ("c", "X")], [("d", "S"), ("e", "S"), ("f", "S")]], {"d": ["a"], "e": ["b"], "f": ["c"]}, ["f", "d", "e"]),
    "shared_input_two_outputs": ([[("a", "X"), ("b", "X")], [("p", "P"), ("q", "P")], [("s", "S")]], {"p": ["b", "a"], "q": ["a", "a"], "s": ["p"]}, ["s", "q", "s"]),
}

for _g, (_fr, _inc, _outs) in GRAPHS.items():
    def _h(vc, _fr=_fr, _inc=_inc, _outs=_outs):
        from engine.values import Opaque, Builtin
        mods = {n: _mod(vc, n, k) for fr in _fr for n, k in fr}
        groups = []

        def fold_group(group):
            groups.append(list(group))
            return Opaque("folded%d" % (len(groups) - 1), {"num_folds": len(group)})
        inc = Builtin("incomings", lambda m: [mods[x] for x in _inc.get(m.name, [])])
        res = vc.call(f"{FO}:build_folded_graph", [[mods[n] for n, _ in fr] for fr in _fr], outputs=[mods[o] for o in _outs],
                      incomings_fn=inc, fold_group_fn=Builtin("fold_group", fold_group))
        folded, in_modules, outputs, info = list(vc.I.B.iterate(vc.I, res))
        where = {}
        for gi, g in enumerate(groups):
            for pos, m in enumerate(g):
                vc.ensure(f"{m.name}.in_one_group_only", m.name not in where)
                where[m.name] = (gi, pos)
        vc.ensure("every_module_in_a_group", set(where) == set(mods))
        vc.ensure("groups_are_homogeneous", all(len({m.kind for m in g}) == 1 for g in groups))
        vc.ensure("one_folded_module_per_group_in_order", len(folded) == len(groups) and all(f.name == "folded%d" % i for i, f in enumerate(folded)))
        # members keep the frontier's relative order inside a group
        order = [n for fr in _fr for n, _ in fr]
        vc.ensure("group_keeps_frontier_order", all([order.index(m.name) for m in g] == sorted(order.index(m.name) for m in g) for g in groups))
        in_fold_idx = info.fields["in_fold_idx"]
        for gi, g in enumerate(groups):
            rows = in_fold_idx[gi]
            if not _inc.get(g[0].name):
                vc.ensure(f"group{gi}.inputless", list(rows) == [])
                continue
            ok = len(rows) == len(g)
            vc.ensure(f"group{gi}.one_row_per_member", ok)
            if ok:
                for pos, m in enumerate(g):
                    want = [where[x] for x in _inc[m.name]]
                    vc.ensure(f"{m.name}.inputs_point_at_the_folds_of_its_own_inputs_in_order", [tuple(t) for t in rows[pos]] == want)
                    vc.ensure(f"{m.name}.inputs_compiled_earlier", all(w[0] < gi for w in want))
        vc.ensure("outputs_point_at_the_folds_of_the_declared_outputs_in_order", [tuple(t) for t in info.fields["out_fold_idx"]] == [where[o] for o in _outs])
        want_out = list(dict.fromkeys(where[o][0] for o in _outs))
        vc.ensure("output_modules_deduplicated_in_first_occurrence_order", [f.name for f in outputs] == ["folded%d" % i for i in want_out])
        for gi, g in enumerate(groups):
            want = {where[x][0] for m in g for x in _inc.get(m.name, [])}
            got = {int(f.name[6:]) for f in in_modules.get(folded[gi], [])}
            vc.ensure(f"group{gi}.graph_edges", got == want)
    obligation(f"C02.build_folded_graph.{_g}", "C02", [f"{FO}:build_folded_graph", f"{FO}:group_foldable_modules"])(_h)


# ------------------------------------------------------------------------------------------------ parameter graphs: one index PER OPERAND
PSHAPES = [(1, 1), (2, 1), (3, 1), (1, 2), (2, 2)]

for _F, _H in PSHAPES:
    for _k in (1, 2):
        for _pi, _pat in enumerate(_patterns(_F * _H, _k)):
            if _pi >= 6:
                break

            def _h(vc, _F=_F, _H=_H, _k=_k, _pat=_pat):
                """build_address_book_entry: operand h of the F folds of a parameter node is gathered from the concatenation of the outputs of
                in_module_ids[h] (first-occurrence order over the folds) with index in_fold_idx[h]; `()` (no indexing) stands for the identity and
                is allowed only when the F folds read ALL folds of one feeding node in order"""
                mids = [10 + 3 * j for j in range(_k)]
                nf = {m: vc.int(f"folds_of_{m}", lo=1) for m in mids}
                entries = []
                for f in range(_F):
                    row = []
                    for h in range(_H):
                        m = mids[_pat[f * _H + h]]
                        j = vc.int(f"j{f}{h}", lo=0)
                        vc.assume(j < nf[m])
                        row.append((m, j))
                    entries.append(row)
                module = vc.opaque("node")
                e = vc.call(f"{FO}:build_address_book_entry", module, entries, num_folds=dict(nf))
                ok = isinstance(e, Obj) and e.cls.name == "AddressBookEntry"
                vc.ensure("entry", ok)
                if not ok:
                    return
                vc.ensure("module", e.fields["module"] is module)
                ids, idx = e.fields["in_module_ids"], e.fields["in_fold_idx"]
                vc.ensure("one_module_list_and_one_index_per_operand", len(ids) == _H and len(idx) == _H)
                if not (len(ids) == _H and len(idx) == _H):
                    return
                for h in range(_H):
                    first = list(dict.fromkeys(entries[f][h][0] for f in range(_F)))
                    good = list(ids[h]) == first
                    vc.ensure(f"operand{h}.module_ids_distinct_in_first_occurrence_order", good)
                    if not good:
                        continue
                    offs, acc = {}, 0
                    for m in first:
                        offs[m] = acc
                        acc = acc + nf[m]
                    ix = idx[h]
                    if isinstance(ix, IntTensorConst):
                        eff = list(B.iterate(vc.I, ix.values))
                        vc.ensure(f"operand{h}.index_length", len(eff) == _F)
                    elif ix == ():
                        # t[()] is t itself: the node must consume exactly the stacked folds, in order
                        vc.ensure(f"operand{h}.no_indexing_only_for_the_identity", to_z3(acc) == _F)
                        eff = list(range(_F))
                    else:
                        vc.ensure(f"operand{h}.index_form_understood", False)
                        continue
                    if len(eff) != _F:
                        continue
                    for f in range(_F):
                        m, j = entries[f][h]
                        vc.ensure(f"operand{h}.fold{f}.points_at_its_feeding_node_and_fold", to_z3(eff[f]) == to_z3(offs[m] + j))
            obligation(f"C01.address_book.entry.{_F}x{_H}.modules{_k}.pattern{_pi}", "C01", [f"{FO}:build_address_book_entry"])(_h)


# ------------------------------------------------------------------------------------------------ from_index_info (both address books)
CI_ = "cirkit/backend/torch/circuits.py"
PP_ = "cirkit/backend/torch/parameters/parameter.py"

for _which in ("layers", "parameters"):
    for _n in (1, 2, 3):
        def _h(vc, _which=_which, _n=_n):
            """one entry per module of the ordering, in order, built from the module's own fold index information and from the fold counts of
            EXACTLY the modules before it (module id = position in the ordering); modules without inputs get an empty entry; a last entry
            gathers the outputs with the fold counts of all modules"""
            from engine.values import Opaque, Builtin
            mods = [Opaque(f"m{i}", {"num_folds": vc.int(f"F{i}", lo=1)}) for i in range(_n)]
            has_in = [False] + [True] * (_n - 1)
            infold = {i: ([[(i - 1, 0)]] if has_in[i] else []) for i in range(_n)}
            out_fold = [(_n - 1, 0), (0, 0)]
            info = Opaque("fold_idx_info", {"ordering": list(mods), "in_fold_idx": infold, "out_fold_idx": out_fold})
            calls = []

            def builder(kind):
                def f(I, a, k):
                    e = Opaque(f"entry{len(calls)}")
                    calls.append((kind, a[0], a[1], dict(k.get("num_folds")), bool(k.get("output", False)), e))
                    return e
                return f
            vc.I.summaries[f"{FO}:build_address_book_stacked_entry"] = builder("stacked")
            vc.I.summaries[f"{FO}:build_address_book_entry"] = builder("per_operand")
            empties, books = [], []

            def entry_ctor(I, a, k):
                e = Opaque(f"empty{len(empties)}")
                empties.append((a, e))
                return e
            vc.I.summaries["cirkit/backend/torch/graph/modules.py:AddressBookEntry"] = entry_ctor
            cls_q = f"{CI_}:LayerAddressBook" if _which == "layers" else f"{PP_}:ParameterAddressBook"
            vc.I.summaries[cls_q] = lambda I, a, k: books.append(list(a[0])) or Opaque("book")
            from engine.values import ClassVal
            kw = {"incomings_fn": Builtin("incomings_fn", lambda m: [mods[mods.index(m) - 1]] if has_in[mods.index(m)] else [])} if _which == "layers" else {}
            vc.call(f"{cls_q}.from_index_info", info, **kw)
            vc.ensure("one_book_built", len(books) == 1)
            if len(books) != 1:
                return
            ent = books[0]
            vc.ensure("one_entry_per_module_plus_the_output_entry", len(ent) == _n + 1)
            want_kind = "stacked" if _which == "layers" else "per_operand"
            per_module = [c for c in calls if not c[4]]
            vc.ensure("modules_with_inputs_get_a_built_entry_in_order", [c[1] for c in per_module] == [m for i, m in enumerate(mods) if has_in[i]] and all(c[0] == want_kind for c in per_module))
            for c in per_module:
                i = mods.index(c[1])
                vc.ensure(f"m{i}.own_index_information", c[2] is infold[i])
                vc.ensure(f"m{i}.fold_counts_of_exactly_the_earlier_modules", sorted(c[3]) == list(range(i)) and all(vc.must(to_z3(c[3][j]) == to_z3(mods[j].attrs["num_folds"])) for j in range(i)))
            vc.ensure("modules_without_inputs_get_an_empty_entry", len(empties) == 1 and empties[0][0][0] is mods[0] and list(empties[0][0][1]) == [] and list(empties[0][0][2]) == [])
            outs = [c for c in calls if c[4]]
            ok = len(outs) == 1 and outs[0][0] == "stacked" and outs[0][1] is None and list(outs[0][2]) == [out_fold]
            vc.ensure("last_entry_gathers_the_declared_outputs", ok and ent[-1] is outs[0][5])
            if ok:
                vc.ensure("output_entry_sees_every_modules_fold_count", sorted(outs[0][3]) == list(range(_n)))
            order = []
            for i, m in enumerate(mods):
                order.append(empties[0][1] if not has_in[i] else [c[5] for c in per_module if c[1] is m][0])
            vc.ensure("entries_in_ordering_order", len(ent) == _n + 1 and all(a is b for a, b in zip(ent[:_n], order)))
        obligation(f"C01.address_book.from_index_info.{_which}.n{_n}", "C01", [f"{CI_}:LayerAddressBook.from_index_info" if _which == "layers" else f"{PP_}:ParameterAddressBook.from_index_info"])(_h)
