"""C02 / C01 (orderings the folding pass and the unfolded address books are built from), on DAG templates of opaque modules:

  layerwise_topological_ordering   the frontiers partition the nodes; every node comes in a frontier strictly after the frontiers of ALL its
                                   inputs (so a frontier can be evaluated as one folded batch); a cycle is refused with ValueError
  build_unfold_index_info          for an unfolded graph: module i of the ordering has id i and one fold; its inputs are listed as
                                   (id of the input, 0) IN INPUT ORDER; the outputs likewise in declared order; folded modules are refused
"""
import itertools

import z3

from engine.vc import obligation
from engine.values import Opaque, Builtin, Obj, to_z3
from contracts.C02_rewrite import G

UA = "cirkit/utils/algorithms.py"
GF = "cirkit/backend/torch/graph/folding.py"

DAGS = {
    "chain": ({"b": ["a"], "c": ["b"]}, "abc"),
    "diamond": ({"b": ["a"], "c": ["a"], "d": ["c", "b"]}, "abcd"),
    "two_roots_shared_input": ({"c": ["a", "b"], "d": ["b"], "e": ["d", "c", "a"]}, "abcde"),
    "long_and_short_path": ({"b": ["a"], "c": ["b"], "d": ["c", "a"]}, "abcd"),
    "listed_out_of_order": ({"b": ["a"], "c": ["b"], "d": ["c", "a"]}, "dcba"),
    "isolated_nodes": ({}, "abc"),
}

for _name, (_edges, _order) in DAGS.items():
    for _given_out in (False, True):
        def _h(vc, _edges=_edges, _order=_order, _given_out=_given_out):
            g = G(vc, _edges, [], list(_order))
            kw = {"outcomings_fn": Builtin("outcomings_fn", lambda m: g.outs_of(m))} if _given_out else {}
            res = vc.call(f"{UA}:layerwise_topological_ordering", list(g.order), Builtin("incomings_fn", lambda m: list(g.ins[m])), **kw)
            fronts = [list(f) for f in vc.I.B.iterate(vc.I, res)]
            flat = [m for f in fronts for m in f]
            vc.ensure("frontiers_partition_the_nodes", len(flat) == len(g.order) and all(sum(1 for x in flat if x is m) == 1 for m in g.order))
            level = {id(m): i for i, f in enumerate(fronts) for m in f}
            vc.ensure("every_node_strictly_after_all_its_inputs", all(id(m) in level and all(id(i) in level and level[id(i)] < level[id(m)] for i in g.ins[m]) for m in g.order))
            vc.ensure("no_empty_frontier", all(len(f) > 0 for f in fronts))
        obligation(f"C02.layerwise_topological_ordering.{_name}.{'given' if _given_out else 'derived'}_outgoings", "C02", [f"{UA}:layerwise_topological_ordering"])(_h)


@obligation("C02.layerwise_topological_ordering.cycle_refused", "C02", [f"{UA}:layerwise_topological_ordering"])
def _(vc):
    g = G(vc, {"b": ["a", "c"], "c": ["b"]}, [], "abc")
    exc, res = vc.raises(lambda: list(vc.I.B.iterate(vc.I, vc.call(f"{UA}:layerwise_topological_ordering", list(g.order), Builtin("incomings_fn", lambda m: list(g.ins[m]))))))
    vc.ensure("cycle_is_a_ValueError", exc == "ValueError")


for _name, (_edges, _order) in DAGS.items():
    if _name == "listed_out_of_order":
        continue

    def _h(vc, _edges=_edges, _order=_order):
        g = G(vc, _edges, [], list(_order))
        for m in g.order:
            m.attrs["num_folds"] = (lambda: lambda _o: 1)()
        outs = [g.order[-1], g.order[0]]
        info = vc.call(f"{GF}:build_unfold_index_info", list(g.order), outputs=list(outs), incomings_fn=Builtin("incomings_fn", lambda m: list(g.ins[m])))
        ok = isinstance(info, Obj)
        vc.ensure("fold_index_info", ok)
        if not ok:
            return
        ordering, inf, outf = list(info.fields["ordering"]), info.fields["in_fold_idx"], list(info.fields["out_fold_idx"])
        vc.ensure("ordering_kept", len(ordering) == len(g.order) and all(a is b for a, b in zip(ordering, g.order)))
        pos = {id(m): i for i, m in enumerate(g.order)}
        good = sorted(inf.keys()) == list(range(len(g.order)))
        vc.ensure("one_entry_per_module_id", good)
        if good:
            for i, m in enumerate(g.order):
                want = [[(pos[id(x)], 0) for x in g.ins[m]]]
                got = [[tuple(p) for p in row] for row in inf[i]]
                vc.ensure(f"module{i}.inputs_as_id_fold_pairs_in_input_order", got == want)
        vc.ensure("outputs_in_declared_order", [tuple(p) for p in outf] == [(pos[id(o)], 0) for o in outs])
    obligation(f"C01.build_unfold_index_info.{_name}", "C01", [f"{GF}:build_unfold_index_info"])(_h)


@obligation("C01.build_unfold_index_info.refuses_folded_modules", "C01", [f"{GF}:build_unfold_index_info"])
def _(vc):
    g = G(vc, {"b": ["a"]}, [], "ab")
    F = vc.int("F", lo=2)
    g.order[0].attrs["num_folds"] = lambda _o: 1
    g.order[1].attrs["num_folds"] = lambda _o: F
    exc, _ = vc.raises(lambda: vc.call(f"{GF}:build_unfold_index_info", list(g.order), outputs=[g.order[1]], incomings_fn=Builtin("i", lambda m: list(g.ins[m]))))
    vc.ensure("refused_with_ValueError", exc == "ValueError")
