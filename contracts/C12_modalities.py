"""C12 (data-modality templates image_data / tabular_data): the templates add NOTHING to the circuit themselves - they choose a region graph and call
RegionGraph.build_circuit (under contract in C12_build) - so the property reduces to WHAT they pass on:

  sum weights      sum_weight_factory is the factory of the caller's `sum_weight_param`, or of Parameterization(softmax, normal) when it is None
  n-ary sums       mixing_weight_factory over THAT factory when use_mixing_weights, else that factory itself
  inputs           image_data: one factory of the requested kind with the documented domain (256 categories / states, total_count 255) and the
                   caller's parameterisations under `<name>_factory`; tabular_data: the factory of entry i keyed by Scope([i]) (a list) or one factory
  sizes            num_input_units / num_sum_units / num_classes handed to the parameters of the same name; factorize_multivariate on
The region-graph constructors, build_circuit, name_to_input_layer_factory are contract summaries recording their arguments; unknown region graphs /
input layers / missing arguments are refused with ValueError.
"""
import z3

from engine.vc import obligation
from engine.values import Opaque, Builtin, Obj, PartialVal, FuncVal, to_z3
from contracts.lib import *

DM = "cirkit/templates/data_modalities.py"
TU = "cirkit/templates/utils.py"
RGA = "cirkit/templates/region_graph/algorithms"


def _setup(vc):
    rec = {"rg": [], "build": [], "inputs": [], "factories": []}
    scope5 = vc.new(f"{SC}:Scope", [0, 1, 2])
    rg = Opaque("region_graph", {"scope": scope5})
    rg.attrs["build_circuit"] = lambda o: Builtin("build_circuit", lambda *a, **k: rec["build"].append((a, k)) or Opaque("circuit"))

    def rgctor(name):
        return lambda I, a, k: rec["rg"].append((name, a, k)) or rg
    for mod, fn in (("quad", "QuadTree"), ("quad", "QuadGraph"), ("random", "RandomBinaryTree"), ("poon_domingos", "PoonDomingos"), ("chow_liu", "ChowLiuTree")):
        vc.I.summaries[f"{RGA}/{mod}.py:{fn}"] = rgctor(fn)
    vc.I.summaries[f"{TU}:name_to_input_layer_factory"] = lambda I, a, k: rec["inputs"].append((a, k)) or Opaque(f"input_factory{len(rec['inputs'])}")

    def p2f(I, a, k):
        f = Opaque(f"factory{len(rec['factories'])}")
        rec["factories"].append((a[0], f))
        return f
    vc.I.summaries[f"{TU}:parameterization_to_factory"] = p2f
    return rec, rg


def _weights(vc, rec, kw, given, mixing):
    fs = [f for p, f in rec["factories"] if (p is given if given is not None else (isinstance(p, Obj) and p.fields.get("activation") == "softmax"))]
    swf = kw.get("sum_weight_factory")
    vc.ensure("sum_weights_from_the_callers_parameterisation_or_softmax_by_default", any(swf is f for f in fs))
    nary = kw.get("nary_sum_weight_factory")
    if mixing:
        vc.ensure("nary_sums_mix_over_the_same_factory", isinstance(nary, PartialVal) and isinstance(nary.func, FuncVal) and nary.func.info.name == "mixing_weight_factory" and
                  nary.kwargs.get("param_factory") is swf and list(nary.args) == [])
    else:
        vc.ensure("nary_sums_use_the_same_factory", nary is swf)


for _rg in ("quad-tree-2", "quad-tree-4", "quad-graph", "random-binary-tree"):
    for _inp in ("categorical", "binomial", "embedding", "gaussian"):
        for _mixing in (True, False):
            if (_rg, _inp, _mixing) not in {("quad-tree-2", "categorical", True), ("quad-tree-4", "binomial", False), ("quad-graph", "embedding", True),
                                            ("random-binary-tree", "gaussian", False), ("quad-graph", "categorical", False), ("quad-tree-2", "gaussian", True)}:
                continue

            def _h(vc, _rg=_rg, _inp=_inp, _mixing=_mixing):
                rec, rg = _setup(vc)
                C, H, W = vc.int("C", lo=1), vc.int("H", lo=1), vc.int("W", lo=1)
                Ki, Ks, Kc = vc.int("num_input_units", lo=1), vc.int("num_sum_units", lo=1), vc.int("num_classes", lo=1)
                given = vc.new(f"{TU}:Parameterization", activation="softmax", initialization="uniform") if _mixing else None
                pin = vc.new(f"{TU}:Parameterization", activation="softmax", initialization="normal")
                pname = {"categorical": "probs", "binomial": "probs", "embedding": "weight", "gaussian": "stddev"}[_inp]
                out = vc.call(f"{DM}:image_data", (C, H, W), _rg, input_layer=_inp, num_input_units=Ki, sum_product_layer="cp", num_sum_units=Ks, num_classes=Kc,
                              input_params={pname: pin}, sum_weight_param=given, use_mixing_weights=_mixing)
                vc.ensure("one_region_graph_one_circuit", len(rec["rg"]) == 1 and len(rec["build"]) == 1)
                if len(rec["rg"]) != 1 or len(rec["build"]) != 1:
                    return
                name, a, k = rec["rg"][0]
                want = {"quad-tree-2": "QuadTree", "quad-tree-4": "QuadTree", "quad-graph": "QuadGraph", "random-binary-tree": "RandomBinaryTree"}[_rg]
                vc.ensure("requested_region_graph_algorithm", name == want)
                if want == "QuadTree":
                    vc.ensure("patch_splits_as_named", k.get("num_patch_splits") == int(_rg[-1]))
                if want == "RandomBinaryTree":
                    vc.ensure("one_variable_per_pixel_and_channel", len(a) == 1 and vc.must(to_z3(a[0]) == C * H * W))
                else:
                    vc.ensure("over_the_image_shape", len(a) == 1 and vc.eq(tuple(a[0]), (C, H, W)))
                (ia, ik), = rec["inputs"] if len(rec["inputs"]) == 1 else [((), {})]
                vc.ensure("one_input_factory_of_the_requested_kind", len(rec["inputs"]) == 1 and list(ia) == [_inp])
                dom = {"categorical": ("num_categories", 256), "binomial": ("total_count", 255), "embedding": ("num_states", 256), "gaussian": None}[_inp]
                if dom is not None:
                    vc.ensure("documented_pixel_domain", ik.get(dom[0]) == dom[1])
                fin = [f for p, f in rec["factories"] if p is pin]
                vc.ensure("callers_input_parameterisation_passed_under_its_name", len(fin) == 1 and ik.get(pname + "_factory") is fin[0])
                ba, bk = rec["build"][0]
                vc.ensure("built_from_that_input_factory", ba == () and len(rec["inputs"]) == 1 and bk.get("input_factory") is not None and bk.get("sum_product") == "cp")
                _weights(vc, rec, bk, given, _mixing)
                vc.ensure("sizes_to_the_parameters_of_the_same_name", vc.must(z3.And(to_z3(bk.get("num_input_units")) == Ki, to_z3(bk.get("num_sum_units")) == Ks, to_z3(bk.get("num_classes")) == Kc)))
                vc.ensure("multivariate_inputs_factorised", bk.get("factorize_multivariate") is True)
            obligation(f"C12.image_data.{_rg}.{_inp}.{'mixing' if _mixing else 'dense'}", "C12", [f"{DM}:image_data"])(_h)


for _list in (False, True):
    for _mixing in (True, False):
        def _h(vc, _list=_list, _mixing=_mixing):
            rec, rg = _setup(vc)
            Ki, Ks, Kc = vc.int("num_input_units", lo=1), vc.int("num_sum_units", lo=1), vc.int("num_classes", lo=1)
            specs = [{"name": "categorical", "args": {"num_categories": 3}}, {"name": "gaussian", "args": {}}, {"name": "categorical", "args": {"num_categories": 2}}]
            given = None if _mixing else vc.new(f"{TU}:Parameterization", activation="softmax", initialization="uniform")
            vc.call(f"{DM}:tabular_data", "random-binary-tree", num_features=3, input_layers=(specs if _list else specs[0]), num_input_units=Ki,
                    sum_product_layer="tucker", num_sum_units=Ks, num_classes=Kc, sum_weight_param=given, use_mixing_weights=_mixing)
            vc.ensure("one_region_graph_over_the_features_one_circuit", len(rec["rg"]) == 1 and rec["rg"][0][0] == "RandomBinaryTree" and list(rec["rg"][0][1]) == [3] and len(rec["build"]) == 1)
            if len(rec["build"]) != 1:
                return
            ba, bk = rec["build"][0]
            fac = bk.get("input_factory")
            if _list:
                ok = isinstance(fac, dict) and len(fac) == 3 and len(rec["inputs"]) == 3
                vc.ensure("one_factory_per_feature", ok)
                if ok:
                    for i, (ia, ik) in enumerate(rec["inputs"]):
                        vc.ensure(f"feature{i}.factory_of_its_own_specification", list(ia) == [specs[i]["name"]] and ik == specs[i]["args"])
                    keys = list(fac.keys())
                    for i, key in enumerate(keys):
                        vc.ensure(f"feature{i}.keyed_by_its_own_variable", vc.must(scope_arr(key) == z3.Store(z3.K(z3.IntSort(), False), i, True)))
            else:
                vc.ensure("one_factory_for_all_features", len(rec["inputs"]) == 1 and list(rec["inputs"][0][0]) == ["categorical"] and rec["inputs"][0][1] == specs[0]["args"] and fac is not None and not isinstance(fac, dict))
            _weights(vc, rec, bk, given, _mixing)
            vc.ensure("sizes_to_the_parameters_of_the_same_name", bk.get("sum_product") == "tucker" and vc.must(z3.And(to_z3(bk.get("num_input_units")) == Ki, to_z3(bk.get("num_sum_units")) == Ks, to_z3(bk.get("num_classes")) == Kc)))
            vc.ensure("multivariate_inputs_factorised", bk.get("factorize_multivariate") is True)
        obligation(f"C12.tabular_data.{'per_feature' if _list else 'single'}.{'mixing' if _mixing else 'dense'}", "C12", [f"{DM}:tabular_data"])(_h)


@obligation("C12.data_modalities.refusals", "C12", [f"{DM}:image_data", f"{DM}:tabular_data"])
def _(vc):
    rec, rg = _setup(vc)
    common = dict(num_input_units=2, sum_product_layer="cp", num_sum_units=2)
    exc, _ = vc.raises(lambda: vc.call(f"{DM}:image_data", (1, 2, 2), "hexagons", input_layer="categorical", **common))
    vc.ensure("unknown_image_region_graph", exc == "ValueError")
    exc, _ = vc.raises(lambda: vc.call(f"{DM}:image_data", (1, 2, 2), "quad-graph", input_layer="poisson", **common))
    vc.ensure("unknown_input_layer", exc == "ValueError")
    exc, _ = vc.raises(lambda: vc.call(f"{DM}:image_data", (1, 0, 2), "quad-graph", input_layer="categorical", **common))
    vc.ensure("non_positive_image_dimension", exc == "ValueError")
    spec = {"name": "categorical", "args": {"num_categories": 3}}
    exc, _ = vc.raises(lambda: vc.call(f"{DM}:tabular_data", "random-binary-tree", input_layers=spec, **common))
    vc.ensure("random_binary_tree_needs_the_number_of_features", exc == "ValueError")
    exc, _ = vc.raises(lambda: vc.call(f"{DM}:tabular_data", "random-binary-tree", num_features=3, input_layers=[spec, spec], **common))
    vc.ensure("one_input_specification_per_feature", exc == "ValueError")
    exc, _ = vc.raises(lambda: vc.call(f"{DM}:tabular_data", "hexagons", num_features=3, input_layers=spec, **common))
    vc.ensure("unknown_tabular_region_graph", exc == "ValueError")
    vc.ensure("nothing_built_on_refusal", rec["build"] == [])
