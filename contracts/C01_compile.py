"""C01 (L1, wiring of the compiled circuit): TorchCompiler._compile_circuit compiles every layer of the symbolic circuit once, in
topological order, wires each compiled layer to the compiled forms of its inputs IN THE SAME ORDER, lists the compiled output layers
in the declared order, post-processes, initialises the parameters and registers the pair (symbolic, compiled) - on the circuit
templates of functional_lib (variable ids and sizes symbolic); compile_parameter mirrors a parameter graph the same way.
Layer compilation itself is C01_rules; here `compile_layer` is replaced by its contract (a fresh compiled layer per symbolic layer).
"""
import z3

from engine.vc import obligation
from engine.values import to_z3, Obj, Opaque, BoundBuiltin
from contracts.lib import *
from contracts.functional_lib import template, TEMPLATES
from contracts.C10_sharing import _graphs

TC = "cirkit/backend/torch/compiler.py"
BC = "cirkit/backend/compiler.py"
CI = "cirkit/backend/torch/circuits.py"
PP = "cirkit/backend/torch/parameters/parameter.py"


def _compiler(vc):
    comp = Obj(vc.repo.lookup(f"{TC}:TorchCompiler"))
    comp.fields["_compiled_circuits"] = vc.new(f"{BC}:CompiledCircuitsMap")
    comp.fields["_state"] = vc.new(f"{TC}:TorchCompilerState")
    comp.fields["_flags"] = {"fold": False, "optimize": False}
    return comp


for _t in TEMPLATES:
    def _h(vc, _t=_t):
        tpl = template(vc, _t, "categorical")
        comp = _compiler(vc)
        compiled, events, made = {}, [], {}

        def compile_layer(I, a, k):
            sl = a[1]
            events.append(("layer", sl))
            t = vc.opaque("torch_layer")
            compiled[id(sl)] = t
            return t
        vc.I.summaries[f"{TC}:TorchCompiler.compile_layer"] = compile_layer

        def torch_circuit(I, a, k):
            made["scope"], made["kw"] = a[0], k
            cc = Opaque("compiled_circuit")
            cc.attrs["reset_parameters"] = lambda o: BoundBuiltin(lambda: events.append(("reset",)))
            made["cc"] = cc
            return cc
        vc.I.summaries[f"{CI}:TorchCircuit"] = torch_circuit
        vc.I.summaries[f"{TC}:TorchCompiler._post_process_circuit"] = lambda I, a, k: events.append(("post",)) or a[1]
        res = vc.call((comp, "_compile_circuit"), tpl.circuit)
        topo = tpl.topo(vc)
        vc.ensure("each_layer_compiled_once_in_topological_order", [e[1] for e in events if e[0] == "layer"] == topo)
        kw = made.get("kw", {})
        layers = list(kw.get("layers", []))
        vc.ensure("compiled_layers_listed_in_that_order", len(layers) == len(topo) and all(l is compiled[id(s)] for l, s in zip(layers, topo)))
        inl = kw.get("in_layers", {})
        wired = True
        for s in topo:
            got = list(inl.get(compiled[id(s)], []))
            want = [compiled[id(i)] for i in tpl.in_layers.get(s, [])]
            wired = wired and len(got) == len(want) and all(g is w for g, w in zip(got, want))
        vc.ensure("inputs_mirrored_in_order", wired)
        outs = list(kw.get("outputs", []))
        vc.ensure("outputs_in_declared_order", len(outs) == len(tpl.outputs) and all(o is compiled[id(s)] for o, s in zip(outs, tpl.outputs)))
        vc.ensure("scope_and_properties_of_the_symbolic_circuit", made.get("scope") is tpl.circuit.fields["scope"] and kw.get("properties") is not None)
        vc.ensure("post_processed_then_initialised", [e[0] for e in events if e[0] != "layer"] == ["post", "reset"])
        vc.ensure("returns_and_registers_the_compiled_circuit", res is made.get("cc") and
                  vc.call((comp, "get_compiled_circuit"), tpl.circuit) is res and vc.call((comp, "get_symbolic_circuit"), res) is tpl.circuit)
    obligation(f"C01.compile_circuit.{_t}", "C01", [f"{TC}:TorchCompiler._compile_circuit"])(_h)


for _g in ("tensor", "reference", "chain", "binary", "diamond"):
    def _h(vc, _g=_g):
        A, Bn = vc.int("A", lo=1), vc.int("B", lo=1)
        P = dict(_graphs(vc, (A, Bn)))[_g]
        comp = _compiler(vc)
        compiled, order, made = {}, [], {}

        def compile_node(I, a, k):
            n = a[1]
            order.append(n)
            t = vc.opaque("torch_node")
            compiled[id(n)] = t
            return t
        vc.I.summaries[f"{TC}:TorchCompiler._compile_parameter_node"] = compile_node
        vc.I.summaries[f"{PP}:TorchParameter"] = lambda I, a, k: made.update(args=a) or vc.opaque("torch_parameter")
        vc.call((comp, "compile_parameter"), P)
        nodes = list(P.fields["_nodes"])
        ins = P.fields["_in_nodes"]
        a = made.get("args", [[], {}, []])
        vc.ensure("every_node_compiled_once", len(order) == len(nodes) and {id(n) for n in order} == {id(n) for n in nodes})
        pos = {id(n): i for i, n in enumerate(order)}
        vc.ensure("inputs_compiled_before_their_consumers", all(pos[id(i)] < pos[id(n)] for n in nodes for i in ins.get(n, []) if id(i) in pos and id(n) in pos))
        vc.ensure("compiled_nodes_in_that_order", len(a[0]) == len(order) and all(x is compiled[id(n)] for x, n in zip(a[0], order)))
        wired = all(len(a[1].get(compiled[id(n)], [])) == len(ins.get(n, [])) and all(g is compiled[id(i)] for g, i in zip(a[1].get(compiled[id(n)], []), ins.get(n, []))) for n in nodes)
        vc.ensure("operands_mirrored_in_order", wired)
        (out,) = P.fields["_outputs"]
        vc.ensure("output_is_the_compiled_output_node", len(a[2]) == 1 and a[2][0] is compiled[id(out)])
    obligation(f"C01.compile_parameter.{_g}", "C01", [f"{TC}:TorchCompiler.compile_parameter"])(_h)
