"""Whole-function contracts on cirkit/symbolic/functional.py over circuit templates (DAG shape fixed; variable ids, scopes,
unit counts, state counts, Z / observations symbolic): integrate (C03, C09), conjugate (C07), evidence and concatenate
(C06), with the sharing clause of C10 on every result.  Post-conditions are the homomorphism the properties demand:

  integrate(c, Z):  one layer per layer of c, wired identically, outputs in order; an input layer over a variable of Z
                    becomes a constant layer holding the integral of each unit (spec: SUM_x / log SUM_x exp / log-partition);
                    every other layer is a reference copy; scope(result) = scope(c) \\ Z; refusals: Z empty, Z not within
                    the scope, c not smooth or not decomposable.
  conjugate(c):     sums / inputs conjugated parameter-wise, products carried over, same scope.
  evidence(c, obs): an input layer over an observed variable becomes an evidence layer wrapping a reference copy, with the
                    observation of *that* variable; scope(result) = scope(c) \\ obs.
  concatenate(cs):  the layers of the operands in order, outputs concatenated operand by operand.
"""
import z3

from engine.vc import obligation
from engine.values import to_z3, EMPTY, Obj
from contracts.lib import *
from contracts.functional_lib import *
from contracts import specs as S
from contracts.C10_sharing import copy_clauses


def _enum_name(v):
    return getattr(v, "name", None)


def _operation_clauses(vc, out, operator, operands):
    op = out.fields.get("operation")
    ok = isinstance(op, Obj)
    vc.ensure("operation.recorded", ok)
    if ok:
        vc.ensure("operation.operator", _enum_name(op.fields.get("operator")) == operator)
        got = list(vc.I.B.iterate(vc.I, op.fields.get("operands")))
        vc.ensure("operation.operands", len(got) == len(operands) and all(g is o for g, o in zip(got, operands)))
    return op if ok else None


def _integral_clauses(vc, l, r, kind, label):
    """r is the constant layer holding the integral of input layer l"""
    ok = r.cls.name == "ConstantValueLayer"
    vc.ensure(label + ".is_constant_layer", ok)
    if not ok:
        return
    K = vc.attr(l, "num_output_units")
    vc.ensure(label + ".units", vc.attr(r, "num_output_units") == K)
    vc.ensure(label + ".empty_scope", scope_arr(vc.attr(r, "scope")) == EMPTY)
    env = {}
    val = S.den_param(vc, vc.attr(r, "value"), env)
    S.shape_eq(vc, val, [K], label + ".value_shape")
    (k,) = vc.index_consts([K])
    log_space = vc.attr(r, "log_space")
    if kind == "embedding":
        C = vc.attr(l, "num_states")
        W = S.den_param(vc, vc.attr(l, "weight"), env)
        vc.ensure(label + ".linear_space", log_space is False)
        vc.ensure(label + ".sum_over_states", val.elem([k]) == vc.red("sum", [C], lambda x: W.elem([k, x])))
    elif kind == "categorical_logits":
        C = vc.attr(l, "num_categories")
        L = S.den_param(vc, vc.attr(l, "logits"), env)
        vc.ensure(label + ".log_space", log_space is True)
        vc.ensure(label + ".logsumexp_over_categories", val.elem([k]) == vc.red("lse", [C], lambda x: L.elem([k, x])))
    elif kind in ("categorical", "gaussian"):
        vc.ensure(label + ".log_space", log_space is True)
        vc.ensure(label + ".log_of_one", val.elem([k]) == 0)
    elif kind == "gaussian_lp":
        vc.ensure(label + ".log_space", log_space is True)
        vc.ensure(label + ".log_partition", val.elem([k]) == S.den_param(vc, vc.attr(l, "log_partition"), env).elem([k]))


for _t in TEMPLATES:
    for _kind in INPUT_KINDS:
        def _h(vc, _t=_t, _kind=_kind):
            tpl = template(vc, _t, _kind)
            Z = sym_subset(vc, tpl.vars)
            zs = vc.new(f"{SC}:Scope", Z)
            out = vc.call(f"{SF}:integrate", tpl.circuit, zs, registry=make_registry(vc))
            pairs = mirror_clauses(vc, tpl, out)
            if pairs is None:
                return
            for i, (l, r) in enumerate(pairs):
                if S.cls_is(vc, l, "InputLayer"):
                    (v,) = [x for x, il in zip(tpl.vars * 2, [p[0] for p in pairs if S.cls_is(vc, p[0], "InputLayer")]) if il is l][:1] or [None]
                    v = _var_of(vc, tpl, l)
                    inz = vc.must(z3.Select(Z.arr, v))
                    notinz = vc.must(z3.Not(z3.Select(Z.arr, v)))
                    vc.ensure(f"layer{i}.membership_decided_on_path", inz or notinz)
                    if inz:
                        _integral_clauses(vc, l, r, _kind, f"layer{i}.integrated")
                        continue
                    if not notinz:
                        continue
                copy_clauses_labelled(vc, l, r, f"layer{i}.copied")
            vc.ensure("scope_is_difference", scope_of(out) == z3.SetDifference(scope_of(tpl.circuit), Z.arr))
            op = _operation_clauses(vc, out, "INTEGRATION", [tpl.circuit])
            if op is not None:
                md = op.fields.get("metadata")
                vc.ensure("operation.scope_metadata", isinstance(md, dict) and "scope" in md and scope_arr(md["scope"]) == Z.arr)
            no_own_tensors(vc, out, tpl)
        obligation(f"C03.integrate.{_t}.{_kind}", "C03", [f"{SF}:integrate", f"{SCI}:Circuit.from_operation", f"{SCI}:Circuit.__init__"])(_h)


def _var_of(vc, tpl, l):
    """the (single) variable id of input layer l of a template"""
    arr = scope_arr(vc.attr(l, "scope"))
    for v in tpl.vars:
        if vc.must(z3.Select(arr, v)):
            return v
    raise AssertionError("input layer without a template variable")


def copy_clauses_labelled(vc, l, r, label):
    before = len(vc.clauses)
    copy_clauses(vc, l, r)
    vc.clauses[before:] = [(f"{label}.{lab}", f) for lab, f in vc.clauses[before:]]


# ------------------------------------------------------------------------------------------------ integrate: full scope & refusals
for _t in ("prod_sum", "mixture"):
    def _h(vc, _t=_t):
        """scope=None integrates the whole scope: every input layer becomes a constant, the result has empty scope"""
        tpl = template(vc, _t, "embedding")
        out = vc.call(f"{SF}:integrate", tpl.circuit, registry=make_registry(vc))
        pairs = mirror_clauses(vc, tpl, out)
        if pairs is None:
            return
        for i, (l, r) in enumerate(pairs):
            if S.cls_is(vc, l, "InputLayer"):
                _integral_clauses(vc, l, r, "embedding", f"layer{i}.integrated")
        vc.ensure("empty_scope", scope_of(out) == EMPTY)
    obligation(f"C03.integrate.whole_scope.{_t}", "C03", [f"{SF}:integrate"])(_h)


@obligation("C09.integrate.refuses_empty_or_foreign_scope", "C09", [f"{SF}:integrate"])
def _(vc):
    tpl = template(vc, "prod_sum", "categorical")
    Z = vc.set("Z")
    vc.cardinality_abstraction_is_exact("the arbitrary set is only tested for emptiness and inclusion")
    foreign = vc.int("w")
    empty = Z.arr == EMPTY
    has_foreign = z3.And(z3.Select(Z.arr, foreign), *[foreign != v for v in tpl.vars])
    vc.assume(z3.Or(empty, has_foreign))
    exc, _ = vc.raises(lambda: vc.call(f"{SF}:integrate", tpl.circuit, vc.new(f"{SC}:Scope", Z), registry=make_registry(vc)))
    vc.ensure("refuses_with_ValueError", exc == "ValueError")


def _bad_circuit(vc, which):
    K, C = vc.int("K", lo=1), vc.int("C", lo=2)
    (v0, s0), (v1, s1) = scope1(vc, "v0"), scope1(vc, "v1")
    if which == "not_smooth":
        vc.assume(v0 != v1)
        a, b = input_layer(vc, "polynomial", s0, K, C), input_layer(vc, "polynomial", s1, K, C)
        s = vc.new(f"{SL}:SumLayer", K, K, arity=2)
        return vc.new(f"{SCI}:Circuit", [a, b, s], {s: [a, b]}, [s]), [v0, v1]
    # not decomposable: the FIRST and THIRD input of an arity-3 product overlap (non-adjacent)
    v2, s2 = scope1(vc, "v2")
    vc.assume(z3.And(v0 != v1, v1 != v2, v0 == v2))
    a, b, c = (input_layer(vc, "polynomial", s_, K, C) for s_ in (s0, s1, s2))
    h = vc.new(f"{SL}:HadamardLayer", K, arity=3)
    return vc.new(f"{SCI}:Circuit", [a, b, c, h], {h: [a, b, c]}, [h]), [v0, v1]


for _bad in ("not_smooth", "not_decomposable"):
    def _h(vc, _bad=_bad):
        sc, vs = _bad_circuit(vc, _bad)
        exc, _ = vc.raises(lambda: vc.call(f"{SF}:integrate", sc, vc.new(f"{SC}:Scope", [vs[0]]), registry=make_registry(vc)))
        vc.ensure("integrate_refuses_with_StructuralPropertyError", exc == "StructuralPropertyError")
        exc, _ = vc.raises(lambda: vc.call(f"{SF}:differentiate", sc, registry=make_registry(vc)))
        vc.ensure("differentiate_refuses_with_StructuralPropertyError", exc == "StructuralPropertyError")
        exc, _ = vc.raises(lambda: vc.call(f"{SF}:multiply", sc, sc, registry=make_registry(vc)))
        vc.ensure("multiply_refuses_with_StructuralPropertyError", exc == "StructuralPropertyError")
    obligation(f"C09.operators_refuse.{_bad}", "C09", [f"{SF}:integrate", f"{SF}:differentiate", f"{SF}:multiply", f"{SCI}:are_compatible",
                                                       f"{SCI}:Circuit.is_smooth"] + ([f"{SCI}:Circuit.is_decomposable"] if _bad == "not_decomposable" else []))(_h)


@obligation("C09.differentiate.refuses_nonpositive_order", "C09", [f"{SF}:differentiate"])
def _(vc):
    tpl = template(vc, "prod_sum", "polynomial")
    order = vc.int("order")
    vc.assume(order <= 0)
    exc, _ = vc.raises(lambda: vc.call(f"{SF}:differentiate", tpl.circuit, order, registry=make_registry(vc)))
    vc.ensure("refuses_with_ValueError", exc == "ValueError")


# ------------------------------------------------------------------------------------------------ conjugate (C07)
for _t in TEMPLATES:
    for _kind in ("embedding", "categorical", "gaussian_lp", "polynomial"):
        def _h(vc, _t=_t, _kind=_kind):
            from contracts.C07_rules import _frame
            tpl = template(vc, _t, _kind)
            out = vc.call(f"{SF}:conjugate", tpl.circuit, registry=make_registry(vc))
            pairs = mirror_clauses(vc, tpl, out)
            if pairs is None:
                return
            for i, (l, r) in enumerate(pairs):
                before = len(vc.clauses)
                if S.cls_is(vc, l, "ProductLayer"):
                    vc.ensure("product_same_class_and_size", r.cls is l.cls and vc.must(z3.And(
                        to_z3(vc.attr(r, "num_input_units")) == to_z3(vc.attr(l, "num_input_units")), to_z3(vc.attr(r, "arity")) == to_z3(vc.attr(l, "arity")))))
                else:
                    conj = {"embedding": {"weight"}, "polynomial": {"coeff"}}.get(_kind, set()) if S.cls_is(vc, l, "InputLayer") else {"weight"}
                    _frame(vc, r, l, l.cls.name, conj)
                vc.clauses[before:] = [(f"layer{i}.{lab}", f) for lab, f in vc.clauses[before:]]
            vc.ensure("same_scope", scope_of(out) == scope_of(tpl.circuit))
            _operation_clauses(vc, out, "CONJUGATION", [tpl.circuit])
            no_own_tensors(vc, out, tpl)
        obligation(f"C07.conjugate.{_t}.{_kind}", "C07", [f"{SF}:conjugate", f"{SCI}:Circuit.from_operation"])(_h)


# ------------------------------------------------------------------------------------------------ evidence (C06)
for _t in TEMPLATES:
    for _kind in ("categorical", "gaussian", "binomial"):
        def _h(vc, _t=_t, _kind=_kind):
            tpl = template(vc, _t, _kind)
            Z = sym_subset(vc, tpl.vars, "obs_vars")
            vals = {i: vc.real(f"x{i}") for i in range(len(tpl.vars))}
            # the observation dict {var: value} for the variables of Z: one entry per template variable decided to be in Z
            obs = {}
            members = []
            for i, v in enumerate(tpl.vars):
                if vc.path.branch(z3.Select(Z.arr, v)):
                    members.append(i)
            obs = SymKeyDict([(tpl.vars[i], vals[i]) for i in members])
            out = vc.call(f"{SF}:evidence", tpl.circuit, obs, registry=make_registry(vc))
            pairs = mirror_clauses(vc, tpl, out)
            if pairs is None:
                return
            for i, (l, r) in enumerate(pairs):
                if S.cls_is(vc, l, "InputLayer"):
                    v = _var_of(vc, tpl, l)
                    j = [t for t in range(len(tpl.vars)) if tpl.vars[t] is v][0]
                    if j in members:
                        ok = r.cls.name == "EvidenceLayer"
                        vc.ensure(f"layer{i}.is_evidence_layer", ok)
                        if ok:
                            copy_clauses_labelled(vc, l, vc.attr(r, "layer"), f"layer{i}.wrapped")
                            o = S.den_param(vc, vc.attr(r, "observation"), {})
                            S.shape_eq(vc, o, [1], f"layer{i}.observation_shape")
                            vc.ensure(f"layer{i}.observes_the_value_of_its_own_variable", o.elem([0]) == vals[j])
                            vc.ensure(f"layer{i}.units", vc.attr(r, "num_output_units") == vc.attr(l, "num_output_units"))
                        continue
                copy_clauses_labelled(vc, l, r, f"layer{i}.copied")
            vc.ensure("scope_is_difference", scope_of(out) == z3.SetDifference(scope_of(tpl.circuit), Z.arr))
            _operation_clauses(vc, out, "EVIDENCE", [tpl.circuit])
            no_own_tensors(vc, out, tpl)
        obligation(f"C06.evidence.{_t}.{_kind}", "C06", [f"{SF}:evidence", f"{SL}:EvidenceLayer.__init__", f"{SCI}:Circuit.from_operation"])(_h)


@obligation("C09.evidence.refuses_empty_or_foreign_observation", "C09", [f"{SF}:evidence"])
def _(vc):
    tpl = template(vc, "prod_sum", "categorical")
    foreign = vc.int("w")
    vc.assume(z3.And(*[foreign != v for v in tpl.vars]))
    exc, _ = vc.raises(lambda: vc.call(f"{SF}:evidence", tpl.circuit, SymKeyDict([]), registry=make_registry(vc)))
    vc.ensure("empty_observation_refused_with_ValueError", exc == "ValueError")
    exc, _ = vc.raises(lambda: vc.call(f"{SF}:evidence", tpl.circuit, SymKeyDict([(tpl.vars[0], vc.real("x")), (foreign, vc.real("y"))]), registry=make_registry(vc)))
    vc.ensure("foreign_variable_refused_with_ValueError", exc == "ValueError")


# ------------------------------------------------------------------------------------------------ concatenate (C06)
for _t1, _t2 in (("single", "prod_sum"), ("mixture", "mixture"), ("kron3", "single")):
    def _h(vc, _t1=_t1, _t2=_t2):
        a, b = template(vc, _t1, "categorical"), template(vc, _t2, "embedding")
        out = vc.call(f"{SF}:concatenate", [a.circuit, b.circuit], registry=make_registry(vc))
        ta, tb = a.topo(vc), b.topo(vc)
        res = out.fields["_nodes"]
        ok = len(res) == len(ta) + len(tb)
        vc.ensure("layers_of_both_operands", ok)
        if not ok:
            return
        image = {l: r for l, r in zip(ta + tb, res)}
        wired = True
        for tpl in (a, b):
            for l in tpl.layers:
                want = [image[i] for i in tpl.in_layers.get(l, [])]
                got = list(out.fields["_in_nodes"].get(image[l], []))
                wired = wired and len(got) == len(want) and all(g is w for g, w in zip(got, want))
        vc.ensure("inputs_mirrored_in_order", wired)
        outs = list(out.fields["_outputs"])
        want = [image[o] for o in a.outputs] + [image[o] for o in b.outputs]
        vc.ensure("outputs_concatenated_operand_by_operand", len(outs) == len(want) and all(o is w for o, w in zip(outs, want)))
        for i, (l, r) in enumerate(image.items()):
            copy_clauses_labelled(vc, l, r, f"layer{i}.copied")
        vc.ensure("scope_is_union", scope_of(out) == z3.SetUnion(scope_of(a.circuit), scope_of(b.circuit)))
        _operation_clauses(vc, out, "CONCATENATE", [a.circuit, b.circuit])
    obligation(f"C06.concatenate.{_t1}.{_t2}", "C06", [f"{SF}:concatenate", f"{SCI}:Circuit.from_operation"])(_h)
