"""C11 (IntegrateQuery): the mask built from per-sample variable sets, and the per-layer selection between the layer's output and
its integral.

  scopes_to_mask(circuit, scopes)   mask has one row per listed scope (also for EMPTY scopes, wherever they occur in the list) and one
                                    column per variable id 0..max(scope); mask[i, v] is True exactly when v is in scopes[i]; a variable
                                    outside the circuit's scope is refused with ValueError
  _layer_fn(layer, x, mask)         inner layers: the layer's output; input layers: out[f, b, k] = integral[f, 0, k] if
                                    mask[b, variable of fold f] else output[f, b, k]  - per sample row b, per fold f, for all F, B, K,
                                    N (no accidental broadcast when B == F)
  frame                             the query keeps no state between calls: __call__ / _layer_fn write no attribute and update no
                                    container passed to them (a remembered integral would survive a parameter update)
"""
import ast
import itertools

import z3

from engine.vc import obligation
from engine.values import to_z3, Obj, Opaque, BoundBuiltin
from engine.tensor import Tensor
from contracts.C19_frame import _stores, _aliasing_updates

QU = "cirkit/backend/torch/queries.py"
SC = "cirkit/utils/scope.py"
LP = "cirkit/backend/torch/layers/input.py"
LI = "cirkit/backend/torch/layers/inner.py"

SIZES = [(0,), (1,), (2,), (0, 1), (1, 0), (0, 2), (2, 0), (1, 1), (0, 0, 1), (0, 1, 0), (1, 0, 2), (2, 0, 1), (0, 2, 0)]

for _sz in SIZES:
    def _h(vc, _sz=_sz):
        N = 5                                  # the circuit's scope is {0, 1, 3, 4}: ids need not be contiguous
        circ = Opaque("circuit", {"scope": vc.new(f"{SC}:Scope", [0, 1, 3, 4])})
        scopes, members = [], []
        for i, n in enumerate(_sz):
            vs = [vc.int(f"v{i}_{j}", lo=0, hi=4) for j in range(n)]
            for v in vs:
                vc.assume(v != 2)
            if n == 2:
                vc.assume(vs[0] != vs[1])
            members.append(vs)
            scopes.append(vc.new(f"{SC}:Scope", list(vs)))
        mask = vc.call(f"{QU}:IntegrateQuery.scopes_to_mask", circ, scopes)
        ok = isinstance(mask, Tensor) and len(mask.shape) == 2
        vc.ensure("mask_is_a_matrix", ok)
        if not ok:
            return
        vc.ensure("one_row_per_listed_scope", to_z3(mask.shape[0]) == len(_sz))
        vc.ensure("one_column_per_variable_id", to_z3(mask.shape[1]) == N)
        for i in range(len(_sz)):
            for v in range(N):
                want = z3.Or(*[m == v for m in members[i]], False)
                vc.ensure(f"row{i}.col{v}.true_iff_variable_in_scope_{i}", mask.elem([i, v]) == want)
    obligation(f"C11.scopes_to_mask.sizes_{''.join(map(str, _sz))}", "C11", [f"{QU}:IntegrateQuery.scopes_to_mask"])(_h)


@obligation("C11.scopes_to_mask.refuses_foreign_variable", "C11", [f"{QU}:IntegrateQuery.scopes_to_mask"])
def _(vc):
    circ = Opaque("circuit", {"scope": vc.new(f"{SC}:Scope", [0, 1, 3, 4])})
    v = vc.int("v", lo=0, hi=1)
    exc, _ = vc.raises(lambda: vc.call(f"{QU}:IntegrateQuery.scopes_to_mask", circ, [vc.new(f"{SC}:Scope", [v]), vc.new(f"{SC}:Scope", [2])]))
    vc.ensure("refused_with_ValueError", exc == "ValueError")


@obligation("C11.layer_fn.input_layer", "C11", [f"{QU}:IntegrateQuery._layer_fn"])
def _(vc):
    F, Bn, K, N = vc.int("F", lo=1), vc.int("B", lo=1), vc.int("K", lo=1), vc.int("N", lo=1)
    out = vc.tensor("output", (F, Bn, K))
    integ = vc.tensor("integral", (F, 1, K))
    sidx = vc.tensor("scope_idx", (F, 1), "long")
    k0 = z3.Int("k_rng")
    vc.assume(z3.ForAll([k0], z3.And(sidx.elem([k0, 0]) >= 0, sidx.elem([k0, 0]) < N)))
    layer = vc.opaque("layer", attrs={"num_variables": 1, "scope_idx": sidx, "integrate": lambda o: BoundBuiltin(lambda: integ)}, cls=f"{LP}:TorchInputLayer")
    layer.__dict__["__vf_call__"] = lambda x: out
    mask = vc.tensor("mask", (Bn, N), "bool")
    x = vc.tensor("x", (F, Bn, 1))
    y = vc.call(f"{QU}:IntegrateQuery._layer_fn", layer, x, integrate_vars_mask=mask)
    ok = isinstance(y, Tensor) and len(y.shape) == 3
    vc.ensure("rank3", ok)
    if not ok:
        return
    for j, (a, b) in enumerate(zip(y.shape, (F, Bn, K))):
        vc.ensure(f"shape.dim{j}", to_z3(a) == to_z3(b))
    f, b, k = vc.index_consts([F, Bn, K])
    want = z3.If(mask.elem([b, sidx.elem([f, 0])]), integ.elem([f, 0, k]), out.elem([f, b, k]))
    vc.ensure("integral_where_the_samples_own_mask_selects_the_layers_variable", y.elem([f, b, k]) == want)


@obligation("C11.layer_fn.inner_layer", "C11", [f"{QU}:IntegrateQuery._layer_fn"])
def _(vc):
    F, Bn, K = vc.int("F", lo=1), vc.int("B", lo=1), vc.int("K", lo=1)
    out = vc.tensor("output", (F, Bn, K))
    layer = vc.opaque("layer", attrs={}, cls=f"{LI}:TorchInnerLayer")
    layer.__dict__["__vf_call__"] = lambda x: out
    y = vc.call(f"{QU}:IntegrateQuery._layer_fn", layer, vc.tensor("x", (F, 2, Bn, K)), integrate_vars_mask=vc.tensor("mask", (Bn, 3), "bool"))
    vc.ensure("inner_layers_are_evaluated_as_they_are", y is out)


@obligation("C11.frame.query_keeps_no_state", "C11", [])
def _(vc):
    mi = vc.repo.module_by_path(QU)
    ci = mi.classes["IntegrateQuery"]
    for name in ("__call__", "_layer_fn"):
        fi = ci.methods[name]
        vc.repo.touch(fi)
        vc.ensure(f"IntegrateQuery.{name}.writes_no_attribute", not _stores(fi.node))
        vc.ensure(f"IntegrateQuery.{name}.updates_no_container_passed_to_it", not _aliasing_updates(fi.node))
    # the only state of the query object is the circuit
    init = ci.methods["__init__"]
    vc.repo.touch(init)
    attrs = sorted({n.attr for n in ast.walk(init.node) if isinstance(n, ast.Attribute) and isinstance(n.ctx, ast.Store)})
    vc.ensure("only_the_circuit_is_stored", attrs == ["_circuit"])
