"""C16 (region graphs as data structures): on region-graph templates whose variable ids are symbolic and NOT assumed distinct,

  constructor   RegionGraph(...) returning normally implies validity: the children of every partition are regions with pairwise
                disjoint scopes whose union is the partition's scope, the partitions of a region have the region's scope, every
                partition has exactly one parent; an invalid template is refused with ValueError
  flag          is_structured_decomposable is True exactly when any two partitions with the same scope - wherever they hang in the
                graph, also under different region nodes - have the same set of child scopes
  omni flag     is_omni_compatible exactly when every child region of every partition is univariate
Every algorithm returns its graph through this constructor, so validity of every generated graph is its postcondition; the
algorithms themselves (numpy / random / image grids), dump / load (file I/O) and build_circuit are covered by the bounded stand-in.
"""
import itertools

import z3

from engine.vc import obligation
from engine.values import to_z3, EMPTY
from contracts.lib import *

RG = "cirkit/templates/region_graph/graph.py"


def _arr(vs):
    a = EMPTY
    for v in vs:
        a = z3.Store(a, to_z3(v), True)
    return a


class RGB:
    def __init__(self, vc):
        self.vc, self.nodes, self.ins, self.vars = vc, [], {}, {}

    def region(self, vs):
        n = self.vc.new(f"{RG}:RegionNode", list(vs))
        self.nodes.append(n)
        self.vars[n] = list(vs)
        return n

    def partition(self, vs, parent, children):
        n = self.vc.new(f"{RG}:PartitionNode", list(vs))
        self.nodes.append(n)
        self.vars[n] = list(vs)
        self.ins[n] = list(children)
        self.ins.setdefault(parent, []).append(n)
        return n

    def build(self, outputs):
        return self.vc.new(f"{RG}:RegionGraph", list(self.nodes), {k: list(v) for k, v in self.ins.items()}, list(outputs))

    def partitions(self):
        return [n for n in self.nodes if n.cls.name == "PartitionNode"]

    def scope(self, n):
        return _arr(self.vars[n])

    def valid(self):
        cl = []
        for p in self.partitions():
            ch = self.ins[p]
            u = EMPTY
            for c in ch:
                u = z3.SetUnion(u, self.scope(c))
            cl.append(u == self.scope(p))
            for a, b in itertools.combinations(ch, 2):
                cl.append(z3.SetIntersect(self.scope(a), self.scope(b)) == EMPTY)
        for r, ps in self.ins.items():
            if r.cls.name == "RegionNode":
                for p in ps:
                    cl.append(self.scope(p) == self.scope(r))
        return z3.And(*cl, True)

    def sd(self):
        cl = []
        for p, q in itertools.combinations(self.partitions(), 2):
            sp, sq = [self.scope(c) for c in self.ins[p]], [self.scope(c) for c in self.ins[q]]
            same = z3.And(*[z3.Or(*[x == y for y in sq]) for x in sp], *[z3.Or(*[x == y for x in sp]) for y in sq])
            cl.append(z3.Implies(self.scope(p) == self.scope(q), same))
        return z3.And(*cl, True)


def _tree(vc):
    """root {a,b,c} <- P <- ({a,b} <- Q <- ({a},{b}) , {c})   with the partition scopes given independently (x, y ids)"""
    a, b, c, x0, x1, x2, y0, y1 = (vc.int(n, lo=0) for n in ("a", "b", "c", "x0", "x1", "x2", "y0", "y1"))
    g = RGB(vc)
    ra, rb, rc = g.region([a]), g.region([b]), g.region([c])
    rab = g.region([y0, y1])
    root = g.region([x0, x1, x2])
    g.partition([y0, y1], rab, [ra, rb])
    g.partition([x0, x1, x2], root, [rab, rc])
    return g, root


@obligation("C16.RegionGraph.constructor.tree", "C16", [f"{RG}:RegionGraph.__init__", f"{RG}:RegionGraph._check_structure", f"{RG}:RegionGraphNode.__init__"])
def _(vc):
    g, root = _tree(vc)
    exc, rg = vc.raises(lambda: g.build([root]))
    if exc is None:
        vc.ensure("accepted_graphs_are_valid", g.valid())
        vc.ensure("scope_is_the_roots_scope", scope_arr(vc.attr(rg, "scope")) == g.scope(root))
    else:
        vc.ensure("refusal_is_a_ValueError", exc == "ValueError")
        pass  # (whether a valid graph may be refused is not part of the property)


def _two_roots(vc, shared_parent):
    """two partitions over 3 variables: children ({p0},{p1,p2}) and ({q0,q1},{q2}); under ONE root region or under TWO distinct
    root regions over the same scope (two repetitions)"""
    p = [vc.int(f"p{i}", lo=0) for i in range(3)]
    q = [vc.int(f"q{i}", lo=0) for i in range(3)]
    g = RGB(vc)
    r1 = g.region(p)
    r2 = r1 if shared_parent else g.region(q)
    g.partition(p, r1, [g.region([p[0]]), g.region([p[1], p[2]])])
    g.partition(q if not shared_parent else p, r2, [g.region([q[0], q[1]]), g.region([q[2]])])
    return g, [r1] if shared_parent else [r1, r2]


for _shared in (True, False):
    def _h(vc, _shared=_shared):
        g, roots = _two_roots(vc, _shared)
        exc, rg = vc.raises(lambda: g.build(roots))
        if exc is not None:
            vc.ensure("refusal_is_a_ValueError", exc == "ValueError")
            pass  # (whether a valid graph may be refused is not part of the property)
            return
        vc.ensure("accepted_graphs_are_valid", g.valid())
        flag = to_z3(vc.I.truth(vc.attr(rg, "is_structured_decomposable")))
        vc.ensure("flag_iff_equal_scopes_are_split_alike", flag == g.sd())
        omni = to_z3(vc.I.truth(vc.attr(rg, "is_omni_compatible")))
        # the children listed with two ids are univariate exactly when the two ids coincide
        p, q = g.vars[g.partitions()[0]], g.vars[g.ins[g.partitions()[1]][0]]
        kids = [g.vars[c] for pt in g.partitions() for c in g.ins[pt]]
        vc.ensure("omni_compatible_iff_every_child_region_is_univariate", omni == z3.And(*[z3.And(*[v == k[0] for v in k[1:]]) for k in kids], True))
    obligation(f"C16.RegionGraph.is_structured_decomposable.{'one_region' if _shared else 'two_regions_same_scope'}", "C16",
               [f"{RG}:RegionGraph.is_structured_decomposable", f"{RG}:RegionGraph._check_structure"])(_h)


@obligation("C16.RegionGraph.constructor.refuses_partition_with_two_parents", "C16", [f"{RG}:RegionGraph._check_structure"])
def _(vc):
    a, b = vc.int("a", lo=0), vc.int("b", lo=0)
    vc.assume(a != b)
    g = RGB(vc)
    r1, r2 = g.region([a, b]), g.region([a, b])
    p = g.partition([a, b], r1, [g.region([a]), g.region([b])])
    g.ins[r2] = [p]
    exc, _ = vc.raises(lambda: g.build([r1, r2]))
    vc.ensure("refused_with_ValueError", exc == "ValueError")


@obligation("C16.RegionGraphNode.refuses_empty_scope", "C16", [f"{RG}:RegionGraphNode.__init__"])
def _(vc):
    exc, _ = vc.raises(lambda: vc.new(f"{RG}:RegionNode", []))
    vc.ensure("refused_with_ValueError", exc == "ValueError")
