"""C16 (region-graph algorithms without numpy in their control flow): FullyFactorized and LinearTree (fixed ordering).  Both return their graph through
the RegionGraph constructor (validity = its postcondition, C16_regiongraph); here: the graph is the one the documentation describes, for n = 1..4
variables, 1..2 repetitions, and (LinearTree) every ordering that the path explores (ids symbolic for n <= 3).

  FullyFactorized(n, reps)   scope {0..n-1}; n = 1: the single root region; else `reps` partitions of the root, each into the n univariate regions
                             {0}, .., {n-1}; structured-decomposable and omni-compatible
  LinearTree(n, reps, ordering)   scope {0..n-1}; each repetition is a chain: the root is split into {ordering[0]} and the rest, the rest into
                             {ordering[1]} and its rest, ...; structured-decomposable (repetitions share the ordering); a non-permutation is refused
Non-positive arguments are refused with ValueError.  randomize=True (numpy RandomState) is covered by the bounded stand-in only.
"""
import itertools

import z3

from engine.vc import obligation
from engine.values import to_z3, Obj, EMPTY
from contracts.lib import *

FA = "cirkit/templates/region_graph/algorithms/factorized.py"
LA = "cirkit/templates/region_graph/algorithms/linear.py"
RG = "cirkit/templates/region_graph/graph.py"


def _set(vs):
    a = EMPTY
    for v in vs:
        a = z3.Store(a, to_z3(v), True)
    return a


def _parts(vc, rg):
    nodes = list(rg.fields["_nodes"])
    ins = rg.fields["_in_nodes"]
    return nodes, ins, list(rg.fields["_outputs"])


def _sc(vc, n):
    return scope_arr(vc.attr(n, "scope"))


for _n in (1, 2, 3, 4):
    for _reps in (1, 2):
        def _h(vc, _n=_n, _reps=_reps):
            rg = vc.call(f"{FA}:FullyFactorized", _n, num_repetitions=_reps)
            nodes, ins, outs = _parts(vc, rg)
            full = _set(range(_n))
            vc.ensure("one_root_over_all_variables", len(outs) == 1 and vc.must(_sc(vc, outs[0]) == full))
            vc.ensure("scope_is_0_to_n_minus_1", vc.must(scope_arr(vc.attr(rg, "scope")) == full))
            if len(outs) != 1:
                return
            parts = list(ins.get(outs[0], []))
            vc.ensure("one_partition_per_repetition", len(parts) == (0 if _n == 1 else _reps))
            for r, p in enumerate(parts):
                kids = list(ins.get(p, []))
                vc.ensure(f"repetition{r}.splits_into_the_univariate_regions_in_order", len(kids) == _n and all(vc.must(_sc(vc, k) == _set([v])) for v, k in enumerate(kids)))
            vc.ensure("structured_decomposable", vc.I.truth(vc.attr(rg, "is_structured_decomposable")) is True or vc.must(to_z3(vc.I.truth(vc.attr(rg, "is_structured_decomposable")))))
            vc.ensure("omni_compatible", vc.I.truth(vc.attr(rg, "is_omni_compatible")) is True or vc.must(to_z3(vc.I.truth(vc.attr(rg, "is_omni_compatible")))))
        obligation(f"C16.algorithm.FullyFactorized.n{_n}.reps{_reps}", "C16", [f"{FA}:FullyFactorized", f"{RG}:RegionGraph.__init__"])(_h)


for _n in (1, 2, 3, 4):
    for _reps in (1, 2):
        for _given in (False, True):
            if _given and _n in (1, 4) and _reps == 2:
                continue

            def _h(vc, _n=_n, _reps=_reps, _given=_given):
                if _given:
                    if _n <= 3:
                        order = [vc.int(f"o{j}") for j in range(_n)]
                    else:
                        order = [2, 0, 3, 1]
                else:
                    order = None
                exc, rg = vc.raises(lambda: vc.call(f"{LA}:LinearTree", _n, num_repetitions=_reps, ordering=(list(order) if order is not None else None)))
                if _given and _n <= 3:
                    perm = z3.And(*[z3.And(o >= 0, o < _n) for o in order], *[a != b for a, b in itertools.combinations(order, 2)], True)
                    if exc is not None:
                        vc.ensure("only_non_permutations_are_refused", z3.And(exc == "ValueError", z3.Not(perm)))
                        return
                    vc.ensure("accepted_orderings_are_permutations", perm)
                else:
                    vc.ensure("accepted", exc is None)
                    if exc is not None:
                        return
                eff = order if order is not None else list(range(_n))
                nodes, ins, outs = _parts(vc, rg)
                full = _set(range(_n))
                vc.ensure("one_root_over_all_variables", len(outs) == 1 and vc.must(_sc(vc, outs[0]) == full))
                if len(outs) != 1:
                    return
                parts = list(ins.get(outs[0], []))
                vc.ensure("one_chain_per_repetition", len(parts) == (0 if _n == 1 else _reps))
                for r, p in enumerate(parts):
                    node_scope, cur = full, p
                    for step in range(_n - 1):
                        kids = list(ins.get(cur, []))
                        ok = len(kids) == 2
                        vc.ensure(f"repetition{r}.step{step}.binary_split", ok)
                        if not ok:
                            break
                        rest = z3.SetDifference(node_scope, _set([eff[step]]))
                        vc.ensure(f"repetition{r}.step{step}.peels_off_the_next_variable_of_the_ordering", vc.must(z3.And(_sc(vc, kids[0]) == _set([eff[step]]), _sc(vc, kids[1]) == rest)))
                        node_scope = rest
                        nxt = list(ins.get(kids[1], []))
                        if step < _n - 2:
                            vc.ensure(f"repetition{r}.step{step}.rest_is_split_again", len(nxt) == 1)
                            if len(nxt) != 1:
                                break
                            cur = nxt[0]
                        else:
                            vc.ensure(f"repetition{r}.last_rest_is_a_leaf", len(nxt) == 0)
                sd = vc.I.truth(vc.attr(rg, "is_structured_decomposable"))
                vc.ensure("structured_decomposable", sd is True or vc.must(to_z3(sd)))
            obligation(f"C16.algorithm.LinearTree.n{_n}.reps{_reps}.{'given_ordering' if _given else 'default_ordering'}", "C16", [f"{LA}:LinearTree", f"{RG}:RegionGraph.__init__"])(_h)


@obligation("C16.algorithm.refusals", "C16", [f"{FA}:FullyFactorized", f"{LA}:LinearTree"])
def _(vc):
    n = vc.int("n")
    vc.assume(n <= 0)
    for q, kw in ((f"{FA}:FullyFactorized", {}), (f"{LA}:LinearTree", {})):
        exc, _ = vc.raises(lambda: vc.call(q, n, **kw))
        vc.ensure(q.split(":")[1] + ".non_positive_number_of_variables", exc == "ValueError")
        exc, _ = vc.raises(lambda: vc.call(q, 3, num_repetitions=n))
        vc.ensure(q.split(":")[1] + ".non_positive_number_of_repetitions", exc == "ValueError")
