"""C19 / C10 / C17 (frame of re-initialisation): the compiler calls reset_parameters() on every circuit it compiles, also on a
derived circuit that refers to the tensors of its operand.  Hence

  TorchCircuit.reset_parameters     re-initialises exactly the parameter graphs of ITS OWN layers (each once): never a module reached
                                    through a wrapped layer (evidence), a sub-module, a pointer or the torch module tree
  TorchParameter.reset_parameters   re-initialises exactly the nodes of ITS OWN graph (each once)
  TorchPointerParameter             inherits the no-op of TorchParameterNode: the tensor it points to is NOT re-initialised

so compiling (or resetting) a derived circuit leaves the tensors of every other circuit - in particular a state dict just loaded into
the operand - untouched.  Every object reachable from the circuit records the calls it receives; the obligation compares the record
with the list above.  (TorchTensorParameter.reset_parameters itself: C19.storage.learnable_tensors and C17.)
"""
import itertools

from engine.vc import obligation
from engine.values import Opaque, Builtin, ClassVal

CI = "cirkit/backend/torch/circuits.py"
PP = "cirkit/backend/torch/parameters/parameter.py"
PN = "cirkit/backend/torch/parameters/nodes.py"


def _recorder(calls, name, extra=None):
    o = Opaque(name)
    o.attrs["reset_parameters"] = lambda _o: Builtin("reset_parameters", lambda: calls.append(name))
    for k, v in (extra or {}).items():
        o.attrs[k] = (lambda v: lambda _o: v)(v)
    return o


def _layer(calls, i, kind):
    own = {f"p{j}": _recorder(calls, f"layer{i}.params.p{j}") for j in range(2 if kind != "evidence" else 0)}
    sub = {}
    if kind in ("evidence", "wrapping"):
        tensor = _recorder(calls, f"layer{i}.wrapped.pointer.target_tensor_of_the_operand")
        ptr = _recorder(calls, f"layer{i}.wrapped.pointer", {"_parameter": tensor})
        wp = _recorder(calls, f"layer{i}.wrapped.param_graph", {"nodes": [ptr]})
        wrapped = _recorder(calls, f"layer{i}.wrapped_layer", {"params": {"logits": wp}, "sub_modules": {}})
        mods = [wrapped, wp, ptr, tensor]
        for m in mods:
            m.attrs["modules"] = (lambda mods: lambda _o: Builtin("modules", lambda: list(mods)))(mods)
            m.attrs["children"] = m.attrs["modules"]
        sub = {"layer": wrapped}
    l = Opaque(f"layer{i}")
    l.attrs.update(params=lambda _o: own, sub_modules=lambda _o: sub)
    allm = [l] + list(own.values()) + [m for w in sub.values() for m in w.attrs["modules"](w).fn()]
    l.attrs["modules"] = lambda _o: Builtin("modules", lambda: list(allm))
    l.attrs["children"] = lambda _o: Builtin("children", lambda: list(own.values()) + list(sub.values()))
    return l, [f"layer{i}.params.p{j}" for j in range(len(own))]


for _kinds in [k for n in (1, 2, 3) for k in itertools.product(("plain", "evidence", "wrapping"), repeat=n)]:
    if len(_kinds) == 3 and _kinds not in (("plain", "evidence", "plain"), ("evidence", "evidence", "wrapping"), ("wrapping", "plain", "evidence")):
        continue

    def _h(vc, _kinds=_kinds):
        calls, want, layers = [], [], []
        for i, k in enumerate(_kinds):
            l, w = _layer(calls, i, k)
            layers.append(l)
            want += w
        circuit = Opaque("circuit", cls=vc.repo.lookup(f"{CI}:TorchCircuit"))
        circuit.attrs.update(layers=lambda _o: list(layers), nodes=lambda _o: list(layers), _nodes=lambda _o: list(layers))
        circuit.attrs["modules"] = lambda _o: Builtin("modules", lambda: [m for l in layers for m in l.attrs["modules"](l).fn()])
        circuit.attrs["children"] = lambda _o: Builtin("children", lambda: list(layers))
        vc.call(f"{CI}:TorchCircuit.reset_parameters", circuit)
        vc.ensure("every_own_parameter_graph_reset_exactly_once", sorted(c for c in calls if c in want) == sorted(want))
        vc.ensure("nothing_else_is_reset", [c for c in calls if c not in want] == [])
    obligation("C19.frame.reset_parameters.TorchCircuit." + "_".join(_kinds), "C19", [f"{CI}:TorchCircuit.reset_parameters"])(_h)


for _n in (0, 1, 3):
    def _h(vc, _n=_n):
        calls = []
        tensor = _recorder(calls, "target_tensor_of_the_operand")
        nodes = [_recorder(calls, f"node{j}", {"_parameter": tensor} if j == 0 else None) for j in range(_n)]
        p = Opaque("parameter", cls=vc.repo.lookup(f"{PP}:TorchParameter"))
        p.attrs.update(nodes=lambda _o: list(nodes), _nodes=lambda _o: list(nodes))
        p.attrs["modules"] = lambda _o: Builtin("modules", lambda: [p] + nodes + [tensor])
        p.attrs["children"] = lambda _o: Builtin("children", lambda: list(nodes))
        vc.call(f"{PP}:TorchParameter.reset_parameters", p)
        vc.ensure("exactly_the_own_nodes_once_each", sorted(calls) == sorted(f"node{j}" for j in range(_n)))
    obligation(f"C19.frame.reset_parameters.TorchParameter.nodes{_n}", "C19", [f"{PP}:TorchParameter.reset_parameters"])(_h)


@obligation("C19.frame.reset_parameters.TorchPointerParameter", "C19", [f"{PN}:TorchParameterNode.reset_parameters"])
def _(vc):
    calls = []
    tensor = _recorder(calls, "target_tensor_of_the_operand")
    ci = vc.repo.lookup(f"{PN}:TorchPointerParameter")
    m = vc.repo.find_method(ci, "reset_parameters")
    vc.ensure("pointer_uses_the_no_op_of_the_base_class", m is not None and m.qualname.endswith("TorchParameterNode.reset_parameters"))
    ptr = Opaque("pointer", cls=ci)
    ptr.attrs["_parameter"] = lambda _o: tensor
    ptr.attrs["deref"] = lambda _o: Builtin("deref", lambda: tensor)
    vc.call(m.qualname if ":" in m.qualname else f"{PN}:{m.qualname}", ptr)
    vc.ensure("the_tensor_pointed_to_is_not_reset", calls == [])
