"""C08: the structural predicates of cirkit/symbolic/circuit.py agree with their set-level definitions on circuit
templates whose variable ids are SYMBOLIC and NOT assumed distinct (so that each template ranges over smooth and non-smooth,
decomposable and non-decomposable, structured and unstructured instances - the solver explores every equality pattern of the
ids), for every unit count and every numbering of the variables:

  is_smooth                     <=>  every sum's inputs have the scope of the sum
  is_decomposable               <=>  the inputs of every product are PAIRWISE disjoint (all pairs, not only adjacent ones)
  is_structured_decomposable    <=>  smooth, decomposable and any two products over the same scope split it into the same set of
                                     sub-scopes (products with fewer than two non-empty sub-scopes are not splits)
  are_compatible(a, b)          <=>  both smooth and decomposable and products of a and b over the same scope split it alike,
                                     every split scope of one being split in the other; symmetric; independent of the order in
                                     which a product lists its inputs
The definitions are written here over z3 sets computed from the input layers' ids by the harness itself (not through
Circuit.layer_scope).
"""
import itertools

import z3

from engine.vc import obligation
from engine.values import to_z3, EMPTY
from contracts.lib import *
from contracts.functional_lib import input_layer


def _set(*vs):
    a = EMPTY
    for v in vs:
        a = z3.Store(a, to_z3(v), True)
    return a


def _disjoint(a, b):
    return z3.SetIntersect(a, b) == EMPTY


class Build:
    """a circuit under construction together with the harness's own scope of every layer"""

    def __init__(self, vc):
        self.vc, self.layers, self.ins, self.scope = vc, [], {}, {}
        self.K = vc.int("K", lo=1)
        self.C = vc.int("C", lo=2)

    def inp(self, v):
        l = input_layer(self.vc, "categorical", self.vc.new(f"{SC}:Scope", [v]), self.K, self.C)
        self.layers.append(l)
        self.scope[l] = _set(v)
        return l

    def prod(self, *ins):
        l = self.vc.new(f"{SL}:HadamardLayer", self.K, arity=len(ins))
        return self._inner(l, ins)

    def sum(self, *ins):
        l = self.vc.new(f"{SL}:SumLayer", self.K, self.K, arity=len(ins))
        return self._inner(l, ins)

    def _inner(self, l, ins):
        self.layers.append(l)
        self.ins[l] = list(ins)
        s = EMPTY
        for i in ins:
            s = z3.SetUnion(s, self.scope[i])
        self.scope[l] = s
        return l

    def circuit(self, *outputs):
        return self.vc.new(f"{SCI}:Circuit", list(self.layers), {k: list(v) for k, v in self.ins.items()}, list(outputs))

    # ---- definitions
    def products(self):
        return [l for l in self.layers if l.cls.name == "HadamardLayer"]

    def sums(self):
        return [l for l in self.layers if l.cls.name == "SumLayer"]

    def smooth(self):
        return z3.And(*[self.scope[i] == self.scope[s] for s in self.sums() for i in self.ins[s]], True)

    def decomposable(self):
        return z3.And(*[_disjoint(self.scope[a], self.scope[b]) for p in self.products() for a, b in itertools.combinations(self.ins[p], 2)], True)


def _same_split(b1, p, b2, q):
    """products p (of b1) and q (of b2) split their scope into the same set of non-empty sub-scopes"""
    sp, sq = [b1.scope[i] for i in b1.ins[p]], [b2.scope[i] for i in b2.ins[q]]
    return z3.And(*[z3.Or(*[x == y for y in sq]) for x in sp], *[z3.Or(*[x == y for x in sp]) for y in sq])


def _is_split(b, p):
    """p has at least two distinct non-empty sub-scopes (inputs are univariate or products here: never empty)"""
    sp = [b.scope[i] for i in b.ins[p]]
    return z3.Or(*[x != y for x, y in itertools.combinations(sp, 2)], False)


def _sound_def(b1, b2):
    """what a positive answer of are_compatible must imply (property statement): all products of both circuits over the same
    scope split it into the same set of sub-scopes"""
    cl = []
    allp = [(b1, p) for p in b1.products()] + [(b2, p) for p in b2.products()]
    for (x, p), (y, q) in itertools.combinations(allp, 2):
        cl.append(z3.Implies(z3.And(_is_split(x, p), _is_split(y, q), x.scope[p] == y.scope[q]), _same_split(x, p, y, q)))
    return z3.And(*cl, True)


def _sd_def(b):
    cl = []
    for p, q in itertools.combinations(b.products(), 2):
        cl.append(z3.Implies(z3.And(_is_split(b, p), _is_split(b, q), b.scope[p] == b.scope[q]), _same_split(b, p, b, q)))
    return z3.And(*cl)


def _flag(vc, sc, name):
    return to_z3(vc.I.truth(vc.attr(sc, name)))


@obligation("C08.is_decomposable.arity3", "C08", [f"{SCI}:Circuit.is_decomposable", f"{SCI}:Circuit.__init__"])
def _(vc):
    b = Build(vc)
    vs = [vc.int(f"v{i}", lo=0) for i in range(3)]
    p = b.prod(*[b.inp(v) for v in vs])
    sc = b.circuit(p)
    vc.ensure("decomposable_iff_all_pairs_disjoint", _flag(vc, sc, "is_decomposable") == b.decomposable())
    vc.ensure("smooth_without_sums", _flag(vc, sc, "is_smooth") == z3.BoolVal(True))


@obligation("C08.is_decomposable.arity4", "C08", [f"{SCI}:Circuit.is_decomposable"])
def _(vc):
    b = Build(vc)
    vs = [vc.int(f"v{i}", lo=0) for i in range(4)]
    p = b.prod(*[b.inp(v) for v in vs])
    sc = b.circuit(p)
    vc.ensure("decomposable_iff_all_pairs_disjoint", _flag(vc, sc, "is_decomposable") == b.decomposable())


@obligation("C08.is_smooth.mixture", "C08", [f"{SCI}:Circuit.is_smooth"])
def _(vc):
    b = Build(vc)
    vs = [vc.int(f"v{i}", lo=0) for i in range(3)]
    s = b.sum(*[b.inp(v) for v in vs])
    sc = b.circuit(s)
    vc.ensure("smooth_iff_inputs_have_the_sums_scope", _flag(vc, sc, "is_smooth") == b.smooth())


@obligation("C08.is_smooth.nested", "C08", [f"{SCI}:Circuit.is_smooth", f"{SCI}:Circuit.is_decomposable"])
def _(vc):
    """sum over two products: smoothness compares the products' scopes, decomposability the factors"""
    b = Build(vc)
    v = [vc.int(f"v{i}", lo=0) for i in range(4)]
    p1, p2 = b.prod(b.inp(v[0]), b.inp(v[1])), b.prod(b.inp(v[2]), b.inp(v[3]))
    s = b.sum(p1, p2)
    sc = b.circuit(s)
    vc.ensure("smooth_def", _flag(vc, sc, "is_smooth") == b.smooth())
    vc.ensure("decomposable_def", _flag(vc, sc, "is_decomposable") == b.decomposable())
    # soundness is what the property states ("never reported structured-decomposable unless ...")
    vc.ensure("reported_structured_decomposable_only_if_products_split_alike", z3.Implies(_flag(vc, sc, "is_structured_decomposable"), _sd_def(b)))


for _first in (0, 1):
    def _h(vc, _first=_first):
        """a product over a (possibly non-smooth) sum: root = (in(a) + in(b) x in(c)) x in(d), the sum's inputs in either order;
        decomposability looks at the scope of the sum = the UNION of its inputs' scopes"""
        b = Build(vc)
        a, bb, c, d = (vc.int(n, lo=0) for n in ("a", "b", "c", "d"))
        small, big = b.inp(a), b.prod(b.inp(bb), b.inp(c))
        s = b.sum(*([small, big] if _first == 0 else [big, small]))
        root = b.prod(s, b.inp(d))
        sc = b.circuit(root)
        vc.ensure("decomposable_def", _flag(vc, sc, "is_decomposable") == b.decomposable())
        vc.ensure("smooth_def", _flag(vc, sc, "is_smooth") == b.smooth())
        vc.ensure("scope_is_union_of_all_inputs", scope_arr(sc.fields["scope"]) == b.scope[root])
    obligation(f"C08.is_decomposable.product_over_nonsmooth_sum.order{_first}", "C08", [f"{SCI}:Circuit.is_decomposable", f"{SCI}:Circuit.__init__"])(_h)


def _two_splits(vc, order2=(0, 1)):
    """sum over P1 = (A x B) and P2 = (C x D) where A = in(a0) x in(a1), B = in(b), C = in(c), D = in(d0) x in(d1)"""
    b = Build(vc)
    a0, a1, bb, c, d0, d1 = (vc.int(n, lo=0) for n in ("a0", "a1", "b", "c", "d0", "d1"))
    A, Bl = b.prod(b.inp(a0), b.inp(a1)), b.inp(bb)
    Cl, D = b.inp(c), b.prod(b.inp(d0), b.inp(d1))
    P1 = b.prod(A, Bl)
    two = [Cl, D]
    P2 = b.prod(two[order2[0]], two[order2[1]])
    s = b.sum(P1, P2)
    return b, b.circuit(s)


@obligation("C08.is_structured_decomposable.two_splits", "C08", [f"{SCI}:Circuit.is_structured_decomposable", f"{SCI}:_scope_factorizations"])
def _(vc):
    b, sc = _two_splits(vc)
    # keep the exploration finite and meaningful: the six ids live in a universe of three
    for l in b.layers:
        pass
    # soundness is what the property states ("never reported structured-decomposable unless ...")
    vc.ensure("reported_structured_decomposable_only_if_products_split_alike", z3.Implies(_flag(vc, sc, "is_structured_decomposable"), _sd_def(b)))


@obligation("C08.are_compatible.symmetric_and_order_independent", "C08", [f"{SCI}:are_compatible", f"{SCI}:_are_compatible", f"{SCI}:_scope_factorizations"])
def _(vc):
    """c1 = (in(x0) x in(x1)) x in(x2)   and   c2 = in(y0) x (in(y1) x in(y2)), over symbolic ids; c2' lists the inputs of its
    products in the opposite order"""
    x = [vc.int(f"x{i}", lo=0) for i in range(3)]
    y = [vc.int(f"y{i}", lo=0) for i in range(3)]
    b1 = Build(vc)
    c1 = b1.circuit(b1.prod(b1.prod(b1.inp(x[0]), b1.inp(x[1])), b1.inp(x[2])))
    b2 = Build(vc)
    c2 = b2.circuit(b2.prod(b2.inp(y[0]), b2.prod(b2.inp(y[1]), b2.inp(y[2]))))
    b3 = Build(vc)
    inner = b3.prod(b3.inp(y[2]), b3.inp(y[1]))
    c3 = b3.circuit(b3.prod(inner, b3.inp(y[0])))
    r12 = to_z3(vc.I.truth(vc.call(f"{SCI}:are_compatible", c1, c2)))
    r21 = to_z3(vc.I.truth(vc.call(f"{SCI}:are_compatible", c2, c1)))
    r13 = to_z3(vc.I.truth(vc.call(f"{SCI}:are_compatible", c1, c3)))
    # the property demands SOUNDNESS ("never reported compatible unless ..."), symmetry and order-independence; it does
    # not demand that every pair satisfying the definition be accepted
    vc.ensure("reported_compatible_only_if_definition_holds", z3.Implies(r12, _sound_def(b1, b2)))
    vc.ensure("symmetric", r12 == r21)
    vc.ensure("independent_of_product_input_order", r12 == r13)


@obligation("C08.are_compatible.symmetric_when_one_circuit_splits_more", "C08", [f"{SCI}:are_compatible", f"{SCI}:_are_compatible"])
def _(vc):
    """c1 = in(x0) x in(x1) (one split)  and  c2 = in(y0) x (in(y1) x in(y2)) (two splits, one of them possibly c1's)"""
    x = [vc.int(f"x{i}", lo=0) for i in range(2)]
    y = [vc.int(f"y{i}", lo=0) for i in range(3)]
    b1 = Build(vc)
    c1 = b1.circuit(b1.prod(b1.inp(x[0]), b1.inp(x[1])))
    b2 = Build(vc)
    c2 = b2.circuit(b2.prod(b2.inp(y[0]), b2.prod(b2.inp(y[1]), b2.inp(y[2]))))
    r12 = to_z3(vc.I.truth(vc.call(f"{SCI}:are_compatible", c1, c2)))
    r21 = to_z3(vc.I.truth(vc.call(f"{SCI}:are_compatible", c2, c1)))
    vc.ensure("symmetric", r12 == r21)
    vc.ensure("reported_compatible_only_if_definition_holds", z3.Implies(r12, _sound_def(b1, b2)))
