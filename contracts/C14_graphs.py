"""C14 / C02 (composite parameter graphs on the torch side): TorchParameter.from_sequence / from_unary / from_binary / from_nary build the graph
the fusing optimisation rules and the layer kernels rely on: the new node(s) on top of the operands' graphs, every operand graph kept with its own
wiring, the new node reading the OUTPUTS of the operands IN ARGUMENT ORDER, the new (last) node being the single output.
"""
import z3

from engine.vc import obligation
from engine.values import Opaque, Obj

PP = "cirkit/backend/torch/parameters/parameter.py"


def _graph(name, n_nodes):
    nodes = [Opaque(f"{name}.node{i}") for i in range(n_nodes)]
    wires = {nodes[i]: [nodes[i - 1]] for i in range(1, n_nodes)}
    wires[nodes[0]] = []
    g = Opaque(name, {"nodes": list(nodes), "nodes_inputs": dict(wires), "outputs": [nodes[-1]], "num_folds": 1}, cls=None)
    return g, nodes, wires


def _built(vc):
    seen = {}
    vc.I.summaries[f"{PP}:TorchParameter"] = lambda I, a, k: seen.update(a=a, k=k) or Opaque("new_parameter")
    return seen


def _check(vc, seen, graphs, new_nodes, label_first_inputs):
    a = seen.get("a", [])
    ok = len(a) == 3
    vc.ensure("one_graph_built", ok)
    if not ok:
        return
    nodes, wires, outs = list(a[0]), a[1], list(a[2])
    want_nodes = [n for g, ns, w in graphs for n in ns] + list(new_nodes)
    vc.ensure("all_operand_nodes_then_the_new_nodes", len(nodes) == len(want_nodes) and all(x is y for x, y in zip(nodes, want_nodes)))
    keep = True
    for g, ns, w in graphs:
        for n in ns:
            keep = keep and n in wires and len(wires[n]) == len(w[n]) and all(x is y for x, y in zip(wires[n], w[n]))
    vc.ensure("operand_graphs_keep_their_own_wiring", keep)
    first = list(wires.get(new_nodes[0], []))
    vc.ensure(label_first_inputs, len(first) == len(graphs) and all(x is g[1][-1] for x, g in zip(first, graphs)))
    chain = all(len(wires.get(new_nodes[i], [])) == 1 and wires[new_nodes[i]][0] is new_nodes[i - 1] for i in range(1, len(new_nodes)))
    vc.ensure("later_new_nodes_read_their_predecessor", chain)
    vc.ensure("the_last_new_node_is_the_single_output", len(outs) == 1 and outs[0] is new_nodes[-1])


for _k in (1, 2, 3):
    def _h(vc, _k=_k):
        seen = _built(vc)
        g = _graph("p", 2)
        ns = [Opaque(f"op{i}", {"num_folds": 1}) for i in range(_k)]
        vc.call(f"{PP}:TorchParameter.from_sequence", g[0], *ns)
        _check(vc, seen, [g], ns, "first_new_node_reads_the_operands_output")
    obligation(f"C14.graph.from_sequence.ops{_k}", "C14", [f"{PP}:TorchParameter.from_sequence"])(_h)


@obligation("C14.graph.from_unary", "C14", [f"{PP}:TorchParameter.from_unary", f"{PP}:TorchParameter.from_sequence"])
def _(vc):
    seen = _built(vc)
    g = _graph("p", 3)
    n = Opaque("op", {"num_folds": 1})
    vc.call(f"{PP}:TorchParameter.from_unary", n, g[0])
    _check(vc, seen, [g], [n], "new_node_reads_the_operands_output")


for _m in (2, 3):
    def _h(vc, _m=_m):
        seen = _built(vc)
        gs = [_graph(f"p{i}", 1 + i) for i in range(_m)]
        n = Opaque("op", {"num_folds": 1})
        if _m == 2:
            vc.call(f"{PP}:TorchParameter.from_binary", n, gs[0][0], gs[1][0])
        else:
            vc.call(f"{PP}:TorchParameter.from_nary", n, *[g[0] for g in gs])
        _check(vc, seen, gs, [n], "new_node_reads_the_operands_outputs_in_argument_order")
    obligation(f"C14.graph.{'from_binary' if _m == 2 else 'from_nary'}", "C14", [f"{PP}:TorchParameter.from_binary" if _m == 2 else f"{PP}:TorchParameter.from_nary"])(_h)
