"""C05 (rule): differentiate_polynomial_layer returns a polynomial layer over the same variable whose coefficients are
those of the order-th derivative: c'[k, n] = (n+1)(n+2)...(n+order) * c[k, n+order], degree max(d - order, 0) (the
zero polynomial when order > d); orders <= 0 are refused.  For every number of units, every degree, every variable id;
the order is enumerated 1..3 (its effect on the coefficients is a product of `order` factors)."""
import z3

from engine.vc import obligation
from engine.values import to_z3
from contracts.lib import *
from contracts import specs as S

for _order in (1, 2, 3):
    for _kind in PARAM_KINDS:
        def _h(vc, _order=_order, _kind=_kind):
            K, d = vc.int("K", lo=1), vc.int("d", lo=0)
            v, scope = scope1(vc)
            c = tensor_param(vc, (K, d + 1), _kind, "ExpParameter")
            sl = vc.new(f"{SL}:PolynomialLayer", scope, K, degree=d, coeff=c)
            big = vc.path.branch(d + 1 > _order)
            out = single_layer(vc, vc.call(f"{SO}:differentiate_polynomial_layer", sl, var_idx=0, order=_order))
            ok = out is not None and out.cls.name == "PolynomialLayer"
            vc.ensure("result_class", ok)
            if not ok:
                return
            vc.ensure("same_units", vc.attr(out, "num_output_units") == K)
            vc.ensure("same_scope", same_scope(vc, vc.attr(out, "scope"), scope))
            vc.ensure("degree", vc.attr(out, "degree") == (d - _order if big else 0))
            env = {}
            D = S.den_param(vc, vc.attr(out, "coeff"), env)
            C = S.den_param(vc, c, env)
            S.shape_eq(vc, D, [K, d + 1 - _order if big else 1])
            k, n = vc.index_consts(D.shape)
            if big:
                f = 1
                for t in range(1, _order + 1):
                    f = f * (n + t)
                vc.ensure("coefficients_of_the_derivative", D.elem([k, n]) == z3.ToReal(f) * C.elem([k, n + _order]))
            else:
                vc.ensure("zero_polynomial", D.elem([k, n]) == 0)
            S.sharing_clauses(vc, [vc.attr(out, "coeff")], [c])
        obligation(f"C05.rule.differentiate_polynomial_layer.order{_order}.{_kind}", "C05", [f"{SO}:differentiate_polynomial_layer"])(_h)


@obligation("C05.rule.differentiate_polynomial_layer.refuses_nonpositive_order", "C05", [f"{SO}:differentiate_polynomial_layer"])
def _(vc):
    K, d = vc.int("K", lo=1), vc.int("d", lo=0)
    order = vc.int("order")
    vc.assume(order <= 0)
    v, scope = scope1(vc)
    sl = vc.new(f"{SL}:PolynomialLayer", scope, K, degree=d)
    exc, _ = vc.raises(lambda: vc.call(f"{SO}:differentiate_polynomial_layer", sl, var_idx=0, order=order))
    vc.ensure("refuses_with_ValueError", exc == "ValueError")
