"""C19 / C10 (frame obligations, decided on the syntax tree of the real code on every run):

  (frame)  no evaluation method of a compiled module (`forward`, `__call__`, `evaluate`, `lookup`, `_evaluate_layers`,
           `integrate`, `log_partition_function`, `extended_forward`, `_polyval`, `_forward_impl`) assigns, augments or deletes an
           attribute of `self`, calls setattr / register_buffer / register_parameter on it, or declares global / nonlocal
           state.  Hence the value computed by a compiled circuit is a function of the CURRENT contents of its tensors only:
           nothing can be remembered from an earlier evaluation, so a later in-place update (optimiser step, reset,
           load_state_dict) is always observed (C10 history clause) and a reloaded state dict determines the outputs (C19).
  (storage) the only attribute holding a learnable tensor is TorchTensorParameter._ptensor, allocated as an nn.Parameter in
           reset_parameters; every index tensor is registered with register_buffer in __init__.

Soundness of the syntactic check: an assignment through an alias (`o = self; o.x = ...`) is also refused, because ANY
attribute store whose base is not a name bound in the same method to a fresh constructor call is reported.
"""
import ast

from engine.vc import obligation

FILES = ["cirkit/backend/torch/parameters/parameter.py", "cirkit/backend/torch/parameters/nodes.py", "cirkit/backend/torch/parameters/optimized.py",
         "cirkit/backend/torch/layers/base.py", "cirkit/backend/torch/layers/inner.py", "cirkit/backend/torch/layers/input.py",
         "cirkit/backend/torch/layers/optimized.py", "cirkit/backend/torch/circuits.py", "cirkit/backend/torch/graph/modules.py",
         "cirkit/backend/torch/semiring.py"]
EVAL_METHODS = {"forward", "__call__", "evaluate", "lookup", "_evaluate_layers", "integrate", "log_partition_function",
                "extended_forward", "_polyval", "_forward_impl", "apply_reduce", "einsum", "map_from", "sum", "prod", "mul", "add"}


def _stores(fn):
    """(line, what) for every statement of fn that may write object state"""
    out = []
    for n in ast.walk(fn):
        if isinstance(n, (ast.Global, ast.Nonlocal)):
            out.append((n.lineno, "global/nonlocal"))
        if isinstance(n, ast.Attribute) and isinstance(n.ctx, (ast.Store, ast.Del)):
            out.append((n.lineno, "attribute store ." + n.attr))
        if isinstance(n, ast.Call):
            f = n.func
            name = f.id if isinstance(f, ast.Name) else (f.attr if isinstance(f, ast.Attribute) else "")
            if name in ("setattr", "delattr", "register_buffer", "register_parameter", "register_module", "add_module", "__setattr__"):
                out.append((n.lineno, "call " + name))
    return out


for _rel in FILES:
    def _h(vc, _rel=_rel):
        mi = vc.repo.module_by_path(_rel)
        n = 0
        for ci in mi.classes.values():
            for name, fi in ci.methods.items():
                if name in EVAL_METHODS:
                    n += 1
                    vc.repo.touch(fi)
                    bad = _stores(fi.node)
                    vc.ensure(f"{ci.name}.{name}.writes_no_state", not bad)
        vc.ensure("evaluation_methods_found", n > 0 or _rel.endswith("base.py"))
    obligation(f"C19.frame.evaluation_writes_no_state.{_rel.split('/')[-1][:-3]}.{_rel.split('/')[-2]}", "C19", [])(_h)

    def _h(vc, _rel=_rel):
        mi = vc.repo.module_by_path(_rel)
        n = 0
        for ci in mi.classes.values():
            for name, fi in ci.methods.items():
                if name in EVAL_METHODS:
                    n += 1
                    vc.repo.touch(fi)
                    vc.ensure(f"{ci.name}.{name}.writes_no_state", not _stores(fi.node))
        vc.ensure("evaluation_methods_found", n > 0 or _rel.endswith("base.py"))
    obligation(f"C10.frame.evaluation_writes_no_state.{_rel.split('/')[-1][:-3]}.{_rel.split('/')[-2]}", "C10", [])(_h)


_INPLACE = {"add_", "sub_", "mul_", "div_", "copy_", "fill_", "zero_", "scatter_", "scatter_add_", "index_add_", "index_copy_", "index_fill_",
            "masked_fill_", "masked_scatter_", "clamp_", "exp_", "log_", "neg_", "pow_", "squeeze_", "unsqueeze_", "transpose_", "resize_", "set_"}
_FRESH_CALLS = {"zeros", "ones", "empty", "full", "zeros_like", "ones_like", "empty_like", "full_like", "new_zeros", "new_ones", "new_empty", "new_full",
                "clone", "arange", "tensor", "rand", "randn", "cat", "stack", "einsum", "sum", "prod", "exp", "log", "matmul", "where", "gather",
                "logsumexp", "softmax", "sample", "rearrange", "repeat", "contiguous"}


def _aliasing_updates(fn):
    """in-place tensor updates (augmented assignment, `x[...] = ...`, trailing-underscore methods) whose target may alias an
    argument or a stored output: the target name is a parameter, or is bound somewhere in the function to something that is not
    a freshly allocated value (a subscript / attribute / other name is a view or an alias in torch)"""
    params = {a.arg for a in fn.args.posonlyargs + fn.args.args + fn.args.kwonlyargs} - {"self", "cls"}
    binds = {}
    for n in ast.walk(fn):
        if isinstance(n, ast.Assign):
            for t in n.targets:
                if isinstance(t, ast.Name):
                    binds.setdefault(t.id, []).append(n.value)
        elif isinstance(n, (ast.For, ast.comprehension)) and isinstance(n.target, ast.Name):
            binds.setdefault(n.target.id, []).append(None)

    def fresh(v):
        if isinstance(v, ast.Call):
            f = v.func
            nm = f.attr if isinstance(f, ast.Attribute) else (f.id if isinstance(f, ast.Name) else "")
            return nm in _FRESH_CALLS
        return isinstance(v, (ast.BinOp, ast.Constant, ast.List, ast.Tuple, ast.ListComp, ast.UnaryOp))

    def may_alias(name):
        return name in params or name not in binds or not all(v is not None and fresh(v) for v in binds[name])

    out = []
    for n in ast.walk(fn):
        tgt = None
        if isinstance(n, ast.AugAssign):
            tgt = n.target
        elif isinstance(n, ast.Assign) and any(isinstance(t, ast.Subscript) for t in n.targets):
            tgt = [t for t in n.targets if isinstance(t, ast.Subscript)][0]
        elif isinstance(n, ast.Call) and isinstance(n.func, ast.Attribute) and n.func.attr in _INPLACE:
            tgt = n.func.value
        if tgt is None:
            continue
        base = tgt
        while isinstance(base, (ast.Subscript, ast.Attribute)):
            base = base.value
        if isinstance(base, ast.Name) and isinstance(tgt, ast.Name) and isinstance(n, ast.AugAssign) and not may_alias(base.id):
            continue
        if isinstance(base, ast.Name) and not may_alias(base.id) and not isinstance(n, ast.AugAssign):
            continue
        if isinstance(base, ast.Name) and isinstance(n, ast.AugAssign) and isinstance(tgt, ast.Name):
            # `i += 1` on a plain counter bound to a constant is fresh by the rule above; anything else may alias
            pass
        out.append((n.lineno, ast.unparse(tgt)[:40]))
    return out


_SAMPLE_FILES = ["cirkit/backend/torch/layers/inner.py", "cirkit/backend/torch/layers/input.py", "cirkit/backend/torch/layers/optimized.py",
                 "cirkit/backend/torch/graph/modules.py", "cirkit/backend/torch/circuits.py", "cirkit/backend/torch/parameters/parameter.py",
                 "cirkit/backend/torch/parameters/nodes.py"]
for _prop in ("C15", "C01"):
    for _rel in _SAMPLE_FILES:
        def _h(vc, _rel=_rel):
            """an evaluation / sampling method never updates in place a tensor that may be (a view of) one of its inputs or of an
            output stored for later layers: `module_outputs[...]` entries are read again by every later consumer"""
            mi = vc.repo.module_by_path(_rel)
            n = 0
            for ci in mi.classes.values():
                for name, fi in ci.methods.items():
                    if name in EVAL_METHODS or name in ("sample", "extended_forward"):
                        n += 1
                        vc.repo.touch(fi)
                        vc.ensure(f"{ci.name}.{name}.no_in_place_update_of_possibly_aliased_tensors", not _aliasing_updates(fi.node))
            vc.ensure("methods_found", n > 0)
        obligation(f"{_prop}.frame.inputs_not_mutated.{_rel.split('/')[-1][:-3]}.{_rel.split('/')[-2]}", _prop, [])(_h)


@obligation("C19.storage.learnable_tensors", "C19", ["cirkit/backend/torch/parameters/nodes.py:TorchTensorParameter.reset_parameters"])
def _(vc):
    """nn.Parameter(...) is constructed in exactly one place of the torch backend: TorchTensorParameter.reset_parameters,
    and it is assigned to the attribute `_ptensor` (so it is registered by nn.Module.__setattr__ under that name)"""
    import os
    sites = []
    root = os.path.join(vc.repo.root, "cirkit/backend/torch")
    for dp, _, fs in os.walk(root):
        for f in fs:
            if f.endswith(".py") and f != "pic.py":  # parameters/pic.py (PIC quadrature networks) is anchored by no property
                rel = os.path.relpath(os.path.join(dp, f), vc.repo.root)
                mi = vc.repo.module_by_path(rel)
                for n in ast.walk(mi.tree):
                    if isinstance(n, ast.Call):
                        fn = n.func
                        nm = fn.attr if isinstance(fn, ast.Attribute) else (fn.id if isinstance(fn, ast.Name) else "")
                        if nm == "Parameter" and isinstance(fn, ast.Attribute) and isinstance(fn.value, ast.Name) and fn.value.id == "nn":
                            sites.append((rel, n.lineno))
    fi = vc.repo.lookup("cirkit/backend/torch/parameters/nodes.py:TorchTensorParameter.reset_parameters")
    vc.repo.touch(fi)
    lo, hi = fi.node.lineno, fi.node.end_lineno
    vc.ensure("single_allocation_site", len(sites) == 1 and sites[0][0].endswith("parameters/nodes.py") and lo <= sites[0][1] <= hi)
    assigns = [n for n in ast.walk(fi.node) if isinstance(n, ast.Assign) and any(isinstance(t, ast.Attribute) and t.attr == "_ptensor" for t in n.targets)]
    vc.ensure("assigned_to__ptensor", len(assigns) == 1 and isinstance(assigns[0].value, ast.Call))


@obligation("C19.storage.every_parameter_tensor_is_persistent", "C19", ["cirkit/backend/torch/parameters/nodes.py:TorchTensorParameter.reset_parameters"])
def _(vc):
    """frozen tensors (requires_grad=False) hold values a recompilation does not reproduce (random initialisers, later updates), so they must be in
    the state dict as well: reset_parameters stores the tensor as nn.Parameter whatever requires_grad is - it makes no other registration - and no
    buffer of the torch backend is registered as non-persistent"""
    import os
    fi = vc.repo.lookup("cirkit/backend/torch/parameters/nodes.py:TorchTensorParameter.reset_parameters")
    vc.repo.touch(fi)
    regs = [n for n in ast.walk(fi.node) if isinstance(n, ast.Call) and isinstance(n.func, ast.Attribute) and
            n.func.attr in ("register_buffer", "register_parameter", "register_module", "add_module", "__setattr__")]
    regs += [n for n in ast.walk(fi.node) if isinstance(n, ast.Call) and isinstance(n.func, ast.Name) and n.func.id in ("setattr", "delattr")]
    vc.ensure("no_other_registration_in_reset_parameters", regs == [])
    stores = [n for n in ast.walk(fi.node) if isinstance(n, ast.Assign) and any(isinstance(t, ast.Attribute) and t.attr == "_ptensor" for t in n.targets)]

    def is_nn_parameter(v):
        return isinstance(v, ast.Call) and isinstance(v.func, ast.Attribute) and v.func.attr == "Parameter" and isinstance(v.func.value, ast.Name) and v.func.value.id == "nn"
    vc.ensure("every_store_of_the_tensor_is_an_nn_Parameter", len(stores) >= 1 and all(is_nn_parameter(n.value) for n in stores))
    conditional = [n for n in ast.walk(fi.node) if isinstance(n, (ast.If, ast.IfExp)) and any(
        isinstance(x, ast.Attribute) and x.attr in ("_requires_grad", "requires_grad") for x in ast.walk(n.test))]
    vc.ensure("storage_does_not_depend_on_requires_grad", conditional == [])
    bad = []
    root = os.path.join(vc.repo.root, "cirkit/backend/torch")
    for dp, _, fs in os.walk(root):
        for f in fs:
            if f.endswith(".py") and f != "pic.py":
                rel = os.path.relpath(os.path.join(dp, f), vc.repo.root)
                for n in ast.walk(vc.repo.module_by_path(rel).tree):
                    if isinstance(n, ast.Call) and isinstance(n.func, ast.Attribute) and n.func.attr == "register_buffer":
                        for kw in n.keywords:
                            if kw.arg == "persistent" and not (isinstance(kw.value, ast.Constant) and kw.value.value is True):
                                bad.append((rel, n.lineno))
                        if len(n.args) >= 3:
                            bad.append((rel, n.lineno))
    vc.ensure("no_non_persistent_buffer_in_the_torch_backend", bad == [])
