"""C01 / C11 / C06 (L4, kernels of the compiled layers): every layer's `forward` computes the function of its symbolic
counterpart (spec functions of DESIGN section 3), independently for every fold and for every batch row, with the output shape
(F, B, K) - for all fold counts, batch sizes (in particular B == F), unit counts, state counts and arities.

    sum        out[f,b,o]   = SUM_{h,i} W[f,o,h*Ki+i] * x[f,h,b,i]                (column h*Ki+i <-> unit i of input h)
    hadamard   out[f,b,k]   = PROD_h x[f,h,b,k]
    kronecker  out[f,b,(i_0..i_{H-1})] = PROD_h x[f,h,b,i_h]                     (first input major; arity enumerated 2, 3)
    embedding  out[f,b,k]   = W[f,k,x[f,b,0]]
    categorical log-likelihood[f,b,k] = logits[f,k,x[f,b,0]]  |  log probs[f,k,x[f,b,0]]
    gaussian / binomial       the distribution's log-density of x[f,b,0] with the unit's parameters (+ log_partition)
    constant   out[f,b,k]   = value[f,k] (mapped from log space when the layer is in log space)
    evidence   out[f,b,k]   = wrapped layer evaluated at the observation, whatever the batch size
    log_partition_function / integrate: shape (F, 1, K), value LSE_x logits[f,k,x] | 0 | log_partition[f,k]   (C11)
The linear semiring is used for the layout clauses; the semiring morphisms are separate obligations below.
"""
import z3

from engine.vc import obligation
from engine.values import to_z3, ClassVal, Obj
from engine.tensor import MR, Tensor

LI = "cirkit/backend/torch/layers/inner.py"
LP = "cirkit/backend/torch/layers/input.py"
SR = "cirkit/backend/torch/semiring.py"


def init_semiring_module(vc):
    """module initialisation of semiring.py: the module-level functions decorated with `X.register_map_from(Y)` are
    registered by executing the REAL decorator on them (the loader itself never executes module-level code)"""
    import ast
    from engine.repo import FuncInfo
    from engine.values import FuncVal
    from engine.interp import Frame
    if getattr(vc.I, "_semiring_init", False):
        return
    vc.I._semiring_init = True
    mi = vc.repo.module_by_path(SR)
    for st in mi.tree.body:
        if isinstance(st, ast.FunctionDef) and st.decorator_list:
            import copy
            bare = copy.copy(st)
            bare.decorator_list = []            # the decorators are applied right here, by executing them
            fv = FuncVal(FuncInfo(st.name, bare, mi, None, "function"))
            for d in reversed(st.decorator_list):
                vc.I.frames.append(Frame(None, {}, module=mi))
                try:
                    deco = vc.I.eval(d)
                finally:
                    vc.I.frames.pop()
                fv = vc.I.call(deco, [fv], {})


def semiring(vc, name="SumProductSemiring"):
    init_semiring_module(vc)
    return ClassVal(vc.repo.lookup(f"{SR}:{name}"))


def param(vc, name, F, shape):
    """a compiled parameter seen through its contract: num_folds, shape, and a call returning the (F, *shape) tensor"""
    t = vc.tensor(name, (F, *shape))
    p = vc.opaque(name, attrs={"num_folds": F, "shape": tuple(shape), "device": None})
    p.__dict__["__vf_call__"] = lambda: t
    return p, t


def shape_is(vc, y, expect, label="out_shape"):
    ok = isinstance(y, Tensor) and len(y.shape) == len(expect)
    vc.ensure(label + ".rank", ok)
    if ok:
        for j, (a, b) in enumerate(zip(y.shape, expect)):
            vc.ensure(f"{label}.dim{j}", to_z3(a) == to_z3(b))
    return ok


def scope_idx(vc, F):
    return vc.tensor("scope_idx", (F, 1), "long")


for _sr in ("SumProductSemiring",):
    @obligation("C01.kernel.TorchSumLayer.forward", "C01", [f"{LI}:TorchSumLayer.forward", f"{LI}:TorchSumLayer.__init__", f"{SR}:SemiringImpl.einsum"])
    def _(vc):
        F, B, H, Ki, Ko = (vc.int(n, lo=1) for n in ("F", "B", "H", "Ki", "Ko"))
        W, Wt = param(vc, "weight", F, (Ko, Ki * H))
        layer = vc.new(f"{LI}:TorchSumLayer", Ki, Ko, arity=H, weight=W, semiring=semiring(vc), num_folds=F)
        x = vc.tensor("x", (F, H, B, Ki))
        y = vc.call((layer, "forward"), x)
        if not shape_is(vc, y, [F, B, Ko]):
            return
        f, b, o = vc.index_consts([F, B, Ko])
        spec = vc.red("sum", [H, Ki], lambda h, i: x.elem([f, h, b, i]) * Wt.elem([f, o, MR([(h, H), (i, Ki)])]))
        vc.ensure("weighted_sum_column_h_Ki_plus_i", y.elem([f, b, o]) == spec)


@obligation("C01.kernel.TorchHadamardLayer.forward", "C01", [f"{LI}:TorchHadamardLayer.forward"])
def _(vc):
    F, B, H, K = vc.int("F", lo=1), vc.int("B", lo=1), vc.int("H", lo=2), vc.int("K", lo=1)
    layer = vc.new(f"{LI}:TorchHadamardLayer", K, arity=H, semiring=semiring(vc), num_folds=F)
    x = vc.tensor("x", (F, H, B, K))
    y = vc.call((layer, "forward"), x)
    if not shape_is(vc, y, [F, B, K]):
        return
    f, b, k = vc.index_consts([F, B, K])
    vc.ensure("product_over_inputs", y.elem([f, b, k]) == vc.red("prod", [H], lambda h: x.elem([f, h, b, k])))


for _H in (2, 3):
    def _h(vc, _H=_H):
        F, B, K = vc.int("F", lo=1), vc.int("B", lo=1), vc.int("K", lo=1)
        layer = vc.new(f"{LI}:TorchKroneckerLayer", K, arity=_H, semiring=semiring(vc), num_folds=F)
        x = vc.tensor("x", (F, _H, B, K))
        y = vc.call((layer, "forward"), x)
        Kout = K
        for _ in range(_H - 1):
            Kout = Kout * K
        if not shape_is(vc, y, [F, B, Kout]):
            return
        vc.ensure("declared_units", vc.attr(layer, "num_output_units") == Kout)
        f, b = vc.index_consts([F, B])
        ii = vc.index_consts([K] * _H, "i")
        want = x.elem([f, 0, b, ii[0]])
        for h in range(1, _H):
            want = want * x.elem([f, h, b, ii[h]])
        vc.ensure("first_input_major_kronecker_order", y.elem([f, b, MR([(ii[h], K) for h in range(_H)])]) == want)
    obligation(f"C01.kernel.TorchKroneckerLayer.forward.arity{_H}", "C01", [f"{LI}:TorchKroneckerLayer.forward"])(_h)


@obligation("C01.kernel.TorchEmbeddingLayer.forward", "C01", [f"{LP}:TorchEmbeddingLayer.forward", f"{LP}:TorchEmbeddingLayer.__init__", f"{LP}:TorchInputLayer.__init__"])
def _(vc):
    F, B, K, C = vc.int("F", lo=1), vc.int("B", lo=1), vc.int("K", lo=1), vc.int("C", lo=2)
    W, Wt = param(vc, "weight", F, (K, C))
    layer = vc.new(f"{LP}:TorchEmbeddingLayer", scope_idx(vc, F), K, num_states=C, weight=W, semiring=semiring(vc))
    vc.ensure("folds_from_scope_index", vc.attr(layer, "num_folds") == F)
    x = vc.tensor("x", (F, B, 1), "long")
    k0 = z3.Int("k_rng")
    j0 = z3.Int("j_rng")
    vc.assume(z3.ForAll([k0, j0], z3.And(x.elem([k0, j0, 0]) >= 0, x.elem([k0, j0, 0]) < C)))
    y = vc.call((layer, "forward"), x)
    if not shape_is(vc, y, [F, B, K]):
        return
    f, b, k = vc.index_consts([F, B, K])
    vc.ensure("row_of_the_observed_state_per_fold_and_batch_row", y.elem([f, b, k]) == Wt.elem([f, k, x.elem([f, b, 0])]))


for _p in ("logits", "probs"):
    def _h(vc, _p=_p):
        F, B, K, C = vc.int("F", lo=1), vc.int("B", lo=1), vc.int("K", lo=1), vc.int("C", lo=2)
        P, Pt = param(vc, _p, F, (K, C))
        layer = vc.new(f"{LP}:TorchCategoricalLayer", scope_idx(vc, F), K, num_categories=C, semiring=semiring(vc, "LSESumSemiring"), **{_p: P})
        x = vc.tensor("x", (F, B, 1), "long")
        k0, j0 = z3.Int("k_rng"), z3.Int("j_rng")
        vc.assume(z3.ForAll([k0, j0], z3.And(x.elem([k0, j0, 0]) >= 0, x.elem([k0, j0, 0]) < C)))
        y = vc.call((layer, "forward"), x)
        if shape_is(vc, y, [F, B, K]):
            f, b, k = vc.index_consts([F, B, K])
            v = Pt.elem([f, k, x.elem([f, b, 0])])
            vc.ensure("log_probability_of_the_observed_category", y.elem([f, b, k]) == (v if _p == "logits" else vc.fn("log", v)))
        z = vc.call((layer, "log_partition_function"))
        if shape_is(vc, z, [F, 1, K], "log_partition_shape"):
            f, k = vc.index_consts([F, K], "g")
            if _p == "logits":
                vc.ensure("log_partition_is_logsumexp_over_categories", z.elem([f, 0, k]) == vc.red("lse", [C], lambda c: Pt.elem([f, k, c])))
            else:
                vc.ensure("log_partition_of_normalised_probabilities_is_zero", z.elem([f, 0, k]) == 0)
        w = vc.call((layer, "integrate"))
        shape_is(vc, w, [F, 1, K], "integrate_shape")
    obligation(f"C01.kernel.TorchCategoricalLayer.{_p}", "C01", [f"{LP}:TorchCategoricalLayer.log_unnormalized_likelihood",
               f"{LP}:TorchCategoricalLayer.log_partition_function", f"{LP}:TorchExpFamilyLayer.forward", f"{LP}:TorchExpFamilyLayer.integrate"])(_h)


for _lp in (False, True):
    def _h(vc, _lp=_lp):
        F, B, K = vc.int("F", lo=1), vc.int("B", lo=1), vc.int("K", lo=1)
        (M, Mt), (S_, St) = param(vc, "mean", F, (K,)), param(vc, "stddev", F, (K,))
        L, Lt = param(vc, "log_partition", F, (K,)) if _lp else (None, None)
        layer = vc.new(f"{LP}:TorchGaussianLayer", scope_idx(vc, F), K, mean=M, stddev=S_, log_partition=L, semiring=semiring(vc, "LSESumSemiring"))
        x = vc.tensor("x", (F, B, 1))
        y = vc.call((layer, "forward"), x)
        if shape_is(vc, y, [F, B, K]):
            f, b, k = vc.index_consts([F, B, K])
            want = vc.fn("logpdf_normal", x.elem([f, b, 0]), Mt.elem([f, k]), St.elem([f, k]))
            if _lp:
                want = want + Lt.elem([f, k])
            vc.ensure("normal_log_density_of_own_row_and_unit", y.elem([f, b, k]) == want)
        z = vc.call((layer, "log_partition_function"))
        if shape_is(vc, z, [F, 1, K], "log_partition_shape"):
            f, k = vc.index_consts([F, K], "g")
            vc.ensure("log_partition_value", z.elem([f, 0, k]) == (Lt.elem([f, k]) if _lp else 0))
        shape_is(vc, vc.call((layer, "integrate")), [F, 1, K], "integrate_shape")
    obligation(f"C01.kernel.TorchGaussianLayer.lp{int(_lp)}", "C01", [f"{LP}:TorchGaussianLayer.log_unnormalized_likelihood", f"{LP}:TorchGaussianLayer.log_partition_function"])(_h)


for _p in ("logits", "probs"):
    def _h(vc, _p=_p):
        F, B, K, N = vc.int("F", lo=1), vc.int("B", lo=1), vc.int("K", lo=1), vc.int("N", lo=0)
        P, Pt = param(vc, _p, F, (K,))
        layer = vc.new(f"{LP}:TorchBinomialLayer", scope_idx(vc, F), K, total_count=N, semiring=semiring(vc, "LSESumSemiring"), **{_p: P})
        x = vc.tensor("x", (F, B, 1), "long")
        y = vc.call((layer, "forward"), x)
        if shape_is(vc, y, [F, B, K]):
            f, b, k = vc.index_consts([F, B, K])
            vc.ensure("binomial_log_mass_of_own_row_and_unit", y.elem([f, b, k]) == vc.fn("logpdf_binomial_" + _p, x.elem([f, b, 0]), N, Pt.elem([f, k])))
        z = vc.call((layer, "log_partition_function"))
        if shape_is(vc, z, [F, 1, K], "log_partition_shape"):
            f, k = vc.index_consts([F, K], "g")
            vc.ensure("log_partition_zero", z.elem([f, 0, k]) == 0)
    obligation(f"C01.kernel.TorchBinomialLayer.{_p}", "C01", [f"{LP}:TorchBinomialLayer.log_unnormalized_likelihood", f"{LP}:TorchBinomialLayer.log_partition_function"])(_h)


for _log in (False, True):
    def _h(vc, _log=_log):
        F, B, K = vc.int("F", lo=1), vc.int("B", lo=1), vc.int("K", lo=1)
        V, Vt = param(vc, "value", F, (K,))
        layer = vc.new(f"{LP}:TorchConstantValueLayer", K, log_space=_log, value=V, semiring=semiring(vc))
        vc.ensure("folds_from_value", vc.attr(layer, "num_folds") == F)
        y = vc.call((layer, "forward"), B)
        if shape_is(vc, y, [F, B, K]):
            f, b, k = vc.index_consts([F, B, K])
            v = Vt.elem([f, k])
            vc.ensure("constant_per_fold_and_unit_for_every_batch_row", y.elem([f, b, k]) == (vc.fn("exp", v) if _log else v))
    obligation(f"C01.kernel.TorchConstantValueLayer.{'log' if _log else 'linear'}", "C01", [f"{LP}:TorchConstantValueLayer.forward", f"{LP}:TorchConstantValueLayer.__init__"])(_h)


@obligation("C06.kernel.TorchEvidenceLayer.forward", "C06", [f"{LP}:TorchEvidenceLayer.forward", f"{LP}:TorchEvidenceLayer.__init__"])
def _(vc):
    F, B, K, C = vc.int("F", lo=1), vc.int("B", lo=1), vc.int("K", lo=1), vc.int("C", lo=2)
    W, Wt = param(vc, "weight", F, (K, C))
    inner = vc.new(f"{LP}:TorchEmbeddingLayer", scope_idx(vc, F), K, num_states=C, weight=W, semiring=semiring(vc))
    O, Ot = param(vc, "observation", F, (1,))
    layer = vc.new(f"{LP}:TorchEvidenceLayer", inner, observation=O, semiring=semiring(vc))
    vc.ensure("folds_of_the_wrapped_layer", vc.attr(layer, "num_folds") == F)
    vc.ensure("units_of_the_wrapped_layer", vc.attr(layer, "num_output_units") == K)
    y = vc.call((layer, "forward"), B)
    if shape_is(vc, y, [F, B, K]):
        f, b, k = vc.index_consts([F, B, K])
        b2 = vc.index_consts([B], "c")[0]
        vc.ensure("same_value_for_every_batch_row", y.elem([f, b, k]) == y.elem([f, b2, k]))
        ref = vc.call((inner, "forward"), Tensor([F, 1, 1], lambda idx: Ot.elem([idx[0], 0]), "float"))
        vc.ensure("wrapped_layer_evaluated_at_the_observation_of_its_fold", y.elem([f, b, k]) == ref.elem([f, 0, k]))


# ------------------------------------------------------------------------------------------------ semiring morphisms (L5)
@obligation("C01.semiring.map_from", "C01", [f"{SR}:SemiringImpl.map_from"])
def _(vc):
    """map_from(x, S) is the identity when source and target coincide, exp from log space to linear space, log the other way"""
    F, K = vc.int("F", lo=1), vc.int("K", lo=1)
    x = vc.tensor("x", (F, K))
    sp, lse = semiring(vc, "SumProductSemiring"), semiring(vc, "LSESumSemiring")
    from engine.values import FuncVal
    for tgt in (sp, lse):
        m = vc.repo.find_method(tgt.ci, "map_from")
        r = vc.I.call(FuncVal(m, tgt, cls_ctx=m.cls), [x, tgt], {})
        vc.ensure(f"identity_on_{tgt.ci.name}", r is x)
