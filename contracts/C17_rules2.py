"""Small compilation rules that had no contract:

  C10  compile_reference_parameter   a symbolic reference compiles to a POINTER to the compiled tensor the registry holds for the referenced
                                     symbolic tensor, at that tensor's fold index: no new storage, so updates of the operand are seen
  C17  compile_{constant_tensor,uniform,normal}_initializer   the torch initialiser carries the symbolic initialiser's own arguments
       (array / scalar value; a, b; mean, stddev): partial application of the documented torch function
  C17  DirichletInitializer.__init__ / allows_shape            the declared axis is kept; invalid alpha refused
  C14  apply_log_softmax               Log o Softmax is replaced by LogSoftmax over the softmax's input shape and the SAME dim
"""
import z3

from engine.vc import obligation
from engine.values import to_z3, Obj, PartialVal, ExternalVal, FuncVal, Opaque, BoundBuiltin
from engine.stubs import NdArray

RI = "cirkit/backend/torch/rules/initializers.py"
SI = "cirkit/symbolic/initializers.py"
RP = "cirkit/backend/torch/rules/parameters.py"
SP = "cirkit/symbolic/parameters.py"
TN = "cirkit/backend/torch/parameters/nodes.py"
OP = "cirkit/backend/torch/optimization/parameters.py"
GO = "cirkit/backend/torch/graph/optimize.py"


for _case in ("single_fold_tensor", "fold_of_many", "fold0_of_many"):
    def _h(vc, _case=_case):
        A = vc.int("A", lo=1)
        tp = vc.new(f"{SP}:TensorParameter", A, initializer=vc.new(f"{SI}:NormalInitializer"))
        ref = vc.new(f"{SP}:ReferenceParameter", tp)
        F = vc.int("F", lo=1)
        fi = vc.int("fold_idx", lo=0)
        vc.assume(fi < F)
        if _case == "single_fold_tensor":
            vc.assume(z3.And(F == 1))
        elif _case == "fold_of_many":
            vc.assume(z3.And(F >= 2, fi >= 1))
        else:
            vc.assume(z3.And(F >= 2, fi == 0))
        target = vc.opaque("compiled_tensor_of_the_operand", attrs={"num_folds": F, "shape": (A,)}, cls=f"{TN}:TorchTensorParameter")
        asked = []
        state = Opaque("state")
        state.attrs["retrieve_compiled_parameter"] = lambda o: BoundBuiltin(lambda p: asked.append(p) or (target, fi))
        comp = Opaque("compiler")
        comp.attrs["state"] = state
        t = vc.call(f"{RP}:compile_reference_parameter", comp, ref)
        ok = isinstance(t, Obj) and t.cls.name == "TorchPointerParameter"
        vc.ensure("compiles_to_a_pointer", ok)
        vc.ensure("registry_asked_for_the_referenced_symbolic_tensor", len(asked) == 1 and asked[0] is tp)
        if ok:
            vc.ensure("points_to_the_operands_compiled_tensor", vc.call((t, "deref")) is target)
            idx = vc.attr(t, "fold_idx")
            if idx is None:
                vc.ensure("whole_tensor_only_when_it_has_a_single_fold", z3.And(F == 1, fi == 0))
            else:
                vc.ensure("selects_the_registered_fold", vc.eq(idx, [fi]))
            vc.ensure("one_fold", vc.attr(t, "num_folds") == 1)
    obligation(f"C10.rule.compile_reference_parameter.{_case}", "C10", [f"{RP}:compile_reference_parameter", f"{TN}:TorchPointerParameter.__init__"])(_h)


def _partial_of(p, dotted_suffix=None, func_name=None):
    if not isinstance(p, PartialVal):
        return False
    f = p.func
    if dotted_suffix is not None:
        return isinstance(f, ExternalVal) and f.dotted.endswith(dotted_suffix)
    return isinstance(f, FuncVal) and f.info.name == func_name


@obligation("C17.rule.uniform_initializer", "C17", [f"{RI}:compile_uniform_initializer", f"{SI}:UniformInitializer.__init__"])
def _(vc):
    a, b = vc.real("a"), vc.real("b")
    vc.assume(a < b)
    init = vc.new(f"{SI}:UniformInitializer", a, b)
    p = vc.call(f"{RI}:compile_uniform_initializer", vc.opaque("compiler"), init)
    vc.ensure("partial_of_nn_init_uniform_", _partial_of(p, "init.uniform_") and p.args == [])
    if isinstance(p, PartialVal):
        vc.ensure("bounds_are_the_initialisers", set(p.kwargs) == {"a", "b"} and vc.must(z3.And(to_z3(p.kwargs["a"]) == a, to_z3(p.kwargs["b"]) == b)))


@obligation("C17.rule.normal_initializer", "C17", [f"{RI}:compile_normal_initializer", f"{SI}:NormalInitializer.__init__"])
def _(vc):
    m, s = vc.real("mean"), vc.real("stddev")
    vc.assume(s > 0)
    init = vc.new(f"{SI}:NormalInitializer", m, s)
    p = vc.call(f"{RI}:compile_normal_initializer", vc.opaque("compiler"), init)
    vc.ensure("partial_of_nn_init_normal_", _partial_of(p, "init.normal_") and p.args == [])
    if isinstance(p, PartialVal):
        vc.ensure("mean_and_std_are_the_initialisers", set(p.kwargs) == {"mean", "std"} and vc.must(z3.And(to_z3(p.kwargs["mean"]) == m, to_z3(p.kwargs["std"]) == s)))


@obligation("C17.rule.constant_tensor_initializer.scalar", "C17", [f"{RI}:compile_constant_tensor_initializer"])
def _(vc):
    c = vc.real("c")
    init = vc.new(f"{SI}:ConstantTensorInitializer", c)
    p = vc.call(f"{RI}:compile_constant_tensor_initializer", vc.opaque("compiler"), init)
    vc.ensure("partial_of_torch_fill_", _partial_of(p, "fill_") and p.args == [])
    if isinstance(p, PartialVal):
        vc.ensure("value_is_the_initialisers", set(p.kwargs) == {"value"} and vc.must(to_z3(p.kwargs["value"]) == c))


@obligation("C17.rule.constant_tensor_initializer.ndarray", "C17", [f"{RI}:compile_constant_tensor_initializer"])
def _(vc):
    arr = NdArray([vc.real("x0"), vc.real("x1"), vc.real("x2")])
    init = vc.new(f"{SI}:ConstantTensorInitializer", arr)
    p = vc.call(f"{RI}:compile_constant_tensor_initializer", vc.opaque("compiler"), init)
    vc.ensure("partial_of_copy_from_ndarray_", _partial_of(p, func_name="copy_from_ndarray_") and p.args == [])
    if isinstance(p, PartialVal):
        vc.ensure("array_is_the_initialisers_own_array", set(p.kwargs) == {"array"} and p.kwargs["array"] is arr)


for _rank in (1, 2, 3):
    def _h(vc, _rank=_rank):
        """Log <- Softmax is replaced by one LogSoftmax node over the softmax's input shape and dim"""
        shape = vc.shape("shape", _rank)
        dim = vc.int("dim", lo=0)
        vc.assume(dim < _rank)
        sm = vc.new(f"{TN}:TorchSoftmaxParameter", tuple(shape), dim=dim)
        lg = vc.new(f"{TN}:TorchLogParameter", tuple(shape))
        match = vc.new(f"{GO}:GraphOptMatch", vc.opaque("pattern"), [lg, sm])
        out = vc.call(f"{OP}:apply_log_softmax", vc.opaque("compiler"), match)
        ok = isinstance(out, tuple) and len(out) == 1 and isinstance(out[0], Obj) and out[0].cls.name == "TorchLogSoftmaxParameter"
        vc.ensure("one_log_softmax_node", ok)
        if ok:
            n = out[0]
            vc.ensure("same_dim", vc.attr(n, "dim") == vc.attr(sm, "dim"))
            vc.ensure("same_input_shape", vc.eq(tuple(vc.attr(n, "in_shapes")[0]), tuple(shape)))
            vc.ensure("same_output_shape_as_the_matched_chain", vc.eq(tuple(vc.attr(n, "shape")), tuple(vc.attr(lg, "shape"))))
    obligation(f"C14.opt.apply_log_softmax.rank{_rank}", "C14", [f"{OP}:apply_log_softmax"])(_h)
