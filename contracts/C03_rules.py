"""C03 (rules): every integration rule of cirkit/symbolic/operators.py returns a constant layer whose value denotes the
sum / integral of the input layer's units over the layer's variable - for every number of units, every number of
states, every variable id, every integration scope containing the variable, and every kind of operand parameter graph.

Post-conditions are taken from the property statement ("the sum (discrete) or integral (continuous) of c over z"):
    embedding     value[k] = SUM_x W[k, x]                      linear space
    categorical   value[k] = log SUM_x exp(logits[k, x])        log space   (logits)
                  value[k] = 0  (= log 1)                       log space   (probs: normalised by the layer's contract)
    gaussian      value[k] = log_partition[k]  |  0             log space   (integral of a Normal density is 1: stated lemma)
and the refusal clause: a rule applied with an integration scope that misses the layer's variable raises ValueError.
"""
import z3

from engine.vc import obligation
from engine.values import to_z3, EMPTY
from contracts.lib import *
from contracts import specs as S


def _run(vc, sl, v, rule):
    Z = vc.set("Z")
    vc.assume(z3.Select(Z.arr, v))
    zs = vc.new(f"{SC}:Scope", Z)
    blk = vc.call(f"{SO}:{rule}", sl, scope=zs)
    out = single_layer(vc, blk)
    return out


def _const_layer_clauses(vc, out, K, log_space):
    ok = out is not None and out.cls.name == "ConstantValueLayer"
    vc.ensure("is_constant_value_layer", ok)
    if not ok:
        return False
    vc.ensure("units", vc.attr(out, "num_output_units") == K)
    vc.ensure("empty_scope", scope_arr(vc.attr(out, "scope")) == EMPTY)
    vc.ensure("log_space_flag", vc.attr(out, "log_space") is log_space)
    return True


for _kind in PARAM_KINDS:
    def _h(vc, _kind=_kind):
        K, C = vc.int("K", lo=1), vc.int("C", lo=2)
        v, scope = scope1(vc)
        w = tensor_param(vc, (K, C), _kind, unary="ExpParameter")
        sl = vc.new(f"{SL}:EmbeddingLayer", scope, K, num_states=C, weight=w)
        out = _run(vc, sl, v, "integrate_embedding_layer")
        if not _const_layer_clauses(vc, out, K, False):
            return
        env = {}
        val = S.den_param(vc, vc.attr(out, "value"), env)
        W = S.den_param(vc, w, env)
        S.shape_eq(vc, val, [K])
        (k,) = vc.index_consts([K])
        vc.ensure("value_is_sum_over_states", val.elem([k]) == vc.red("sum", [C], lambda x: W.elem([k, x])))
        S.sharing_clauses(vc, [vc.attr(out, "value")], [w])
    obligation(f"C03.rule.integrate_embedding_layer.{_kind}", "C03", [f"{SO}:integrate_embedding_layer"])(_h)

    def _h(vc, _kind=_kind):
        K, C = vc.int("K", lo=1), vc.int("C", lo=2)
        v, scope = scope1(vc)
        lg = tensor_param(vc, (K, C), _kind, unary="LogParameter")
        sl = vc.new(f"{SL}:CategoricalLayer", scope, K, num_categories=C, logits=lg)
        out = _run(vc, sl, v, "integrate_categorical_layer")
        if not _const_layer_clauses(vc, out, K, True):
            return
        env = {}
        val = S.den_param(vc, vc.attr(out, "value"), env)
        L = S.den_param(vc, lg, env)
        S.shape_eq(vc, val, [K])
        (k,) = vc.index_consts([K])
        vc.ensure("value_is_logsumexp_over_categories", val.elem([k]) == vc.red("lse", [C], lambda x: L.elem([k, x])))
        S.sharing_clauses(vc, [vc.attr(out, "value")], [lg])
    obligation(f"C03.rule.integrate_categorical_layer.logits.{_kind}", "C03", [f"{SO}:integrate_categorical_layer"])(_h)

    def _h(vc, _kind=_kind):
        K, C = vc.int("K", lo=1), vc.int("C", lo=2)
        v, scope = scope1(vc)
        pr = tensor_param(vc, (K, C), _kind, unary="SoftmaxParameter")
        sl = vc.new(f"{SL}:CategoricalLayer", scope, K, num_categories=C, probs=pr)
        out = _run(vc, sl, v, "integrate_categorical_layer")
        if not _const_layer_clauses(vc, out, K, True):
            return
        env = {}
        val = S.den_param(vc, vc.attr(out, "value"), env)
        S.shape_eq(vc, val, [K])
        (k,) = vc.index_consts([K])
        vc.ensure("value_is_log_one", val.elem([k]) == 0)
        S.sharing_clauses(vc, [vc.attr(out, "value")], [pr])
    obligation(f"C03.rule.integrate_categorical_layer.probs.{_kind}", "C03", [f"{SO}:integrate_categorical_layer"])(_h)

    for _lp in (False, True):
        def _h(vc, _kind=_kind, _lp=_lp):
            K = vc.int("K", lo=1)
            v, scope = scope1(vc)
            mean = tensor_param(vc, (K,), "tensor")
            std = tensor_param(vc, (K,), "unary", unary="SoftplusParameter")
            lp = tensor_param(vc, (K,), _kind, unary="LogParameter") if _lp else None
            sl = vc.new(f"{SL}:GaussianLayer", scope, K, mean=mean, stddev=std, log_partition=lp)
            out = _run(vc, sl, v, "integrate_gaussian_layer")
            if not _const_layer_clauses(vc, out, K, True):
                return
            env = {}
            val = S.den_param(vc, vc.attr(out, "value"), env)
            S.shape_eq(vc, val, [K])
            (k,) = vc.index_consts([K])
            if _lp:
                vc.ensure("value_is_log_partition", val.elem([k]) == S.den_param(vc, lp, env).elem([k]))
            else:
                vc.ensure("value_is_log_one", val.elem([k]) == 0)
            S.sharing_clauses(vc, [vc.attr(out, "value")], [mean, std] + ([lp] if _lp else []))
        obligation(f"C03.rule.integrate_gaussian_layer.{'lp' if _lp else 'nolp'}.{_kind}", "C03", [f"{SO}:integrate_gaussian_layer"])(_h)


for _rule, _mk in {
    "integrate_embedding_layer": lambda vc, scope, K: vc.new(f"{SL}:EmbeddingLayer", scope, K, num_states=vc.int("C", lo=2)),
    "integrate_categorical_layer": lambda vc, scope, K: vc.new(f"{SL}:CategoricalLayer", scope, K, num_categories=vc.int("C", lo=2)),
    "integrate_gaussian_layer": lambda vc, scope, K: vc.new(f"{SL}:GaussianLayer", scope, K),
}.items():
    def _h(vc, _rule=_rule, _mk=_mk):
        """a rule never integrates a layer whose variable is outside the integration scope"""
        K = vc.int("K", lo=1)
        v, scope = scope1(vc)
        sl = _mk(vc, scope, K)
        Z = vc.set("Z")
        vc.assume(z3.Not(z3.Select(Z.arr, v)))
        zs = vc.new(f"{SC}:Scope", Z)
        exc, _ = vc.raises(lambda: vc.call(f"{SO}:{_rule}", sl, scope=zs))
        vc.ensure("refuses_with_ValueError", exc == "ValueError")
    obligation(f"C03.rule.{_rule}.refuses_foreign_scope", "C03", [f"{SO}:{_rule}"])(_h)
