"""C04 (rules): every multiplication rule of cirkit/symbolic/operators.py returns a layer whose unit (o1, o2), stored at
position o1*K2 + o2 (Kronecker order, first operand major - the order functional.multiply relies on when it wires the
children with itertools.product / zip), computes the product of unit o1 of the first and unit o2 of the second operand.

For all unit counts, state counts, arities, variable ids and kinds of operand parameter graphs:
    embedding     W[o1*K2+o2, x]       = W1[o1, x] * W2[o2, x]
    categorical   logits[o1*K2+o2, x]  = log p1[o1, x] + log p2[o2, x]            (logits or log(probs) per operand)
    gaussian      mean / stddev / log-partition closed forms in Kronecker order, log-partitions of the operands added
    polynomial    coeff = PolynomialProduct(c1, c2) in that operand order, degree d1 + d2
    hadamard      Hadamard layer over K1*K2 units with the common arity
    sum           W[o1*Ko2+o2, column of (input (h1,h2), unit (i1,i2))] = W1[o1, h1*Ki1+i1] * W2[o2, h2*Ki2+i2]
                  where input (h1,h2) sits at h1*H2+h2 and its unit (i1,i2) at i1*Ki2+i2   [the alignment lemma]
The result keeps the scope, never owns a new learnable tensor, and never raises on shape grounds (the constructors'
own checks are obligations: an exception on a feasible path is a refuted clause).
"""
import z3

from engine.vc import obligation
from engine.values import to_z3
from engine.tensor import MR
from contracts.lib import *
from contracts import specs as S


def _two_scopes(vc):
    v, scope = scope1(vc)
    scope2 = vc.new(f"{SC}:Scope", [v])
    return v, scope, scope2


def _common(vc, out, cls, scope, units, operands):
    ok = out is not None and out.cls.name == cls
    vc.ensure("result_class", ok)
    if not ok:
        return False
    vc.ensure("units_product", vc.attr(out, "num_output_units") == units)
    if scope is not None:
        vc.ensure("same_scope", same_scope(vc, vc.attr(out, "scope"), scope))
    S.sharing_clauses(vc, list(params_of(vc, out).values()), operands)
    return True


for _k1 in PARAM_KINDS:
    for _k2 in PARAM_KINDS:
        def _h(vc, _k1=_k1, _k2=_k2):
            K1, K2, C = vc.int("K1", lo=1), vc.int("K2", lo=1), vc.int("C", lo=2)
            v, sc1, sc2 = _two_scopes(vc)
            w1, w2 = tensor_param(vc, (K1, C), _k1, "ExpParameter"), tensor_param(vc, (K2, C), _k2, "ExpParameter")
            sl1 = vc.new(f"{SL}:EmbeddingLayer", sc1, K1, num_states=C, weight=w1)
            sl2 = vc.new(f"{SL}:EmbeddingLayer", sc2, K2, num_states=C, weight=w2)
            out = single_layer(vc, vc.call(f"{SO}:multiply_embedding_layers", sl1, sl2))
            if not _common(vc, out, "EmbeddingLayer", sc1, K1 * K2, [w1, w2]):
                return
            vc.ensure("num_states", vc.attr(out, "num_states") == C)
            env = {}
            W = S.den_param(vc, vc.attr(out, "weight"), env)
            W1, W2 = S.den_param(vc, w1, env), S.den_param(vc, w2, env)
            S.shape_eq(vc, W, [K1 * K2, C])
            o1, o2, x = vc.index_consts([K1, K2, C])
            vc.ensure("unit_pair_is_product", W.elem([MR([(o1, K1), (o2, K2)]), x]) == W1.elem([o1, x]) * W2.elem([o2, x]))
        obligation(f"C04.rule.multiply_embedding_layers.{_k1}.{_k2}", "C04", [f"{SO}:multiply_embedding_layers"])(_h)

for _p1 in ("logits", "probs"):
    for _p2 in ("logits", "probs"):
        for _kind in PARAM_KINDS:
            def _h(vc, _p1=_p1, _p2=_p2, _kind=_kind):
                K1, K2, C = vc.int("K1", lo=1), vc.int("K2", lo=1), vc.int("C", lo=2)
                v, sc1, sc2 = _two_scopes(vc)
                a1 = tensor_param(vc, (K1, C), _kind, "SoftmaxParameter" if _p1 == "probs" else "LogParameter")
                a2 = tensor_param(vc, (K2, C), _kind, "SoftmaxParameter" if _p2 == "probs" else "LogParameter")
                sl1 = vc.new(f"{SL}:CategoricalLayer", sc1, K1, num_categories=C, **{_p1: a1})
                sl2 = vc.new(f"{SL}:CategoricalLayer", sc2, K2, num_categories=C, **{_p2: a2})
                out = single_layer(vc, vc.call(f"{SO}:multiply_categorical_layers", sl1, sl2))
                if not _common(vc, out, "CategoricalLayer", sc1, K1 * K2, [a1, a2]):
                    return
                vc.ensure("num_categories", vc.attr(out, "num_categories") == C)
                lg = vc.attr(out, "logits")
                vc.ensure("result_in_logits", lg is not None and vc.attr(out, "probs") is None)
                if lg is None:
                    return
                env = {}
                L = S.den_param(vc, lg, env)
                A1, A2 = S.den_param(vc, a1, env), S.den_param(vc, a2, env)
                S.shape_eq(vc, L, [K1 * K2, C])
                o1, o2, x = vc.index_consts([K1, K2, C])
                l1 = A1.elem([o1, x]) if _p1 == "logits" else vc.fn("log", A1.elem([o1, x]))
                l2 = A2.elem([o2, x]) if _p2 == "logits" else vc.fn("log", A2.elem([o2, x]))
                vc.ensure("unit_pair_is_sum_of_log_probabilities", L.elem([MR([(o1, K1), (o2, K2)]), x]) == l1 + l2)
            obligation(f"C04.rule.multiply_categorical_layers.{_p1}.{_p2}.{_kind}", "C04", [f"{SO}:multiply_categorical_layers"])(_h)

import math
_LOG2PI = z3.RealVal(math.log(2.0 * math.pi))

for _lp1 in (False, True):
    for _lp2 in (False, True):
        def _h(vc, _lp1=_lp1, _lp2=_lp2):
            K1, K2 = vc.int("K1", lo=1), vc.int("K2", lo=1)
            v, sc1, sc2 = _two_scopes(vc)
            m1, s1 = tensor_param(vc, (K1,), "tensor"), tensor_param(vc, (K1,), "unary", "SoftplusParameter")
            m2, s2 = tensor_param(vc, (K2,), "reference"), tensor_param(vc, (K2,), "tensor")
            p1 = tensor_param(vc, (K1,), "tensor") if _lp1 else None
            p2 = tensor_param(vc, (K2,), "reference") if _lp2 else None
            sl1 = vc.new(f"{SL}:GaussianLayer", sc1, K1, mean=m1, stddev=s1, log_partition=p1)
            sl2 = vc.new(f"{SL}:GaussianLayer", sc2, K2, mean=m2, stddev=s2, log_partition=p2)
            out = single_layer(vc, vc.call(f"{SO}:multiply_gaussian_layers", sl1, sl2))
            ops = [m1, s1, m2, s2] + [p for p in (p1, p2) if p is not None]
            if not _common(vc, out, "GaussianLayer", sc1, K1 * K2, ops):
                return
            env = {}
            M, Sd = S.den_param(vc, vc.attr(out, "mean"), env), S.den_param(vc, vc.attr(out, "stddev"), env)
            lp = vc.attr(out, "log_partition")
            vc.ensure("has_log_partition", lp is not None)
            if lp is None:
                return
            LP = S.den_param(vc, lp, env)
            d = {n: S.den_param(vc, p, env) for n, p in (("m1", m1), ("s1", s1), ("m2", m2), ("s2", s2))}
            for t, nm in ((M, "mean"), (Sd, "stddev"), (LP, "log_partition")):
                S.shape_eq(vc, t, [K1 * K2], nm + ".shape")
            i, j = vc.index_consts([K1, K2])
            pos = [MR([(i, K1), (j, K2)])]
            a, sa, b, sb = d["m1"].elem([i]), d["s1"].elem([i]), d["m2"].elem([j]), d["s2"].elem([j])
            va, vb = sa * sa, sb * sb
            vc.assume(va + vb > 0)
            vc.ensure("mean_closed_form", M.elem(pos) == (a * vb + b * va) / (va + vb))
            vc.ensure("stddev_closed_form", Sd.elem(pos) == vc.fn("sqrt", 1 / (1 / va + 1 / vb)))
            expect = z3.RealVal(-0.5) * (_LOG2PI + vc.fn("log", va + vb) + (a - b) * (a - b) / (va + vb))
            if _lp1:
                expect = expect + S.den_param(vc, p1, env).elem([i])
            if _lp2:
                expect = expect + S.den_param(vc, p2, env).elem([j])
            vc.ensure("log_partition_closed_form_plus_operand_log_partitions", LP.elem(pos) == expect)
        obligation(f"C04.rule.multiply_gaussian_layers.lp{int(_lp1)}{int(_lp2)}", "C04", [f"{SO}:multiply_gaussian_layers"])(_h)


@obligation("C04.rule.multiply_polynomial_layers", "C04", [f"{SO}:multiply_polynomial_layers"])
def _(vc):
    K1, K2, d1, d2 = vc.int("K1", lo=1), vc.int("K2", lo=1), vc.int("d1", lo=0), vc.int("d2", lo=0)
    v, sc1, sc2 = _two_scopes(vc)
    c1, c2 = tensor_param(vc, (K1, d1 + 1), "tensor"), tensor_param(vc, (K2, d2 + 1), "reference")
    sl1 = vc.new(f"{SL}:PolynomialLayer", sc1, K1, degree=d1, coeff=c1)
    sl2 = vc.new(f"{SL}:PolynomialLayer", sc2, K2, degree=d2, coeff=c2)
    out = single_layer(vc, vc.call(f"{SO}:multiply_polynomial_layers", sl1, sl2))
    if not _common(vc, out, "PolynomialLayer", sc1, K1 * K2, [c1, c2]):
        return
    vc.ensure("degree_adds", vc.attr(out, "degree") == d1 + d2)
    P = vc.attr(out, "coeff")
    (root,) = P.fields["_outputs"]
    ins = P.fields["_in_nodes"].get(root, [])
    ok = root.cls.name == "PolynomialProduct" and len(ins) == 2
    vc.ensure("coeff_is_polynomial_product", ok)
    if ok:
        t1 = vc.call((ins[0], "deref")) if S.cls_is(vc, ins[0], "ReferenceParameter") else None
        t2 = vc.call((ins[1], "deref")) if S.cls_is(vc, ins[1], "ReferenceParameter") else None
        own1 = c1.fields["_outputs"][0]
        own2 = vc.call((c2.fields["_outputs"][0], "deref"))
        vc.ensure("first_factor_is_first_operand", t1 is own1)
        vc.ensure("second_factor_is_second_operand", t2 is own2)
        S.shape_eq(vc, S.den_param(vc, P, {}), [K1 * K2, d1 + d2 + 1], "coeff.shape")


@obligation("C04.rule.multiply_hadamard_layers", "C04", [f"{SO}:multiply_hadamard_layers"])
def _(vc):
    K1, K2, H = vc.int("K1", lo=1), vc.int("K2", lo=1), vc.int("H", lo=2)
    sl1, sl2 = vc.new(f"{SL}:HadamardLayer", K1, arity=H), vc.new(f"{SL}:HadamardLayer", K2, arity=H)
    out = single_layer(vc, vc.call(f"{SO}:multiply_hadamard_layers", sl1, sl2))
    ok = out is not None and out.cls.name == "HadamardLayer"
    vc.ensure("result_class", ok)
    if ok:
        vc.ensure("units_product", z3.And(vc.attr(out, "num_input_units") == K1 * K2, vc.attr(out, "num_output_units") == K1 * K2))
        vc.ensure("same_arity", vc.attr(out, "arity") == H)


for _k1 in ("tensor", "reference"):
    def _h(vc, _k1=_k1):
        """alignment lemma: the Kronecker weight, after the column re-indexing, multiplies W1[o1, (h1,i1)] * W2[o2, (h2,i2)]
        with unit (i1,i2) of input (h1,h2) - for every pair of arities and unit counts"""
        Ko1, Ko2 = vc.int("Ko1", lo=1), vc.int("Ko2", lo=1)
        Ki1, Ki2 = vc.int("Ki1", lo=1), vc.int("Ki2", lo=1)
        H1, H2 = vc.int("H1", lo=1), vc.int("H2", lo=1)
        w1, w2 = tensor_param(vc, (Ko1, H1 * Ki1), _k1), tensor_param(vc, (Ko2, H2 * Ki2), "tensor")
        sl1 = vc.new(f"{SL}:SumLayer", Ki1, Ko1, arity=H1, weight=w1)
        sl2 = vc.new(f"{SL}:SumLayer", Ki2, Ko2, arity=H2, weight=w2)
        out = single_layer(vc, vc.call(f"{SO}:multiply_sum_layers", sl1, sl2))
        if not _common(vc, out, "SumLayer", None, Ko1 * Ko2, [w1, w2]):
            return
        vc.ensure("input_units_product", vc.attr(out, "num_input_units") == Ki1 * Ki2)
        vc.ensure("arity_product", vc.attr(out, "arity") == H1 * H2)
        env = {}
        W = S.den_param(vc, vc.attr(out, "weight"), env)
        W1, W2 = S.den_param(vc, w1, env), S.den_param(vc, w2, env)
        S.shape_eq(vc, W, [Ko1 * Ko2, (H1 * H2) * (Ki1 * Ki2)])
        o1, o2, h1, h2, i1, i2 = vc.index_consts([Ko1, Ko2, H1, H2, Ki1, Ki2])
        row = MR([(o1, Ko1), (o2, Ko2)])
        # the column the product sum layer uses for unit (i1, i2) of its input number h1*H2 + h2
        col = MR([(h1, H1), (h2, H2), (i1, Ki1), (i2, Ki2)])
        vc.ensure("kronecker_weight_aligned_with_product_inputs",
                  W.elem([row, col]) == W1.elem([o1, MR([(h1, H1), (i1, Ki1)])]) * W2.elem([o2, MR([(h2, H2), (i2, Ki2)])]))
    obligation(f"C04.rule.multiply_sum_layers.align.{_k1}", "C04", [f"{SO}:multiply_sum_layers"])(_h)


for _rule, _mk in {
    "multiply_embedding_layers": lambda vc, sc, K: vc.new(f"{SL}:EmbeddingLayer", sc, K, num_states=vc.int("C", lo=2)),
    "multiply_categorical_layers": lambda vc, sc, K: vc.new(f"{SL}:CategoricalLayer", sc, K, num_categories=vc.int("C", lo=2)),
    "multiply_gaussian_layers": lambda vc, sc, K: vc.new(f"{SL}:GaussianLayer", sc, K),
    "multiply_polynomial_layers": lambda vc, sc, K: vc.new(f"{SL}:PolynomialLayer", sc, K, degree=vc.int("d", lo=0)),
}.items():
    def _h(vc, _rule=_rule, _mk=_mk):
        """input layers over different variables are never multiplied entrywise"""
        K1, K2 = vc.int("K1", lo=1), vc.int("K2", lo=1)
        v1, sc1 = scope1(vc, "v1")
        v2, sc2 = scope1(vc, "v2")
        vc.assume(v1 != v2)
        sl1, sl2 = _mk(vc, sc1, K1), _mk(vc, sc2, K2)
        exc, _ = vc.raises(lambda: vc.call(f"{SO}:{_rule}", sl1, sl2))
        vc.ensure("refuses_with_ValueError", exc == "ValueError")
    obligation(f"C04.rule.{_rule}.refuses_different_scopes", "C04", [f"{SO}:{_rule}"])(_h)

for _rule, _cls, _kw in (("multiply_embedding_layers", "EmbeddingLayer", "num_states"), ("multiply_categorical_layers", "CategoricalLayer", "num_categories")):
    def _h(vc, _rule=_rule, _cls=_cls, _kw=_kw):
        """layers with different numbers of states are refused"""
        K1, K2, C1, C2 = vc.int("K1", lo=1), vc.int("K2", lo=1), vc.int("C1", lo=2), vc.int("C2", lo=2)
        vc.assume(C1 != C2)
        v, sc1, sc2 = _two_scopes(vc)
        sl1, sl2 = vc.new(f"{SL}:{_cls}", sc1, K1, **{_kw: C1}), vc.new(f"{SL}:{_cls}", sc2, K2, **{_kw: C2})
        exc, _ = vc.raises(lambda: vc.call(f"{SO}:{_rule}", sl1, sl2))
        vc.ensure("refuses_with_ValueError", exc == "ValueError")
    obligation(f"C04.rule.{_rule}.refuses_different_state_counts", "C04", [f"{SO}:{_rule}"])(_h)


# ------------------------------------------------------------------------------------------------ multiply_kronecker_layers (numpy permutation)
for _H, _conc in ((2, None), (3, None), (2, (2, 3)), (3, (2, 2))):
    def _h(vc, _H=_H, _conc=_conc):
        """kron(x1_0..x1_{H-1}) (x) kron(x2_0..x2_{H-1}) as ONE Kronecker layer over the pair inputs (x1_h (x) x2_h) followed by a constant
        permutation: the pair layer's unit (i1_0,i2_0, i1_1,i2_1, ...) must land on unit ((i1_0..i1_{H-1}), (i2_0..i2_{H-1})) - first operand
        major.  The permutation matrix is built with numpy (eye / reshape / transpose), modelled as tensor operations."""
        from engine.tensor import MR, Tensor
        K1, K2 = (vc.int("K1", lo=1), vc.int("K2", lo=1)) if _conc is None else _conc      # (concrete sizes: an easily refutable instance)
        a = vc.new(f"{SL}:KroneckerLayer", K1, arity=_H)
        b = vc.new(f"{SL}:KroneckerLayer", K2, arity=_H)
        blk = vc.call(f"{SO}:multiply_kronecker_layers", a, b)
        nodes = list(blk.fields["_nodes"])
        ok = len(nodes) == 2 and nodes[0].cls.name == "KroneckerLayer" and nodes[1].cls.name == "SumLayer"
        vc.ensure("pair_kronecker_then_sum", ok and list(blk.fields["_in_nodes"].get(nodes[1], [])) == [nodes[0]])
        if not ok:
            return
        kr, sm = nodes
        n = K1 * K2
        for _ in range(_H - 1):
            n = n * (K1 * K2)
        vc.ensure("pair_layer_units_and_arity", z3.And(vc.attr(kr, "num_input_units") == K1 * K2, vc.attr(kr, "arity") == _H))
        vc.ensure("sum_is_square_of_arity_one", z3.And(vc.attr(sm, "num_input_units") == n, vc.attr(sm, "num_output_units") == n, vc.attr(sm, "arity") == 1))
        P = vc.attr(sm, "weight")
        (out,) = P.fields["_outputs"]
        vc.ensure("weight_is_a_constant", out.cls.name == "ConstantParameter" and P.fields["_in_nodes"].get(out, []) == [])
        perm = out.fields.get("value")
        good = isinstance(perm, Tensor) and perm.rank == 2
        vc.ensure("constant_matrix", good)
        if not good:
            return
        i1 = vc.index_consts([K1] * _H, "i")
        i2 = vc.index_consts([K2] * _H, "j")
        c1 = vc.index_consts([K1] * _H, "p")
        c2 = vc.index_consts([K2] * _H, "q")
        row = MR([(x, K1) for x in i1] + [(x, K2) for x in i2])
        col = MR([d for h in range(_H) for d in ((c1[h], K1), (c2[h], K2))])
        same = z3.And(*[i1[h] == c1[h] for h in range(_H)], *[i2[h] == c2[h] for h in range(_H)])
        vc.ensure("permutation_sends_pairwise_units_to_first_operand_major_units", perm.elem([row, col]) == z3.If(same, z3.RealVal(1), z3.RealVal(0)))
    obligation(f"C04.rule.multiply_kronecker_layers.arity{_H}" + ("" if _conc is None else f".units{_conc[0]}x{_conc[1]}"), "C04", [f"{SO}:multiply_kronecker_layers"])(_h)
