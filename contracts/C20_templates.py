"""C20 (templates as circuits): the symbolic circuit returned by a template has the structure its formula needs, with every
per-variable argument attached to the input layer of THAT variable - for all dimension sizes, ranks, latent-state counts
(tensor order / chain length enumerated).

  cp(shape, rank)       factor j = input layer over variable j with shape[j] states and `rank` units; a Hadamard product of all
                        factors in order; a sum rank -> 1 (constant ones when unweighted): SUM_r w_r PROD_j a_j[x_j, r]
  tucker(shape, rank)   the same factors, a Kronecker product in order (rank**n units, factor 0 major), a sum rank**n -> 1 (the core)
  hmm(ordering, ...)    a chain over the variables in the given ordering: input layer of variable v built with the arguments listed
                        for v (input_layer_kwargs[v]), `num_latent_states` units, product (previous dense, input), dense sums, one
                        output unit at the end; refused when the ordering is not a permutation
  fully_factorized(n)   one input layer per variable v with the arguments listed for v, a Hadamard product over all of them
The numeric identities (vs explicit contractions / forward algorithm) and tensor_train (numpy / scipy block_diag) are covered by the
bounded stand-in only.
"""
import itertools

import z3

from engine.vc import obligation
from engine.values import to_z3, Obj
from contracts.lib import *
from contracts import specs as S

TF = "cirkit/templates/tensor_factorizations.py"
PG = "cirkit/templates/pgms.py"


def _layers(sc):
    return list(sc.fields["_nodes"]), sc.fields["_in_nodes"], list(sc.fields["_outputs"])


def _is_var(vc, l, v):
    return vc.must(scope_arr(vc.attr(l, "scope")) == z3.Store(z3.K(z3.IntSort(), False), to_z3(v), True))


for _n in (1, 2, 3, 4):
    for _tpl in ("cp", "tucker"):
        if _n == 1:
            continue  # a single mode has no product layer (arity >= 2): refused inside the layer constructors

        def _h(vc, _n=_n, _tpl=_tpl):
            shape = tuple(vc.int(f"d{j}", lo=2) for j in range(_n))
            R = vc.int("rank", lo=1)
            sc = vc.call(f"{TF}:{_tpl}", shape, R)
            layers, ins, outs = _layers(sc)
            facs = [l for l in layers if S.cls_is(vc, l, "InputLayer")]
            vc.ensure("one_factor_per_mode", len(facs) == _n)
            if len(facs) != _n:
                return
            for j, l in enumerate(facs):
                vc.ensure(f"factor{j}.over_variable_{j}", _is_var(vc, l, j))
                vc.ensure(f"factor{j}.states_is_dimension_{j}", vc.attr(l, "num_states") == shape[j])
                vc.ensure(f"factor{j}.rank_units", vc.attr(l, "num_output_units") == R)
            prods = [l for l in layers if S.cls_is(vc, l, "ProductLayer")]
            sums = [l for l in layers if l.cls.name == "SumLayer"]
            ok = len(prods) == 1 and len(sums) == 1
            vc.ensure("one_product_one_sum", ok)
            if not ok:
                return
            p, s = prods[0], sums[0]
            vc.ensure("product_class", p.cls.name == ("HadamardLayer" if _tpl == "cp" else "KroneckerLayer"))
            got = list(ins.get(p, []))
            vc.ensure("product_over_all_factors_in_mode_order", len(got) == _n and all(g is f for g, f in zip(got, facs)))
            vc.ensure("sum_over_the_product", list(ins.get(s, [])) == [p] or (len(ins.get(s, [])) == 1 and ins[s][0] is p))
            vc.ensure("single_scalar_output", len(outs) == 1 and outs[0] is s and vc.must(to_z3(vc.attr(s, "num_output_units")) == 1))
            units = R
            if _tpl == "tucker":
                for _ in range(_n - 1):
                    units = units * R
            vc.ensure("sum_input_units", vc.attr(s, "num_input_units") == units)
            if _tpl == "cp":
                W = S.den_param(vc, vc.attr(s, "weight"), {})
                S.shape_eq(vc, W, [1, R], "weight_shape")
                (r,) = vc.index_consts([R])
                vc.ensure("unweighted_cp_sums_the_rank_one_terms", W.elem([0, r]) == 1)
        obligation(f"C20.{_tpl}.order{_n}", "C20", [f"{TF}:{_tpl}", f"{TF}:_input_layer_factory_builder"])(_h)


def _chain(vc, sc):
    """walk an hmm circuit from the output back: returns the input layers in chain order (last variable first)"""
    layers, ins, outs = _layers(sc)
    if len(outs) != 1:
        return None
    cur, seq = outs[0], []
    for _ in range(len(layers) + 1):
        if cur.cls.name != "SumLayer" or len(ins.get(cur, [])) != 1:
            return None
        below = ins[cur][0]
        if S.cls_is(vc, below, "InputLayer"):
            seq.append(below)
            return seq
        if below.cls.name != "HadamardLayer" or len(ins.get(below, [])) != 2:
            return None
        prev, inp = ins[below]
        if not S.cls_is(vc, inp, "InputLayer"):
            return None
        seq.append(inp)
        cur = prev
    return None


ORDERINGS = [(0,), (0, 1), (1, 0), (0, 1, 2), (2, 1, 0), (1, 2, 0), (2, 0, 1), (1, 0, 2), (0, 2, 1), (1, 2, 0, 3), (2, 3, 1, 0), (3, 0, 1, 2)]

for _ord in ORDERINGS:
    def _h(vc, _ord=_ord):
        n = len(_ord)
        C = [vc.int(f"C{v}", lo=2) for v in range(n)]
        L = vc.int("L", lo=1)
        sc = vc.call(f"{PG}:hmm", list(_ord), "categorical", L, input_layer_kwargs=[{"num_categories": C[v]} for v in range(n)])
        seq = _chain(vc, sc)
        vc.ensure("chain_shape", seq is not None and len(seq) == n)
        if seq is None or len(seq) != n:
            return
        # walking from the output, the variables appear in ordering order (the last step of the chain joins ordering[0])
        for step, l in enumerate(seq):
            v = _ord[step]
            vc.ensure(f"step{step}.variable_{v}", _is_var(vc, l, v))
            vc.ensure(f"step{step}.categories_listed_for_variable_{v}", vc.attr(l, "num_categories") == C[v])
            vc.ensure(f"step{step}.latent_units", vc.attr(l, "num_output_units") == L)
        outs = list(sc.fields["_outputs"])
        vc.ensure("one_output_unit", vc.must(to_z3(vc.attr(outs[0], "num_output_units")) == 1))
        vc.ensure("scope_is_all_variables", vc.must(z3.And(*[z3.Select(scope_arr(sc.fields["scope"]), v) for v in range(n)])))
    obligation(f"C20.hmm.ordering_{''.join(map(str, _ord))}", "C20", [f"{PG}:hmm", "cirkit/templates/utils.py:name_to_input_layer_factory"])(_h)


@obligation("C20.hmm.refuses_non_permutation", "C20", [f"{PG}:hmm"])
def _(vc):
    exc, _ = vc.raises(lambda: vc.call(f"{PG}:hmm", [0, 2, 2], "categorical", 2))
    vc.ensure("repeated_variable_refused", exc == "ValueError")
    exc, _ = vc.raises(lambda: vc.call(f"{PG}:hmm", [1, 2, 3], "categorical", 2))
    vc.ensure("non_contiguous_ids_refused", exc == "ValueError")
    exc, _ = vc.raises(lambda: vc.call(f"{PG}:hmm", [], "categorical", 2))
    vc.ensure("empty_ordering_refused", exc == "ValueError")


for _n in (1, 2, 3):
    def _h(vc, _n=_n):
        C = [vc.int(f"C{v}", lo=2) for v in range(_n)]
        sc = vc.call(f"{PG}:fully_factorized", _n, "categorical", input_layer_kwargs=[{"num_categories": C[v]} for v in range(_n)])
        layers, ins, outs = _layers(sc)
        facs = [l for l in layers if S.cls_is(vc, l, "InputLayer")]
        vc.ensure("one_input_per_variable", len(facs) == _n)
        for v, l in enumerate(facs[:_n]):
            vc.ensure(f"input{v}.over_variable_{v}", _is_var(vc, l, v))
            vc.ensure(f"input{v}.categories_listed_for_variable_{v}", vc.attr(l, "num_categories") == C[v])
        if _n == 1:
            vc.ensure("single_layer_is_output", len(outs) == 1 and outs[0] is facs[0])
        else:
            prods = [l for l in layers if S.cls_is(vc, l, "ProductLayer")]
            vc.ensure("product_over_all_inputs", len(prods) == 1 and len(ins.get(prods[0], [])) == _n and outs == prods)
    obligation(f"C20.fully_factorized.n{_n}", "C20", [f"{PG}:fully_factorized"])(_h)


# ------------------------------------------------------------------------------------------------ tensor_train (structure)
for _n in (2, 3, 4, 5):
    for _r in (1, 2, 3):
        def _h(vc, _n=_n, _r=_r):
            """TT / MPS: T[x_0..x_{n-1}] = sum over r_1..r_{n-1} of V0[x_0, r_1] V1[r_1, x_1, r_2] ... V_{n-1}[r_{n-1}, x_{n-1}].  Contraction step i
            (i = 0 .. n-2) multiplies the running vector with the embeddings of VARIABLE i+1 - `rank` embeddings of `rank` units and shape[i+1]
            states for an inner variable (one per value of the next bond index), one for the last - and sums with the constant block-diagonal /
            all-ones matrix, whose entries are checked one by one (numpy.ones / scipy.linalg.block_diag are modelled as tensors).  The rank is
            concrete (it is a loop bound), dimensions are symbolic."""
            from engine.values import Opaque
            shape = tuple(vc.int(f"d{j}", lo=2) for j in range(_n))       # (a mode of size 1 is refused by the embedding layer: ValueError)

            sc = vc.call(f"{TF}:tensor_train", shape, _r)
            layers, ins, outs = _layers(sc)
            vc.ensure("single_output", len(outs) == 1)
            # walk the chain back from the output
            cur, steps = outs[0] if outs else None, []
            while cur is not None and cur.cls.name == "SumLayer":
                prods = list(ins.get(cur, []))
                steps.append((cur, prods))
                firsts = [list(ins.get(p, []))[0] for p in prods if len(ins.get(p, [])) == 2]
                cur = firsts[0] if firsts and all(f is firsts[0] for f in firsts) and len(firsts) == len(prods) else None
            steps.reverse()
            vc.ensure("one_contraction_step_per_adjacent_pair_of_variables", len(steps) == _n - 1)
            if len(steps) != _n - 1:
                return
            vc.ensure("chain_starts_at_the_embedding_of_variable_0", cur is not None and cur.cls.name == "EmbeddingLayer" and _is_var(vc, cur, 0) and
                      vc.must(z3.And(to_z3(vc.attr(cur, "num_states")) == to_z3(shape[0]), to_z3(vc.attr(cur, "num_output_units")) == _r)))
            used, seen_vars = [], []
            for i, (s, prods) in enumerate(steps):
                last = i == _n - 2
                vc.ensure(f"step{i}.number_of_products", len(prods) == (1 if last else _r))
                vc.ensure(f"step{i}.sum_units", vc.must(z3.And(to_z3(vc.attr(s, "num_output_units")) == (1 if last else _r), to_z3(vc.attr(s, "num_input_units")) == _r)))
                # the constant matrix of the contraction: all ones (1, r) at the end; otherwise block-diagonal (r, r*r): unit k of the result sums
                # the r units of product k (the k-th slice of the next bond index) and nothing of the other products
                W = vc.attr(s, "weight")
                (wn,) = W.fields["_outputs"]
                val = wn.fields.get("value") if wn.cls.name == "ConstantParameter" else None
                from engine.tensor import Tensor as _T
                okc = isinstance(val, _T) and val.rank == 2
                vc.ensure(f"step{i}.constant_contraction_matrix", okc)
                if okc:
                    rows, cols = (1, _r) if last else (_r, _r * _r)
                    entries = z3.And(*[to_z3(val.elem([a, b])) == (1 if (last or b // _r == a) else 0) for a in range(rows) for b in range(cols)])
                    vc.ensure(f"step{i}.contraction_matrix_entries", z3.And(to_z3(val.shape[0]) == rows, to_z3(val.shape[1]) == cols, entries))
                for q, p in enumerate(prods):
                    pin = list(ins.get(p, []))
                    ok = p.cls.name == "HadamardLayer" and len(pin) == 2 and pin[1].cls.name == "EmbeddingLayer"
                    vc.ensure(f"step{i}.product{q}.hadamard_of_the_running_vector_and_an_embedding", ok)
                    if ok:
                        e = pin[1]
                        used.append(e)
                        if _r >= 2:
                            vc.ensure(f"step{i}.product{q}.embedding_is_over_variable_{i + 1}", _is_var(vc, e, i + 1))
                            vc.ensure(f"step{i}.product{q}.embedding_states_is_dimension_{i + 1}", vc.attr(e, "num_states") == shape[i + 1])
                        else:
                            # rank 1: the train is a plain product of one factor per variable, the order of contraction does not matter
                            js = [j for j in range(1, _n) if _is_var(vc, e, j)]
                            vc.ensure(f"step{i}.product{q}.embedding_is_over_one_of_the_remaining_variables_with_its_dimension",
                                      len(js) == 1 and vc.must(to_z3(vc.attr(e, "num_states")) == to_z3(shape[js[0]])))
                            seen_vars.extend(js)
                        vc.ensure(f"step{i}.product{q}.embedding_rank_units", vc.attr(e, "num_output_units") == _r)
            if _r == 1:
                vc.ensure("every_variable_contracted_exactly_once", sorted(seen_vars) == list(range(1, _n)))
            vc.ensure("every_embedding_used_exactly_once", len({id(e) for e in used}) == len(used) and
                      len(used) + 1 == sum(1 for l in layers if l.cls.name == "EmbeddingLayer"))
        obligation(f"C20.tensor_train.order{_n}.rank{_r}", "C20", [f"{TF}:tensor_train"])(_h)
