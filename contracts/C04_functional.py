"""C04 (whole function on template pairs): functional.multiply(c1, c2) returns the circuit whose layer for a pair (l1, l2) is
the product layer built by the multiplication rule of their classes (units K1*K2, Kronecker order - proved per rule in
C04_rules), wired to the layers of the input pairs in the order the rules assume:

    sum x sum        inputs = [pair(i1, i2) for i1 in inputs(l1) for i2 in inputs(l2)]     (i1 major: position h1*H2 + h2)
    product x product  inputs = [pair(i1, i2) for (i1, i2) in zip(inputs(l1), inputs(l2))]
    disjoint scopes  a 2-ary Kronecker layer over reference copies of the two sub-circuits (equal unit counts required)
    outputs          [pair(o1, o2) for o1 in outputs(c1) for o2 in outputs(c2)]
and refuses operands over different scopes.  Variable ids and unit counts are symbolic; the DAG shape is that of the template.
"""
import itertools

import z3

from engine.vc import obligation
from engine.values import to_z3, Obj
from contracts.lib import *
from contracts.functional_lib import make_registry, input_layer, distinct, scope_arr
from contracts import specs as S

KINDS = ("embedding", "categorical_logits", "gaussian")


class Op:
    def __init__(self, vc, shape, kind, K, C, vs, tag):
        self.vc = vc
        mk = lambda v: input_layer(vc, kind, vc.new(f"{SC}:Scope", [v]), K, C)
        self.ins = {}
        if shape == "single":
            a = mk(vs[0])
            self.layers, self.outputs = [a], [a]
        elif shape == "prod_sum":
            a, b = mk(vs[0]), mk(vs[1])
            h = vc.new(f"{SL}:HadamardLayer", K, arity=2)
            Ko = vc.int("Ko" + tag, lo=1)
            s = vc.new(f"{SL}:SumLayer", K, Ko, arity=1)
            self.layers, self.outputs = [a, b, h, s], [s]
            self.ins = {h: [a, b], s: [h]}
        elif shape == "mixture":
            a, b = mk(vs[0]), mk(vs[0])
            Ko = vc.int("Ko" + tag, lo=1)
            s = vc.new(f"{SL}:SumLayer", K, Ko, arity=2)
            self.layers, self.outputs = [a, b, s], [s]
            self.ins = {s: [a, b]}
        elif shape == "two_outputs":
            a, b = mk(vs[0]), mk(vs[1])
            self.layers, self.outputs = [a, b], [a, b]
        self.circuit = vc.new(f"{SCI}:Circuit", list(self.layers), {k: list(v) for k, v in self.ins.items()}, list(self.outputs))


def _units(vc, l):
    return vc.attr(l, "num_output_units")


def _same_var(vc, l1, l2):
    return vc.must(same_scope(vc, vc.attr(l1, "scope"), vc.attr(l2, "scope")))


def _match(vc, res, r, o1, l1, o2, l2, label, seen):
    """r is the layer of pair (l1, l2) in result circuit `res`"""
    key = (id(l1), id(l2))
    if key in seen:
        vc.ensure(label + ".pair_layer_shared", seen[key] is r)
        return
    seen[key] = r
    got = list(res.fields["_in_nodes"].get(r, []))
    in1, in2 = o1.ins.get(l1, []), o2.ins.get(l2, [])
    if S.cls_is(vc, l1, "InputLayer"):
        if _same_var(vc, l1, l2):
            vc.ensure(label + ".input_pair_class", isinstance(r, Obj) and r.cls is l1.cls)
            vc.ensure(label + ".input_pair_units", _units(vc, r) == _units(vc, l1) * _units(vc, l2))
            vc.ensure(label + ".input_pair_scope", same_scope(vc, vc.attr(r, "scope"), vc.attr(l1, "scope")))
            vc.ensure(label + ".input_pair_has_no_inputs", len(got) == 0)
            # WHICH two operand layers were multiplied: the result's references point at exactly their tensors ...
            def tensors(l):
                out = set()
                for P in vc.attr(l, "params").values():
                    ts, rs = S.tensor_leaves(vc, P)
                    out.update(t.oid for t in ts)
                    out.update(vc.call((x, "deref")).oid for x in rs)
                return out
            if isinstance(r, Obj):
                refs = set()
                for P in vc.attr(r, "params").values():
                    refs.update(vc.call((x, "deref")).oid for x in S.tensor_leaves(vc, P)[1])
                vc.ensure(label + ".input_pair_references_exactly_these_two_layers", refs == tensors(l1) | tensors(l2))
                # ... in the order (first operand major)
                if r.cls.name == "EmbeddingLayer" and l1.cls.name == "EmbeddingLayer":
                    env = {}
                    W = S.den_param(vc, vc.attr(r, "weight"), env)
                    W1, W2 = S.den_param(vc, vc.attr(l1, "weight"), env), S.den_param(vc, vc.attr(l2, "weight"), env)
                    K1_, K2_, C_ = _units(vc, l1), _units(vc, l2), vc.attr(l1, "num_states")
                    if len(W.shape) == 2:
                        from engine.tensor import MR
                        a, b, x = vc.index_consts([K1_, K2_, C_], "u" + str(len(seen)))
                        vc.ensure(label + ".input_pair_first_operand_major", W.elem([MR([(a, K1_), (b, K2_)]), x]) == W1.elem([a, x]) * W2.elem([b, x]))
        else:
            ok = isinstance(r, Obj) and r.cls.name == "KroneckerLayer" and len(got) == 2
            vc.ensure(label + ".disjoint_pair_is_binary_kronecker", ok)
            if ok:
                vc.ensure(label + ".kronecker_units", vc.attr(r, "num_input_units") == _units(vc, l1))
                for g, l, nm in ((got[0], l1, "first"), (got[1], l2, "second")):
                    vc.ensure(f"{label}.{nm}_factor_is_copy_of_{nm}_operand_layer", isinstance(g, Obj) and g.cls is l.cls and g is not l and
                              vc.must(z3.And(same_scope(vc, vc.attr(g, "scope"), vc.attr(l, "scope")), to_z3(_units(vc, g)) == to_z3(_units(vc, l)))))
        return
    if l1.cls.name == "SumLayer":
        vc.ensure(label + ".sum_pair_class", isinstance(r, Obj) and r.cls.name == "SumLayer")
        vc.ensure(label + ".sum_pair_units", z3.And(_units(vc, r) == _units(vc, l1) * _units(vc, l2),
                                                    vc.attr(r, "num_input_units") == vc.attr(l1, "num_input_units") * vc.attr(l2, "num_input_units"),
                                                    vc.attr(r, "arity") == vc.attr(l1, "arity") * vc.attr(l2, "arity")))
        pairs = list(itertools.product(in1, in2))
    else:
        vc.ensure(label + ".product_pair_class", isinstance(r, Obj) and r.cls is l1.cls)
        vc.ensure(label + ".product_pair_units", vc.attr(r, "num_input_units") == vc.attr(l1, "num_input_units") * vc.attr(l2, "num_input_units"))
        pairs = list(zip(in1, in2))
    vc.ensure(label + ".number_of_inputs", len(got) == len(pairs))
    if len(got) == len(pairs):
        for j, (g, (i1, i2)) in enumerate(zip(got, pairs)):
            _match(vc, res, g, o1, i1, o2, i2, f"{label}.in{j}", seen)


for _shape in ("single", "prod_sum", "mixture", "two_outputs"):
    for _kind in KINDS:
        def _h(vc, _shape=_shape, _kind=_kind):
            K1, K2, C = vc.int("K1", lo=1), vc.int("K2", lo=1), vc.int("C", lo=2)
            vs = [vc.int("v0", lo=0), vc.int("v1", lo=0)]
            distinct(vc, vs)
            if _shape == "two_outputs":
                vc.assume(K1 == K2)
            o1, o2 = Op(vc, _shape, _kind, K1, C, vs, "1"), Op(vc, _shape, _kind, K2, C, vs, "2")
            res = vc.call(f"{SF}:multiply", o1.circuit, o2.circuit, registry=make_registry(vc))
            outs = list(res.fields["_outputs"])
            want = list(itertools.product(o1.outputs, o2.outputs))
            vc.ensure("one_output_per_pair_of_outputs", len(outs) == len(want))
            if len(outs) != len(want):
                return
            seen = {}
            for j, (r, (a, b)) in enumerate(zip(outs, want)):
                _match(vc, res, r, o1, a, o2, b, f"output{j}", seen)
            vc.ensure("same_scope", scope_arr(res.fields["scope"]) == scope_arr(o1.circuit.fields["scope"]))
            ops, resp = [], []
            for l in o1.layers + o2.layers:
                ops.extend(vc.attr(l, "params").values())
            for l in res.fields["_nodes"]:
                resp.extend(vc.attr(l, "params").values())
            S.sharing_clauses(vc, resp, ops)
        obligation(f"C04.multiply.{_shape}.{_kind}", "C04", [f"{SF}:multiply", f"{SCI}:are_compatible", f"{SCI}:Circuit.from_operation"])(_h)


@obligation("C04.multiply.refuses_different_scopes", "C04", [f"{SF}:multiply"])
def _(vc):
    K, C = vc.int("K", lo=1), vc.int("C", lo=2)
    v0, v1, w = vc.int("v0", lo=0), vc.int("v1", lo=0), vc.int("w", lo=0)
    distinct(vc, [v0, v1, w])
    o1 = Op(vc, "prod_sum", "embedding", K, C, [v0, v1], "1")
    o2 = Op(vc, "prod_sum", "embedding", K, C, [v0, w], "2")
    exc, _ = vc.raises(lambda: vc.call(f"{SF}:multiply", o1.circuit, o2.circuit, registry=make_registry(vc)))
    vc.ensure("refused", exc is not None)


@obligation("C04.multiply.disjoint_pair_refuses_different_unit_counts", "C04", [f"{SF}:multiply"])
def _(vc):
    K1, K2, C = vc.int("K1", lo=1), vc.int("K2", lo=1), vc.int("C", lo=2)
    vc.assume(K1 != K2)
    vs = [vc.int("v0", lo=0), vc.int("v1", lo=0)]
    distinct(vc, vs)
    o1, o2 = Op(vc, "two_outputs", "embedding", K1, C, vs, "1"), Op(vc, "two_outputs", "embedding", K2, C, vs, "2")
    exc, _ = vc.raises(lambda: vc.call(f"{SF}:multiply", o1.circuit, o2.circuit, registry=make_registry(vc)))
    vc.ensure("refused", exc is not None)


# C09: product layers that list their inputs in different scope orders.  multiply pairs the inputs positionally, so it must either
# refuse (the documented NotImplementedError) or return a circuit that is still smooth and decomposable over the operands' scope
# whose product layers pair inputs over the SAME variable; it must never return a product of inputs over different variables.
_PERMS = [(1, 0), (0, 2, 1), (1, 0, 2), (2, 1, 0), (1, 2, 0)]
for _kind in KINDS:
    for _hk, _perm in [(h, p) for h in ("HadamardLayer", "KroneckerLayer") for p in _PERMS if not (h == "KroneckerLayer" and len(p) == 3)] + \
            ([("KroneckerLayer", (0, 2, 1))] if _kind == "embedding" else []):
        def _h(vc, _kind=_kind, _hk=_hk, _perm=_perm):
            K1, K2, C = vc.int("K1", lo=1), vc.int("K2", lo=1), vc.int("C", lo=2)
            n = len(_perm)
            vars_ = [vc.int(f"v{j}", lo=0) for j in range(n)]
            distinct(vc, vars_)
            ops = []
            for K, vs, tag in ((K1, list(vars_), "1"), (K2, [vars_[j] for j in _perm], "2")):
                ins_ = [input_layer(vc, _kind, vc.new(f"{SC}:Scope", [v]), K, C) for v in vs]
                h = vc.new(f"{SL}:{_hk}", K, arity=n)
                ops.append(vc.new(f"{SCI}:Circuit", ins_ + [h], {h: list(ins_)}, [h]))
            exc, res = vc.raises(lambda: vc.call(f"{SF}:multiply", ops[0], ops[1], registry=make_registry(vc)))
            if exc is not None:
                vc.ensure("refused_with_a_documented_error", exc in ("NotImplementedError", "StructuralPropertyError", "ValueError"))
                return
            vc.ensure("returned_circuit_is_smooth", to_z3(vc.I.truth(vc.attr(res, "is_smooth"))))
            vc.ensure("returned_circuit_is_decomposable", to_z3(vc.I.truth(vc.attr(res, "is_decomposable"))))
            vc.ensure("returned_circuit_has_the_operands_scope", scope_arr(res.fields["scope"]) == scope_arr(ops[0].fields["scope"]))
            for l in res.fields["_nodes"]:
                if S.cls_is(vc, l, "InputLayer"):
                    vc.ensure("every_input_layer_is_over_one_variable", vc.attr(vc.attr(l, "scope"), "__len__") is not None and
                              vc.must(to_z3(vc.call((vc.attr(l, "scope"), "__len__"))) == 1))
        obligation(f"C09.multiply.permuted_product_inputs.{_hk}.{_kind}" + ("" if _perm == (1, 0) else ".order" + "".join(map(str, _perm))), "C09", [f"{SF}:multiply", f"{SCI}:are_compatible"])(_h)
