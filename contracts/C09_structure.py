"""C09 (second sentence): whenever an operator returns, the result is smooth and decomposable with the documented scope and number of
outputs; products of structured-decomposable operands stay structured-decomposable and compatible with BOTH operands; conjugation
preserves all structural flags.

The flags of the RESULT are evaluated by the real predicates (Circuit.is_smooth / is_decomposable / is_structured_decomposable), which C08
ties to their set definitions; compatibility with the operands is stated by its definition over the scopes the real Circuit.layer_scope
returns (are_compatible is a conservative approximation: it answers False when one circuit has no product over a scope the other splits); the operands are the circuit templates of the functional contracts with symbolic
variable ids, unit counts, Z / observation.
"""
import itertools

import z3

from engine.vc import obligation
from engine.values import to_z3, EMPTY
from engine.builtins_ import SymKeyDict
from contracts.lib import *
from contracts.functional_lib import make_registry, template, TEMPLATES, sym_subset, scope_of, distinct
from contracts.C04_functional import Op
from contracts.C05_functional import _circuit as poly_circuit
from contracts import specs as S


def _flag(vc, c, name):
    return to_z3(vc.I.truth(vc.attr(c, name)))


def _factorizations(vc, c):
    """[(scope array of the product layer, [scope arrays of its inputs])] through the real Circuit.layer_scope"""
    out = []
    for l in c.fields["_nodes"]:
        if S.cls_is(vc, l, "ProductLayer"):
            ins = list(c.fields["_in_nodes"].get(l, []))
            out.append((scope_arr(vc.call((c, "layer_scope"), l)), [scope_arr(vc.call((c, "layer_scope"), i)) for i in ins]))
    return out


def compatible_spec(vc, c1, c2):
    """the definition: any two product layers over the same scope, one of each circuit, split it into the same set of sub-scopes
    (empty sub-scopes ignored).  The real are_compatible is only a sound approximation of it (C08), so it is not the oracle here."""
    cl = []
    for (s1, ch1), (s2, ch2) in itertools.product(_factorizations(vc, c1), _factorizations(vc, c2)):
        same = z3.And(*[z3.Or(x == EMPTY, *[x == y for y in ch2]) for x in ch1], *[z3.Or(y == EMPTY, *[y == x for x in ch1]) for y in ch2])
        cl.append(z3.Implies(s1 == s2, same))
    return z3.And(*cl, True)


def _sd(vc, out, label=""):
    vc.ensure(label + "result_is_smooth", _flag(vc, out, "is_smooth"))
    vc.ensure(label + "result_is_decomposable", _flag(vc, out, "is_decomposable"))


for _t in TEMPLATES:
    def _h(vc, _t=_t):
        tpl = template(vc, _t, "categorical")
        Z = sym_subset(vc, tpl.vars, "Z")
        out = vc.call(f"{SF}:integrate", tpl.circuit, scope=vc.new(f"{SC}:Scope", Z), registry=make_registry(vc))
        _sd(vc, out)
        vc.ensure("scope_is_the_operands_minus_Z", scope_of(out) == z3.SetDifference(scope_of(tpl.circuit), Z.arr))
        vc.ensure("same_number_of_outputs", len(out.fields["_outputs"]) == len(tpl.outputs))
        vc.ensure("structured_decomposability_kept", z3.Implies(_flag(vc, tpl.circuit, "is_structured_decomposable"), _flag(vc, out, "is_structured_decomposable")))
    obligation(f"C09.integrate.result_structure.{_t}", "C09", [f"{SF}:integrate", f"{SCI}:Circuit.is_smooth", f"{SCI}:Circuit.is_decomposable"])(_h)

    def _h(vc, _t=_t):
        tpl = template(vc, _t, "embedding")
        out = vc.call(f"{SF}:conjugate", tpl.circuit, registry=make_registry(vc))
        for flag in ("is_smooth", "is_decomposable", "is_structured_decomposable", "is_omni_compatible"):
            vc.ensure(f"conjugation_preserves.{flag}", _flag(vc, out, flag) == _flag(vc, tpl.circuit, flag))
        vc.ensure("same_scope", scope_of(out) == scope_of(tpl.circuit))
        vc.ensure("same_number_of_outputs", len(out.fields["_outputs"]) == len(tpl.outputs))
    obligation(f"C09.conjugate.result_structure.{_t}", "C09", [f"{SF}:conjugate"])(_h)

    def _h(vc, _t=_t):
        tpl = template(vc, _t, "categorical")
        Z = sym_subset(vc, tpl.vars, "obs_vars")
        members = [i for i, v in enumerate(tpl.vars) if vc.path.branch(z3.Select(Z.arr, v))]
        obs = SymKeyDict([(tpl.vars[i], vc.real(f"x{i}")) for i in members])
        out = vc.call(f"{SF}:evidence", tpl.circuit, obs, registry=make_registry(vc))
        _sd(vc, out)
        vc.ensure("scope_is_the_operands_minus_the_observed_variables", scope_of(out) == z3.SetDifference(scope_of(tpl.circuit), Z.arr))
        vc.ensure("same_number_of_outputs", len(out.fields["_outputs"]) == len(tpl.outputs))
    obligation(f"C09.evidence.result_structure.{_t}", "C09", [f"{SF}:evidence"])(_h)


for _shape in ("single", "prod_sum", "mixture", "two_outputs"):
    def _h(vc, _shape=_shape):
        K1, K2, C = vc.int("K1", lo=1), vc.int("K2", lo=1), vc.int("C", lo=2)
        vs = [vc.int("v0", lo=0), vc.int("v1", lo=0)]
        distinct(vc, vs)
        if _shape == "two_outputs":
            vc.assume(K1 == K2)
        o1, o2 = Op(vc, _shape, "embedding", K1, C, vs, "1"), Op(vc, _shape, "embedding", K2, C, vs, "2")
        out = vc.call(f"{SF}:multiply", o1.circuit, o2.circuit, registry=make_registry(vc))
        _sd(vc, out)
        vc.ensure("same_scope_as_the_operands", scope_of(out) == scope_of(o1.circuit))
        vc.ensure("one_output_per_pair_of_outputs", len(out.fields["_outputs"]) == len(o1.outputs) * len(o2.outputs))
        both_sd = z3.And(_flag(vc, o1.circuit, "is_structured_decomposable"), _flag(vc, o2.circuit, "is_structured_decomposable"))
        vc.ensure("product_of_structured_decomposable_operands_is_structured_decomposable", z3.Implies(both_sd, _flag(vc, out, "is_structured_decomposable")))
        for j, o in enumerate((o1, o2)):
            vc.ensure(f"product_is_compatible_with_operand{j + 1}", z3.Implies(both_sd, compatible_spec(vc, out, o.circuit)))
    obligation(f"C09.multiply.result_structure.{_shape}", "C09", [f"{SF}:multiply", f"{SCI}:are_compatible", f"{SCI}:Circuit.is_structured_decomposable"])(_h)


for _shape in ("poly1", "prod2.kronecker", "prod2.hadamard", "prod3"):
    for _order in (1, 2):
        def _h(vc, _shape=_shape, _order=_order):
            sc, vs, ins, _, s = poly_circuit(vc, _shape)
            out = vc.call(f"{SF}:differentiate", sc, order=_order, registry=make_registry(vc))
            _sd(vc, out)
            vc.ensure("same_scope", scope_of(out) == scope_of(sc))
            # one output per variable of each output's scope, plus the output itself
            vc.ensure("number_of_outputs", len(out.fields["_outputs"]) == len(vs) + 1)
        obligation(f"C09.differentiate.result_structure.{_shape}.order{_order}", "C09", [f"{SF}:differentiate"])(_h)
