"""C07 (rules): every conjugation rule of cirkit/symbolic/operators.py returns a layer of the same class, scope, unit
counts and configuration whose parameters denote the complex conjugate of the operand's parameters - every parameter
of the operand is carried over (parameter-frame clause: none is dropped, none is invented):
    embedding / polynomial / sum   weight, coeff  ->  conj(.) entrywise
    categorical                    logits | probs ->  the same values (real by construction)
    gaussian                       mean, stddev, log_partition (when present) -> the same values
For all unit counts, state counts, degrees, arities, variable ids and kinds of operand parameter graphs.
"""
import z3

from engine.vc import obligation
from engine.values import to_z3
from contracts.lib import *
from contracts import specs as S


def _frame(vc, out, sl, cls, conj_names):
    ok = out is not None and out.cls.name == cls
    vc.ensure("same_class", ok)
    if not ok:
        return
    for a in ("num_input_units", "num_output_units", "arity"):
        vc.ensure("same_" + a, vc.attr(out, a) == vc.attr(sl, a))
    if "scope" in sl.fields:
        vc.ensure("same_scope", same_scope(vc, vc.attr(out, "scope"), vc.attr(sl, "scope")))
    pin, pout = params_of(vc, sl), params_of(vc, out)
    vc.ensure("same_parameter_names", sorted(pin.keys()) == sorted(pout.keys()))
    cin, cout = vc.attr(sl, "config"), vc.attr(out, "config")
    vc.ensure("same_config_keys", sorted(cin.keys()) == sorted(cout.keys()))
    for k in cin:
        if k == "scope" or k not in cout:
            continue
        vc.ensure(f"same_config.{k}", vc.eq(cin[k], cout[k]))
    env = {}
    for name in pin:
        if name not in pout:
            continue
        a, b = S.den_param(vc, pin[name], env), S.den_param(vc, pout[name], env)
        S.shape_eq(vc, b, a.shape, f"param.{name}.shape")
        if len(a.shape) != len(b.shape):
            continue
        idx = vc.index_consts(a.shape)
        if name in conj_names:
            vc.ensure(f"param.{name}.is_conjugate", b.elem(idx) == vc.fn("conj", a.elem(idx)))
        else:
            vc.ensure(f"param.{name}.is_same_value", b.elem(idx) == a.elem(idx))
    S.sharing_clauses(vc, list(pout.values()), list(pin.values()))


# REAL operands: conj(x) = x is assumed for the real leaves only (no algebra of conj is axiomatised), hence no "unary" kind
for _kind, _dt in [(k, d) for k in PARAM_KINDS for d in ("COMPLEX", "REAL") if not (d == "REAL" and k == "unary")]:
    def _h(vc, _kind=_kind, _dt=_dt):
        K, C = vc.int("K", lo=1), vc.int("C", lo=2)
        v, scope = scope1(vc)
        sl = vc.new(f"{SL}:EmbeddingLayer", scope, K, num_states=C, weight=tensor_param(vc, (K, C), _kind, "SquareParameter", dtype=_dt))
        _frame(vc, single_layer(vc, vc.call(f"{SO}:conjugate_embedding_layer", sl)), sl, "EmbeddingLayer", {"weight"})
    obligation(f"C07.rule.conjugate_embedding_layer.{_kind}.{_dt.lower()}", "C07", [f"{SO}:conjugate_embedding_layer"])(_h)

    def _h(vc, _kind=_kind, _dt=_dt):
        K, d = vc.int("K", lo=1), vc.int("d", lo=0)
        v, scope = scope1(vc)
        sl = vc.new(f"{SL}:PolynomialLayer", scope, K, degree=d, coeff=tensor_param(vc, (K, d + 1), _kind, "SquareParameter", dtype=_dt))
        _frame(vc, single_layer(vc, vc.call(f"{SO}:conjugate_polynomial_layer", sl)), sl, "PolynomialLayer", {"coeff"})
    obligation(f"C07.rule.conjugate_polynomial_layer.{_kind}.{_dt.lower()}", "C07", [f"{SO}:conjugate_polynomial_layer"])(_h)

    def _h(vc, _kind=_kind, _dt=_dt):
        Ki, Ko, H = vc.int("Ki", lo=1), vc.int("Ko", lo=1), vc.int("H", lo=1)
        sl = vc.new(f"{SL}:SumLayer", Ki, Ko, arity=H, weight=tensor_param(vc, (Ko, H * Ki), _kind, "SquareParameter", dtype=_dt))
        _frame(vc, single_layer(vc, vc.call(f"{SO}:conjugate_sum_layer", sl)), sl, "SumLayer", {"weight"})
    obligation(f"C07.rule.conjugate_sum_layer.{_kind}.{_dt.lower()}", "C07", [f"{SO}:conjugate_sum_layer"])(_h)

for _kind in PARAM_KINDS:

    for _p in ("logits", "probs"):
        def _h(vc, _kind=_kind, _p=_p):
            K, C = vc.int("K", lo=1), vc.int("C", lo=2)
            v, scope = scope1(vc)
            sl = vc.new(f"{SL}:CategoricalLayer", scope, K, num_categories=C, **{_p: tensor_param(vc, (K, C), _kind, "SoftmaxParameter")})
            _frame(vc, single_layer(vc, vc.call(f"{SO}:conjugate_categorical_layer", sl)), sl, "CategoricalLayer", set())
        obligation(f"C07.rule.conjugate_categorical_layer.{_p}.{_kind}", "C07", [f"{SO}:conjugate_categorical_layer"])(_h)

    for _lp in (False, True):
        def _h(vc, _kind=_kind, _lp=_lp):
            K = vc.int("K", lo=1)
            v, scope = scope1(vc)
            lp = tensor_param(vc, (K,), _kind, "LogParameter") if _lp else None
            sl = vc.new(f"{SL}:GaussianLayer", scope, K, mean=tensor_param(vc, (K,), _kind, "ExpParameter"),
                        stddev=tensor_param(vc, (K,), "unary", "SoftplusParameter"), log_partition=lp)
            _frame(vc, single_layer(vc, vc.call(f"{SO}:conjugate_gaussian_layer", sl)), sl, "GaussianLayer", set())
        obligation(f"C07.rule.conjugate_gaussian_layer.lp{int(_lp)}.{_kind}", "C07", [f"{SO}:conjugate_gaussian_layer"])(_h)
