"""Obligations that carry more than one property are registered once per property (same harness, same functions of /repo,
another id), so that each property's check discharges - and a violation is reported under - every obligation it depends on.

  C12  <- kernels of the normalising parameter nodes (softmax on the declared axis, mixing-weight expansion, per fold)
  C14  <- fold_settings / rebuild-from-config of every parameter node (a folded parameter graph is rebuilt from `config`)
  C17  <- fold_settings of tensor parameters (requires_grad and dtype of the folded storage are those of the first member)
  C04  <- the optimisation rule applied to the parameters multiply / integrate produce (ReduceSum o OuterProduct)
  C03  <- same rule (integrals of products of embedding layers)
  C14  <- the parameter-graph pattern matcher (composite parameter graphs still evaluate to the composition of their nodes under optimize)
  C10  <- every operator rule (their sharing clauses: no new tensor parameter, operand tensors only behind references)
"""
import re

from engine import vc as V
from engine.vc import Obl

_COPIES = [
    (r"^C14\.kernel\.TorchMixingWeightParameter", "C12"),
    (r"^C14\.kernel\.TorchSoftmaxParameter", "C12"),
    (r"^C14\.kernel\.TorchLogSoftmaxParameter", "C12"),
    (r"^C14\.kernel\.TorchSigmoidParameter", "C12"),
    (r"^C02\.fold_settings\.", "C14"),
    (r"^C02\.rebuild_from_config\.", "C14"),
    (r"^C02\.fold_settings\.TorchTensorParameter", "C17"),
    (r"^C02\.opt\.outer_reduce_flatten", "C03"),
    (r"^C02\.opt\.outer_reduce_flatten", "C04"),
    (r"^C02\.opt\.outer_reduce_flatten", "C01"),
    (r"^C10\.Layer\.copyref\.", "C03"),
    (r"^C01\.kernel\.Torch(Categorical|Gaussian|Binomial)Layer", "C11"),
    (r"^C01\.kernel\.TorchConstantValueLayer", "C03"),
    (r"^C01\.kernel\.TorchEmbeddingLayer", "C06"),
    (r"^C01\.address_book\.", "C02"),
    (r"^C12\.build_circuit\.", "C16"),
    (r"^C02\.fold_settings\.TorchIndexParameter", "C04"),
    (r"^C02\.rebuild_from_config\.TorchIndexParameter", "C04"),
    (r"^C02\.opt\.match_parameter_nodes_pattern", "C14"),
    (r"^C02\.build_folded_graph\.(step|suffix)\.", "C01"),
    (r"^C02\.build_unfold_index_info\.(step|suffix)\.", "C01"),
    (r"^C02\.opt\.match_optimization_patterns\.(chain4|chain3_three_patterns)$", "C14"),
    (r"^C03\.rule\.integrate_", "C10"),
    (r"^C04\.rule\.multiply_", "C10"),
    (r"^C05\.rule\.differentiate_", "C10"),
    (r"^C07\.rule\.conjugate_", "C10"),
    (r"^C19\.frame\.reset_parameters\.", "C10"),
    (r"^C02\.state\.", "C10"),
    (r"^C02\.fold_pointer_group", "C19"),
    (r"^C02\.group_foldable_modules\.wrapping", "C06"),
    (r"^C10\.ParameterNode\.copy\.PolynomialDifferential", "C05"),
    (r"^C10\.ParameterNode\.copy\.(PolynomialProduct|GaussianProduct)", "C04"),
    (r"^C10\.ParameterNode\.copy\.ConjugateParameter", "C07"),
    (r"^C02\.fold_pointer_group", "C10"),
    (r"^C01\.evaluate\.", "C14"),
    (r"^C01\.address_book\.entry\.", "C14"),
    (r"^C01\.lookup\.step\.", "C11"),
    (r"^C02\.state\.", "C17"),
    (r"^C02\.fold_settings\.layer\.Torch(ConstantValue|Evidence)Layer", "C03"),
    (r"^C02\.fold_settings\.layer\.TorchEvidenceLayer", "C06"),
]

_existing = {o.id for o in V.REGISTRY}
for _rx, _prop in _COPIES:
    for _o in list(V.REGISTRY):
        if re.search(_rx, _o.id) and _o.prop != _prop:
            _nid = _prop + _o.id[3:] if not _o.id.startswith(_prop) else _o.id
            _nid = f"{_prop}.{_o.id}" if _nid in _existing else _nid
            if _nid in _existing:
                continue
            _existing.add(_nid)
            V.REGISTRY.append(Obl(_nid, _prop, _o.fn, list(_o.functions), _o.replay, _o.doc))
