"""C02 (O2, layer-level optimisation rules): each fusing rule of cirkit/backend/torch/optimization/layers.py builds a layer that
computes the composition it replaces - in the semiring of the compiler, with the unit counts / arity of the matched layers and
with THEIR parameters (no copy):

  apply_tucker        Sum(arity 1) o Kronecker      -> TorchTuckerLayer:  out[f,b,o] = SUM_{i_1..i_H} W[f,o,(i_1..i_H)] PROD_h x[f,h,b,i_h]
  apply_candecomp     Sum(arity 1) o Hadamard       -> TorchCPTLayer:     out[f,b,o] = SUM_i W[f,o,i] PROD_h x[f,h,b,i]
  apply_sum_collapse  Sum(arity 1) o Sum            -> one Sum whose weight is MatMul(W1, W2) (kernel obligation C14.kernel.TorchMatMulParameter)
For all fold counts, batch sizes and unit counts; arity enumerated 2, 3 for the Kronecker order.  The semiring clause matters for
the log-space semirings: a fused layer built with the default (linear) semiring would silently treat log values as linear ones.
"""
import z3

from engine.vc import obligation
from engine.values import to_z3, ClassVal, Obj, Opaque
from engine.tensor import MR, Tensor
from contracts.C01_kernels import semiring, param, shape_is, LI, SR

OL = "cirkit/backend/torch/optimization/layers.py"
LO = "cirkit/backend/torch/layers/optimized.py"
PP = "cirkit/backend/torch/parameters/parameter.py"


def _compiler(vc, sr):
    return vc.opaque("compiler", attrs={"semiring": sr})


def _match(entries):
    return Opaque("match", {"entries": list(entries)})


for _srname in ("SumProductSemiring", "LSESumSemiring", "ComplexLSESumSemiring"):
    for _H in (2, 3):
        def _h(vc, _srname=_srname, _H=_H):
            F, B, K, Ko = (vc.int(n, lo=1) for n in ("F", "B", "K", "Ko"))
            Kk = K
            for _ in range(_H - 1):
                Kk = Kk * K
            W1f, _ = param(vc, "weight1", 1, (Ko, Kk))      # optimisation runs before folding: one fold
            W, Wt = param(vc, "weight", F, (Ko, Kk))
            lin = semiring(vc)
            sr = semiring(vc, _srname)
            dense = vc.new(f"{LI}:TorchSumLayer", Kk, Ko, arity=1, weight=W1f, semiring=sr, num_folds=1)
            kron = vc.new(f"{LI}:TorchKroneckerLayer", K, arity=_H, semiring=sr, num_folds=1)
            (t,) = vc.I.B.iterate(vc.I, vc.call(f"{OL}:apply_tucker", _compiler(vc, sr), _match([dense, kron])))
            ok = isinstance(t, Obj) and t.cls.name == "TorchTuckerLayer"
            vc.ensure("tucker_layer", ok)
            if not ok:
                return
            vc.ensure("semiring_of_the_compiler", t.fields.get("semiring") is not None and t.fields["semiring"].ci is sr.ci)
            vc.ensure("same_weight_object", t.fields.get("weight") is W1f)
            vc.ensure("units_and_arity", z3.And(vc.attr(t, "num_input_units") == K, vc.attr(t, "num_output_units") == Ko, vc.attr(t, "arity") == _H))
            if _srname != "SumProductSemiring":
                return
            # F folds: the fused layer is rebuilt with F folds by the folding pass through its config; check the kernel at F folds
            tF = vc.new(f"{LO}:TorchTuckerLayer", K, Ko, _H, weight=W, semiring=lin, num_folds=F)
            x = vc.tensor("x", (F, _H, B, K))
            y = vc.call((tF, "forward"), x)
            if not shape_is(vc, y, [F, B, Ko]):
                return
            f, b, o = vc.index_consts([F, B, Ko])

            def body(*ii):
                p = Wt.elem([f, o, MR([(i, K) for i in ii])])
                for h, i in enumerate(ii):
                    p = p * x.elem([f, h, b, i])
                return p
            vc.ensure("sum_over_kronecker_index_first_input_major", y.elem([f, b, o]) == vc.red("sum", [K] * _H, body))
        obligation(f"C02.opt.apply_tucker.{_srname}.arity{_H}", "C02", [f"{OL}:apply_tucker", f"{LO}:TorchTuckerLayer.__init__"] +
                   ([f"{LO}:TorchTuckerLayer.forward"] if _srname == "SumProductSemiring" else []))(_h)

    def _h(vc, _srname=_srname):
        F, B, K, Ko, H = (vc.int(n, lo=1) for n in ("F", "B", "K", "Ko", "H"))
        vc.assume(H >= 2)
        W1f, _ = param(vc, "weight1", 1, (Ko, K))
        W, Wt = param(vc, "weight", F, (Ko, K))
        sr = semiring(vc, _srname)
        dense = vc.new(f"{LI}:TorchSumLayer", K, Ko, arity=1, weight=W1f, semiring=sr, num_folds=1)
        had = vc.new(f"{LI}:TorchHadamardLayer", K, arity=H, semiring=sr, num_folds=1)
        (t,) = vc.I.B.iterate(vc.I, vc.call(f"{OL}:apply_candecomp", _compiler(vc, sr), _match([dense, had])))
        ok = isinstance(t, Obj) and t.cls.name == "TorchCPTLayer"
        vc.ensure("cpt_layer", ok)
        if not ok:
            return
        vc.ensure("semiring_of_the_compiler", t.fields.get("semiring") is not None and t.fields["semiring"].ci is sr.ci)
        vc.ensure("same_weight_object", t.fields.get("weight") is W1f)
        vc.ensure("units_and_arity", z3.And(vc.attr(t, "num_input_units") == K, vc.attr(t, "num_output_units") == Ko, vc.attr(t, "arity") == H))
        if _srname != "SumProductSemiring":
            return
        tF = vc.new(f"{LO}:TorchCPTLayer", K, Ko, H, weight=W, semiring=semiring(vc), num_folds=F)
        x = vc.tensor("x", (F, H, B, K))
        y = vc.call((tF, "forward"), x)
        if not shape_is(vc, y, [F, B, Ko]):
            return
        f, b, o = vc.index_consts([F, B, Ko])
        vc.ensure("weighted_sum_of_the_hadamard_product", y.elem([f, b, o]) ==
                  vc.red("sum", [K], lambda i: vc.red("prod", [H], lambda h: x.elem([f, h, b, i])) * Wt.elem([f, o, i])))
    obligation(f"C02.opt.apply_candecomp.{_srname}", "C02", [f"{OL}:apply_candecomp", f"{LO}:TorchCPTLayer.__init__"] +
               ([f"{LO}:TorchCPTLayer.forward"] if _srname == "SumProductSemiring" else []))(_h)

    def _h(vc, _srname=_srname):
        F, Ki, Km, Ko, H = (vc.int(n, lo=1) for n in ("F", "Ki", "Km", "Ko", "H"))
        sr = semiring(vc, _srname)
        (W1, _), (W2, _) = param(vc, "w1", 1, (Ko, Km)), param(vc, "w2", 1, (Km, Ki * H))
        d1 = vc.new(f"{LI}:TorchSumLayer", Km, Ko, arity=1, weight=W1, semiring=sr, num_folds=1)
        d2 = vc.new(f"{LI}:TorchSumLayer", Ki, Km, arity=H, weight=W2, semiring=sr, num_folds=1)
        seen = {}

        def from_binary(I, a, k):
            seen["args"] = a
            node = a[-3]
            return vc.opaque("fused_weight", attrs={"num_folds": 1, "shape": tuple(vc.I.B.iterate(vc.I, vc.attr(node, "shape")))})
        vc.I.summaries[f"{PP}:TorchParameter.from_binary"] = from_binary
        (t,) = vc.I.B.iterate(vc.I, vc.call(f"{OL}:apply_sum_collapse", _compiler(vc, sr), _match([d1, d2])))
        ok = isinstance(t, Obj) and t.cls.name == "TorchSumLayer"
        vc.ensure("sum_layer", ok)
        if not ok:
            return
        vc.ensure("semiring_of_the_compiler", t.fields["semiring"].ci is sr.ci)
        vc.ensure("units_and_arity", z3.And(vc.attr(t, "num_input_units") == Ki, vc.attr(t, "num_output_units") == Ko, vc.attr(t, "arity") == H))
        a = seen.get("args", [])
        node = a[-3] if len(a) >= 3 else None
        vc.ensure("weight_is_matmul_of_outer_weight_times_inner_weight", isinstance(node, Obj) and node.cls.name == "TorchMatMulParameter" and a[-2] is W1 and a[-1] is W2)
        if isinstance(node, Obj):
            vc.ensure("matmul_shape", vc.eq(vc.attr(node, "shape"), (Ko, Ki * H)))
    obligation(f"C02.opt.apply_sum_collapse.{_srname}", "C02", [f"{OL}:apply_sum_collapse"])(_h)
