"""Helpers shared by the contract harnesses: construction of symbolic operands through the REAL constructors of /repo
(so that every class invariant established by __init__ is available as a fact, and nothing is assumed about fields)."""
import z3

from engine.values import Obj, to_z3
from engine import builtins_ as B

SO = "cirkit/symbolic/operators.py"
SL = "cirkit/symbolic/layers.py"
SP = "cirkit/symbolic/parameters.py"
SC = "cirkit/utils/scope.py"
SI = "cirkit/symbolic/initializers.py"
SF = "cirkit/symbolic/functional.py"
SCI = "cirkit/symbolic/circuit.py"
UA = "cirkit/utils/algorithms.py"

# shapes of operand parameter graphs the rules are checked against (the rules only use .shape and .ref(), whose own
# contracts are discharged for every graph shape below in C10.Parameter.ref.*)
PARAM_KINDS = ("tensor", "unary", "reference")


def dtype_of(vc, name):
    from engine.values import ClassVal
    return vc.I.B.getattr_(vc.I, ClassVal(vc.repo.lookup("cirkit/symbolic/dtypes.py:DataType")), name)


def tensor_param(vc, shape, kind="tensor", unary="SoftmaxParameter", dtype="REAL"):
    """a symbolic Parameter of the given shape: a learnable tensor | a unary op over a learnable tensor |
    a reference to a tensor owned by somebody else; the tensor's data type is REAL or COMPLEX"""
    init = vc.new(f"{SI}:NormalInitializer")
    tp = vc.new(f"{SP}:TensorParameter", *shape, initializer=init, dtype=dtype_of(vc, dtype))
    if kind == "tensor":
        return vc.call(f"{SP}:Parameter.from_input", tp)
    if kind == "reference":
        return vc.call(f"{SP}:Parameter.from_input", vc.new(f"{SP}:ReferenceParameter", tp))
    if kind == "unary":
        op = vc.new(f"{SP}:{unary}", tuple(shape))
        return vc.call(f"{SP}:Parameter.from_unary", op, tp)
    raise ValueError(kind)


def scope1(vc, name="v"):
    v = vc.int(name, lo=0)
    return v, vc.new(f"{SC}:Scope", [v])


def single_layer(vc, block):
    """the single layer of a one-layer CircuitBlock (clauses fail otherwise)"""
    nodes = block.fields.get("_nodes")
    ok = isinstance(block, Obj) and block.cls.name == "CircuitBlock" and isinstance(nodes, list) and len(nodes) == 1
    vc.ensure("block.single_layer", ok)
    vc.ensure("block.no_inner_edges", ok and all(len(v) == 0 for v in block.fields["_in_nodes"].values()))
    vc.ensure("block.output_is_layer", ok and list(block.fields["_outputs"]) == nodes)
    return nodes[0] if ok else None


def scope_arr(sc):
    """the z3 set term of a Scope object (symbolic or concrete content)"""
    st = sc.fields["_set"]
    return st.arr if hasattr(st, "arr") else B._concrete_set(st)


def same_scope(vc, a, b):
    return scope_arr(a) == scope_arr(b)


def params_of(vc, layer):
    return vc.attr(layer, "params")
