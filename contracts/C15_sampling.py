"""C15 (structural clauses of sampling; the distributional clause is statistical and only bounded): layout of the samples through the
layers, for all fold counts, unit counts, numbers of samples N and variables D.

  sum layer        draws, per fold and output unit, a component m from Categorical(weight[f, o, :]) - the SAME axis the forward pass
                   weights, column h*Ki + i <-> unit i of input h - and returns the sample of that component:
                   out[f, o, n, d] = x[f, m div Ki, m mod Ki, n, d]  with m = draw[n, f, o]; refuses negative / unnormalised weights
  hadamard         out[f, k, n, d] = SUM_h x[f, h, k, n, d]      (inputs have disjoint variables: each column comes from one input)
  kronecker        out[f, (i_0..i_{H-1}), n, d] = SUM_h x[f, h, i_h, n, d]   (first input major, arity 2 and 3)
  _pad_samples     the samples of the input layer of fold f fill column scope_idx[f] - the layer's own variable - and no other column
"""
import z3

from engine.vc import obligation
from engine.values import to_z3, Obj, Opaque
from engine.tensor import MR, Tensor
from contracts.C01_kernels import semiring, param, shape_is, LI
from engine.interp import RaiseEx

QU = "cirkit/backend/torch/queries.py"
SC = "cirkit/utils/scope.py"


@obligation("C15.sample.TorchSumLayer", "C15", [f"{LI}:TorchSumLayer.sample"])
def _(vc):
    F, H, Ki, Ko, N, D = (vc.int(n, lo=1) for n in ("F", "H", "Ki", "Ko", "N", "D"))
    W, Wt = param(vc, "weight", F, (Ko, Ki * H))
    layer = vc.new(f"{LI}:TorchSumLayer", Ki, Ko, arity=H, weight=W, semiring=semiring(vc), num_folds=F)
    x = vc.tensor("x", (F, H, Ki, N, D))
    exc, res = vc.raises(lambda: vc.call((layer, "sample"), x))
    if exc is not None:
        vc.ensure("only_refusal_is_TypeError_for_unnormalised_weights", exc == "TypeError")
        return
    y, mix = list(vc.I.B.iterate(vc.I, res))
    if not shape_is(vc, y, [F, Ko, N, D]):
        return
    draws = vc.I.__dict__.get("categorical_draws", [])
    vc.ensure("one_categorical_draw_from_the_weights", len(draws) == 1 and draws[0][1] is Wt)
    if len(draws) != 1:
        return
    m_t = draws[0][0]
    f, o, n, d = vc.index_consts([F, Ko, N, D])
    m = m_t.elem([n, f, o])
    vc.ensure("sample_of_the_drawn_component_h_Ki_plus_i", y.elem([f, o, n, d]) == x.elem([f, m / to_z3(Ki), m % to_z3(Ki), n, d]))
    if shape_is(vc, mix, [F, Ko, N], "mixture_index_shape"):
        vc.ensure("returns_the_drawn_components", mix.elem([f, o, n]) == m)


@obligation("C15.sample.TorchHadamardLayer", "C15", [f"{LI}:TorchHadamardLayer.sample"])
def _(vc):
    F, H, K, N, D = (vc.int(n, lo=1) for n in ("F", "H", "K", "N", "D"))
    vc.assume(H >= 2)
    layer = vc.new(f"{LI}:TorchHadamardLayer", K, arity=H, semiring=semiring(vc), num_folds=F)
    x = vc.tensor("x", (F, H, K, N, D))
    y, mix = list(vc.I.B.iterate(vc.I, vc.call((layer, "sample"), x)))
    vc.ensure("no_mixture_index", mix is None)
    if shape_is(vc, y, [F, K, N, D]):
        f, k, n, d = vc.index_consts([F, K, N, D])
        vc.ensure("columns_added_across_inputs", y.elem([f, k, n, d]) == vc.red("sum", [H], lambda h: x.elem([f, h, k, n, d])))


for _H in (2, 3):
    def _h(vc, _H=_H):
        F, K, N, D = (vc.int(n, lo=1) for n in ("F", "K", "N", "D"))
        layer = vc.new(f"{LI}:TorchKroneckerLayer", K, arity=_H, semiring=semiring(vc), num_folds=F)
        x = vc.tensor("x", (F, _H, K, N, D))
        y, mix = list(vc.I.B.iterate(vc.I, vc.call((layer, "sample"), x)))
        Kout = K
        for _ in range(_H - 1):
            Kout = Kout * K
        if shape_is(vc, y, [F, Kout, N, D]):
            f, n, d = vc.index_consts([F, N, D])
            ii = vc.index_consts([K] * _H, "i")
            want = x.elem([f, 0, ii[0], n, d])
            for h in range(1, _H):
                want = want + x.elem([f, h, ii[h], n, d])
            vc.ensure("unit_tuple_first_input_major", y.elem([f, MR([(ii[h], K) for h in range(_H)]), n, d]) == want)
    obligation(f"C15.sample.TorchKroneckerLayer.arity{_H}", "C15", [f"{LI}:TorchKroneckerLayer.sample"])(_h)


@obligation("C15.pad_samples", "C15", [f"{QU}:SamplingQuery._pad_samples"])
def _(vc):
    """scope ids need not be contiguous: the circuit's scope is {0, 2, 5}; the padded width is max id + 1"""
    F, K, N = (vc.int(n, lo=1) for n in ("F", "K", "N"))
    circ = Opaque("circuit", {"scope": vc.new(f"{SC}:Scope", [0, 2, 5])})
    q = Obj(vc.repo.lookup(f"{QU}:SamplingQuery"), {"_circuit": circ})
    samples = vc.tensor("samples", (F, K, N))
    sidx = vc.tensor("scope_idx", (F, 1), "long")
    k0 = z3.Int("k_rng")
    vc.assume(z3.ForAll([k0], z3.Or(sidx.elem([k0, 0]) == 0, sidx.elem([k0, 0]) == 2, sidx.elem([k0, 0]) == 5)))
    exc, y = vc.raises(lambda: vc.call((q, "_pad_samples"), samples, sidx))
    vc.ensure("no_exception_for_non_contiguous_scopes", exc is None)
    if exc is None and shape_is(vc, y, [F, K, N, 6]):
        f, k, n, d = vc.index_consts([F, K, N, 6])
        vc.ensure("own_variable_column_holds_the_sample_all_others_zero",
                  y.elem([f, k, n, d]) == z3.If(d == sidx.elem([f, 0]), samples.elem([f, k, n]), 0))
