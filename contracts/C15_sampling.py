"""C15 (structural clauses of sampling; the distributional clause is statistical and only bounded): layout of the samples through the
layers, for all fold counts, unit counts, numbers of samples N and variables D.

  sum layer        draws, per fold and output unit, a component m from Categorical(weight[f, o, :]) - the SAME axis the forward pass
                   weights, column h*Ki + i <-> unit i of input h - and returns the sample of that component:
                   out[f, o, n, d] = x[f, m div Ki, m mod Ki, n, d]  with m = draw[n, f, o]; refuses negative / unnormalised weights
  hadamard         out[f, k, n, d] = SUM_h x[f, h, k, n, d]      (inputs have disjoint variables: each column comes from one input)
  kronecker        out[f, (i_0..i_{H-1}), n, d] = SUM_h x[f, h, i_h, n, d]   (first input major, arity 2 and 3)
  _pad_samples     the samples of the input layer of fold f fill column scope_idx[f] - the layer's own variable - and no other column
"""
import z3

from engine.vc import obligation
from engine.values import to_z3, Obj, Opaque
from engine.tensor import MR, Tensor
from contracts.C01_kernels import semiring, param, shape_is, LI
from engine.interp import RaiseEx

QU = "cirkit/backend/torch/queries.py"
SC = "cirkit/utils/scope.py"


@obligation("C15.sample.TorchSumLayer", "C15", [f"{LI}:TorchSumLayer.sample"])
def _(vc):
    F, H, Ki, Ko, N, D = (vc.int(n, lo=1) for n in ("F", "H", "Ki", "Ko", "N", "D"))
    W, Wt = param(vc, "weight", F, (Ko, Ki * H))
    layer = vc.new(f"{LI}:TorchSumLayer", Ki, Ko, arity=H, weight=W, semiring=semiring(vc), num_folds=F)
    x = vc.tensor("x", (F, H, Ki, N, D))
    exc, res = vc.raises(lambda: vc.call((layer, "sample"), x))
    if exc is not None:
        vc.ensure("only_refusal_is_TypeError_for_unnormalised_weights", exc == "TypeError")
        return
    y, mix = list(vc.I.B.iterate(vc.I, res))
    if not shape_is(vc, y, [F, Ko, N, D]):
        return
    draws = vc.I.__dict__.get("categorical_draws", [])
    vc.ensure("one_categorical_draw_from_the_weights", len(draws) == 1 and draws[0][1] is Wt)
    if len(draws) != 1:
        return
    vc.ensure("weights_passed_as_probabilities", draws[0][2] == "probs")
    m_t = draws[0][0]
    f, o, n, d = vc.index_consts([F, Ko, N, D])
    m = m_t.elem([n, f, o])
    vc.ensure("sample_of_the_drawn_component_h_Ki_plus_i", y.elem([f, o, n, d]) == x.elem([f, m / to_z3(Ki), m % to_z3(Ki), n, d]))
    if shape_is(vc, mix, [F, Ko, N], "mixture_index_shape"):
        vc.ensure("returns_the_drawn_components", mix.elem([f, o, n]) == m)


@obligation("C15.sample.TorchSumLayer.after_weights_changed", "C15", [f"{LI}:TorchSumLayer.sample"])
def _(vc):
    """history: sample, the weights take other values (a training step, load_state_dict), sample again on the SAME compiled layer - the second
    draw is from the CURRENT weights (nothing derived from the weights may be kept across calls)"""
    F, H, Ki, Ko, N, D = (vc.int(n, lo=1) for n in ("F", "H", "Ki", "Ko", "N", "D"))
    W, Wt = param(vc, "weight", F, (Ko, Ki * H))
    layer = vc.new(f"{LI}:TorchSumLayer", Ki, Ko, arity=H, weight=W, semiring=semiring(vc), num_folds=F)
    x = vc.tensor("x", (F, H, Ki, N, D))
    exc, res = vc.raises(lambda: vc.call((layer, "sample"), x))
    if exc is not None:
        return
    Wt2 = vc.tensor("weight_after_update", (F, Ko, Ki * H))
    W.__dict__["__vf_call__"] = lambda: Wt2
    x2 = vc.tensor("x2", (F, H, Ki, N, D))
    exc, res = vc.raises(lambda: vc.call((layer, "sample"), x2))
    if exc is not None:
        vc.ensure("only_refusal_is_TypeError_for_unnormalised_weights", exc == "TypeError")
        return
    draws = vc.I.__dict__.get("categorical_draws", [])
    vc.ensure("one_draw_per_call", len(draws) == 2)
    if len(draws) != 2:
        return
    vc.ensure("second_draw_from_the_current_weights", draws[1][1] is Wt2)
    y, mix = list(vc.I.B.iterate(vc.I, res))
    if shape_is(vc, y, [F, Ko, N, D]):
        f, o, n, d = vc.index_consts([F, Ko, N, D])
        m = draws[1][0].elem([n, f, o])
        vc.ensure("sample_of_the_component_drawn_now", y.elem([f, o, n, d]) == x2.elem([f, m / to_z3(Ki), m % to_z3(Ki), n, d]))


@obligation("C15.sample.TorchHadamardLayer", "C15", [f"{LI}:TorchHadamardLayer.sample"])
def _(vc):
    F, H, K, N, D = (vc.int(n, lo=1) for n in ("F", "H", "K", "N", "D"))
    vc.assume(H >= 2)
    layer = vc.new(f"{LI}:TorchHadamardLayer", K, arity=H, semiring=semiring(vc), num_folds=F)
    x = vc.tensor("x", (F, H, K, N, D))
    y, mix = list(vc.I.B.iterate(vc.I, vc.call((layer, "sample"), x)))
    vc.ensure("no_mixture_index", mix is None)
    if shape_is(vc, y, [F, K, N, D]):
        f, k, n, d = vc.index_consts([F, K, N, D])
        vc.ensure("columns_added_across_inputs", y.elem([f, k, n, d]) == vc.red("sum", [H], lambda h: x.elem([f, h, k, n, d])))


for _H in (2, 3):
    def _h(vc, _H=_H):
        F, K, N, D = (vc.int(n, lo=1) for n in ("F", "K", "N", "D"))
        layer = vc.new(f"{LI}:TorchKroneckerLayer", K, arity=_H, semiring=semiring(vc), num_folds=F)
        x = vc.tensor("x", (F, _H, K, N, D))
        y, mix = list(vc.I.B.iterate(vc.I, vc.call((layer, "sample"), x)))
        Kout = K
        for _ in range(_H - 1):
            Kout = Kout * K
        if shape_is(vc, y, [F, Kout, N, D]):
            f, n, d = vc.index_consts([F, N, D])
            ii = vc.index_consts([K] * _H, "i")
            want = x.elem([f, 0, ii[0], n, d])
            for h in range(1, _H):
                want = want + x.elem([f, h, ii[h], n, d])
            vc.ensure("unit_tuple_first_input_major", y.elem([f, MR([(ii[h], K) for h in range(_H)]), n, d]) == want)
    obligation(f"C15.sample.TorchKroneckerLayer.arity{_H}", "C15", [f"{LI}:TorchKroneckerLayer.sample"])(_h)


@obligation("C15.pad_samples", "C15", [f"{QU}:SamplingQuery._pad_samples"])
def _(vc):
    """scope ids need not be contiguous: the circuit's scope is {0, 2, 5}; the padded width is max id + 1"""
    F, K, N = (vc.int(n, lo=1) for n in ("F", "K", "N"))
    circ = Opaque("circuit", {"scope": vc.new(f"{SC}:Scope", [0, 2, 5])})
    q = Obj(vc.repo.lookup(f"{QU}:SamplingQuery"), {"_circuit": circ})
    samples = vc.tensor("samples", (F, K, N))
    sidx = vc.tensor("scope_idx", (F, 1), "long")
    k0 = z3.Int("k_rng")
    vc.assume(z3.ForAll([k0], z3.Or(sidx.elem([k0, 0]) == 0, sidx.elem([k0, 0]) == 2, sidx.elem([k0, 0]) == 5)))
    exc, y = vc.raises(lambda: vc.call((q, "_pad_samples"), samples, sidx))
    vc.ensure("no_exception_for_non_contiguous_scopes", exc is None)
    if exc is None and shape_is(vc, y, [F, K, N, 6]):
        f, k, n, d = vc.index_consts([F, K, N, 6])
        vc.ensure("own_variable_column_holds_the_sample_all_others_zero",
                  y.elem([f, k, n, d]) == z3.If(d == sidx.elem([f, 0]), samples.elem([f, k, n]), 0))


# ------------------------------------------------------------------------------------------------ SamplingQuery: glue
from engine.values import Builtin, PartialVal, FuncVal

LP_ = "cirkit/backend/torch/layers/input.py"


@obligation("C15.query.layer_fn.input_layer", "C15", [f"{QU}:SamplingQuery._layer_fn"])
def _(vc):
    """an input layer is asked for `num_samples` samples, which are padded with the layer's OWN scope index and recorded"""
    q = Obj(vc.repo.lookup(f"{QU}:SamplingQuery"), {"_circuit": Opaque("circuit")})
    N = vc.int("num_samples", lo=1)
    raw, padded, sidx = Opaque("raw_samples"), Opaque("padded_samples"), Opaque("scope_idx")
    asked, pads = [], []
    layer = Opaque("input_layer", {"scope_idx": sidx}, cls=vc.repo.lookup(f"{LP_}:TorchCategoricalLayer"))
    layer.attrs["sample"] = lambda o: Builtin("sample", lambda n: asked.append(n) or raw)
    vc.I.summaries[f"{QU}:SamplingQuery._pad_samples"] = lambda I, a, k: pads.append(a[1:]) or padded
    mix = []
    out = vc.call((q, "_layer_fn"), layer, num_samples=N, mixture_samples=mix)
    vc.ensure("asks_the_layer_for_num_samples_samples", len(asked) == 1 and vc.must(to_z3(asked[0]) == N))
    vc.ensure("pads_them_with_the_layers_own_scope_index", len(pads) == 1 and pads[0][0] is raw and pads[0][1] is sidx)
    vc.ensure("returns_and_records_the_padded_samples", out is padded and len(mix) == 1 and mix[0] is padded)


for _mix in (False, True):
    def _h(vc, _mix=_mix):
        """an inner layer combines the samples of its inputs (all of them, in order); only sum layers report a mixture sample"""
        q = Obj(vc.repo.lookup(f"{QU}:SamplingQuery"), {"_circuit": Opaque("circuit")})
        ins = [Opaque("in0"), Opaque("in1")]
        s, m = Opaque("samples"), (Opaque("mixture") if _mix else None)
        got = []
        layer = Opaque("inner_layer", cls=vc.repo.lookup(f"{LI}:TorchSumLayer" if _mix else f"{LI}:TorchHadamardLayer"))
        layer.attrs["sample"] = lambda o: Builtin("sample", lambda *xs: got.append(list(xs)) or (s, m))
        mix = []
        out = vc.call((q, "_layer_fn"), layer, *ins, num_samples=vc.int("num_samples", lo=1), mixture_samples=mix)
        vc.ensure("samples_of_all_inputs_in_order", len(got) == 1 and len(got[0]) == 2 and got[0][0] is ins[0] and got[0][1] is ins[1])
        vc.ensure("returns_the_layers_samples", out is s)
        vc.ensure("mixture_sample_recorded_iff_reported", (len(mix) == 1 and mix[0] is m) if _mix else mix == [])
    obligation(f"C15.query.layer_fn.inner_layer.{'sum' if _mix else 'product'}", "C15", [f"{QU}:SamplingQuery._layer_fn"])(_h)


@obligation("C15.query.call", "C15", [f"{QU}:SamplingQuery.__call__"])
def _(vc):
    """the circuit is evaluated once with _layer_fn bound to the requested number of samples; the result (O, K, N, D) of a one-output,
    one-unit circuit is returned as (N, D): row n is sample n, column d is variable d"""
    O, K, N, D = vc.int("O", lo=1), vc.int("K", lo=1), vc.int("N", lo=1), vc.int("D", lo=1)
    ev = vc.tensor("evaluated", (O, K, N, D))
    seen = {}
    circ = Opaque("circuit")
    circ.attrs["evaluate"] = lambda o: Builtin("evaluate", lambda *a, **k: seen.update(a=a, k=k) or ev)
    q = Obj(vc.repo.lookup(f"{QU}:SamplingQuery"), {"_circuit": circ})
    res = vc.call((q, "__call__"), N)
    fn = seen.get("k", {}).get("module_fn")
    vc.ensure("evaluates_the_circuit_without_inputs", seen.get("a") == ())
    ok = isinstance(fn, PartialVal) and isinstance(fn.func, FuncVal) and fn.func.info.name == "_layer_fn" and fn.func.self_obj is q
    vc.ensure("through_its_own_layer_function", ok)
    if ok:
        vc.ensure("bound_to_the_requested_number_of_samples", vc.must(to_z3(fn.kwargs.get("num_samples")) == N))
    samples, mix = res
    vc.ensure("mixture_samples_list_is_the_one_the_layers_fill", ok and mix is fn.kwargs.get("mixture_samples") and mix == [])
    if shape_is(vc, samples, [N, D]):
        n, d = vc.index_consts([N, D])
        vc.ensure("row_n_is_sample_n_of_the_first_output_unit", samples.elem([n, d]) == ev.elem([0, 0, n, d]))


@obligation("C15.query.refusals", "C15", [f"{QU}:SamplingQuery.__call__", f"{QU}:SamplingQuery.__init__"])
def _(vc):
    q = Obj(vc.repo.lookup(f"{QU}:SamplingQuery"), {"_circuit": Opaque("circuit")})
    n = vc.int("num_samples")
    vc.assume(n <= 0)
    exc, _ = vc.raises(lambda: vc.call((q, "__call__"), n))
    vc.ensure("non_positive_number_of_samples_refused", exc == "ValueError")
    smooth, dec = vc.bool("smooth"), vc.bool("decomposable")
    vc.assume(z3.Not(z3.And(smooth, dec)))
    circ = Opaque("circuit", {"properties": Opaque("properties", {"smooth": smooth, "decomposable": dec})})
    exc, _ = vc.raises(lambda: vc.new(f"{QU}:SamplingQuery", circ))
    vc.ensure("circuits_that_are_not_smooth_and_decomposable_refused", exc == "ValueError")


# ------------------------------------------------------------------------------------------------ optimized layers
LO_ = "cirkit/backend/torch/layers/optimized.py"

for _H in (2, 3):
    def _h(vc, _H=_H):
        """TorchTuckerLayer (Sum o Kronecker fused by optimize=True): draws, per fold and output unit, a column m of the weight - the column
        of the unit tuple (i_0..i_{H-1}), first input major, exactly the column the forward pass multiplies with PROD_h x_h[i_h] - and returns
        the sum of the samples of unit i_h of input h"""
        F, K, Ko, N, D = (vc.int(n, lo=1) for n in ("F", "K", "Ko", "N", "D"))
        Kk = K
        for _ in range(_H - 1):
            Kk = Kk * K
        W, Wt = param(vc, "weight", F, (Ko, Kk))
        layer = vc.new(f"{LO_}:TorchTuckerLayer", K, Ko, _H, weight=W, semiring=semiring(vc), num_folds=F)
        x = vc.tensor("x", (F, _H, K, N, D))
        exc, res = vc.raises(lambda: vc.call((layer, "sample"), x))
        if exc is not None:
            vc.ensure("only_refusal_is_for_negative_or_unnormalised_weights", z3.Or(exc == "ValueError", exc == "TypeError"))
            return
        y, mix = list(vc.I.B.iterate(vc.I, res))
        if not shape_is(vc, y, [F, Ko, N, D]):
            return
        draws = vc.I.__dict__.get("categorical_draws", [])
        vc.ensure("one_categorical_draw_from_the_weights", len(draws) == 1 and draws[0][1] is Wt)
        if len(draws) != 1:
            return
        m_t = draws[0][0]
        f, o, n, d = vc.index_consts([F, Ko, N, D])
        ii = vc.index_consts([K] * _H, "i")
        m = m_t.elem([n, f, o])
        col = ii[0]
        for h in range(1, _H):
            col = col * to_z3(K) + ii[h]
        want = x.elem([f, 0, ii[0], n, d])
        for h in range(1, _H):
            want = want + x.elem([f, h, ii[h], n, d])
        vc.ensure("sample_of_the_drawn_unit_tuple_first_input_major", z3.Implies(m == col, y.elem([f, o, n, d]) == want))
        if shape_is(vc, mix, [F, Ko, N], "mixture_index_shape"):
            vc.ensure("returns_the_drawn_components", mix.elem([f, o, n]) == m)
    obligation(f"C15.sample.TorchTuckerLayer.arity{_H}", "C15", [f"{LO_}:TorchTuckerLayer.sample"])(_h)


@obligation("C15.sample.TorchTensorDotLayer", "C15", [f"{LO_}:TorchTensorDotLayer.sample"])
def _(vc):
    """TorchTensorDotLayer (one factor of a sum with a Kronecker-product weight shattered by optimize=True): out[(q, k)] = SUM_j w[k, j] x[(j, q)];
    sampling draws, per fold, output unit (q, k) and sample, a contracted index j from Categorical(w[f, k, :]) and returns the sample of input unit
    (j, q) - the unit the forward pass multiplies with w[k, j]"""
    F, Kj, Kq, Kk, N, D = (vc.int(n, lo=1) for n in ("F", "Kj", "Kq", "Kk", "N", "D"))
    W, Wt = param(vc, "weight", F, (Kk, Kj))
    layer = vc.new(f"{LO_}:TorchTensorDotLayer", Kj * Kq, Kq * Kk, weight=W, semiring=semiring(vc), num_folds=F)
    x = vc.tensor("x", (F, 1, Kj * Kq, N, D))
    exc, res = vc.raises(lambda: vc.call((layer, "sample"), x))
    if exc is not None:
        vc.ensure("only_refusal_is_for_negative_weights", z3.Or(exc == "ValueError", exc == "TypeError"))
        return
    y, mix = list(vc.I.B.iterate(vc.I, res))
    if not shape_is(vc, y, [F, Kq * Kk, N, D]):
        return
    draws = vc.I.__dict__.get("categorical_draws", [])
    vc.ensure("one_categorical_draw_from_the_weights", len(draws) == 1 and draws[0][1] is Wt)
    if len(draws) != 1:
        return
    m_t = draws[0][0]
    f, q, k, n, d = vc.index_consts([F, Kq, Kk, N, D])
    j = m_t.elem([n, q, f, k])
    vc.ensure("sample_of_the_drawn_contracted_unit_j_q", y.elem([f, MR([(q, Kq), (k, Kk)]), n, d]) == x.elem([f, 0, MR([(j, Kj), (q, Kq)]), n, d]))
    if shape_is(vc, mix, [F, Kq * Kk, N], "mixture_index_shape"):
        vc.ensure("returns_the_drawn_indices", mix.elem([f, MR([(q, Kq), (k, Kk)]), n]) == j)


# ------------------------------------------------------------------------------------------------ histories on the fused layers
def _second_call_uses_current_weights(vc, layer, W, w_shape, x_shape):
    """sample, the weights take other values, sample again on the SAME layer object: the second draw is from the CURRENT weight tensor"""
    x1 = vc.tensor("x1", x_shape)
    exc, _ = vc.raises(lambda: vc.call((layer, "sample"), x1))
    if exc is not None:
        return
    Wt2 = vc.tensor("weight_after_update", w_shape)
    W.__dict__["__vf_call__"] = lambda: Wt2
    x2 = vc.tensor("x2", x_shape)
    exc, _ = vc.raises(lambda: vc.call((layer, "sample"), x2))
    if exc is not None:
        vc.ensure("only_refusal_is_for_negative_or_unnormalised_weights", z3.Or(exc == "ValueError", exc == "TypeError"))
        return
    draws = vc.I.__dict__.get("categorical_draws", [])
    vc.ensure("one_draw_per_call", len(draws) == 2)
    if len(draws) == 2:
        vc.ensure("second_draw_from_the_current_weights", draws[1][1] is Wt2)


@obligation("C15.sample.TorchTuckerLayer.after_weights_changed", "C15", [f"{LO_}:TorchTuckerLayer.sample"])
def _(vc):
    F, K, Ko, N, D = (vc.int(n, lo=1) for n in ("F", "K", "Ko", "N", "D"))
    W, Wt = param(vc, "weight", F, (Ko, K * K))
    layer = vc.new(f"{LO_}:TorchTuckerLayer", K, Ko, 2, weight=W, semiring=semiring(vc), num_folds=F)
    _second_call_uses_current_weights(vc, layer, W, (F, Ko, K * K), (F, 2, K, N, D))


@obligation("C15.sample.TorchTensorDotLayer.after_weights_changed", "C15", [f"{LO_}:TorchTensorDotLayer.sample"])
def _(vc):
    F, Kj, Kq, Kk, N, D = (vc.int(n, lo=1) for n in ("F", "Kj", "Kq", "Kk", "N", "D"))
    W, Wt = param(vc, "weight", F, (Kk, Kj))
    layer = vc.new(f"{LO_}:TorchTensorDotLayer", Kj * Kq, Kq * Kk, weight=W, semiring=semiring(vc), num_folds=F)
    _second_call_uses_current_weights(vc, layer, W, (F, Kk, Kj), (F, 1, Kj * Kq, N, D))


# ------------------------------------------------------------------------------------------------ input layer
from contracts.C01_kernels import LP, scope_idx

for _p in ("logits", "probs"):
    def _h(vc, _p=_p):
        """TorchCategoricalLayer.sample: per fold and unit a category drawn from the Categorical over the LAST axis of the layer's own logits
        (or log of its probabilities), laid out (F, K, N) with out[f, k, n] = draw[n, f, k]; a second call after the parameter changed draws
        from the current parameter"""
        F, K, C, N = vc.int("F", lo=1), vc.int("K", lo=1), vc.int("C", lo=2), vc.int("N", lo=1)
        P, Pt = param(vc, _p, F, (K, C))
        layer = vc.new(f"{LP}:TorchCategoricalLayer", scope_idx(vc, F), K, num_categories=C, semiring=semiring(vc), **{_p: P})
        y = vc.call((layer, "sample"), N)
        draws = vc.I.__dict__.get("categorical_draws", [])
        vc.ensure("one_categorical_draw", len(draws) == 1)
        if len(draws) != 1:
            return
        t, probs, kind = draws[0]
        vc.ensure("parameter_passed_as_logits", kind == "logits")
        f, k, c = vc.index_consts([F, K, C])
        if _p == "logits":
            vc.ensure("drawn_from_the_layers_logits", probs is Pt)
        else:
            ok = isinstance(probs, Tensor) and len(probs.shape) == 3
            vc.ensure("drawn_from_a_tensor_of_the_parameters_shape", ok)
            if ok:
                vc.ensure("drawn_from_the_log_of_the_layers_probabilities", probs.elem([f, k, c]) == vc.fn("log", Pt.elem([f, k, c])))
        if shape_is(vc, y, [F, K, N]):
            n = vc.index_consts([N], "n")[0]
            vc.ensure("layout_fold_unit_sample", y.elem([f, k, n]) == t.elem([n, f, k]))
        Pt2 = vc.tensor(f"{_p}_after_update", (F, K, C))
        P.__dict__["__vf_call__"] = lambda: Pt2
        vc.call((layer, "sample"), N)
        draws = vc.I.__dict__.get("categorical_draws", [])
        vc.ensure("one_draw_per_call", len(draws) == 2)
        if len(draws) == 2:
            p2 = draws[1][1]
            if _p == "logits":
                vc.ensure("second_draw_from_the_current_parameter", p2 is Pt2)
            else:
                vc.ensure("second_draw_from_the_current_parameter", isinstance(p2, Tensor) and len(p2.shape) == 3 and
                          p2.elem([f, k, c]) == vc.fn("log", Pt2.elem([f, k, c])))
    obligation(f"C15.sample.TorchCategoricalLayer.{_p}", "C15", [f"{LP}:TorchCategoricalLayer.sample"])(_h)
