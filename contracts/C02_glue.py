"""C02 (glue of the post-processing pipeline in backend/torch/compiler.py): each step hands exactly the right pieces of the circuit to the
graph algorithms that are under contract elsewhere (build_folded_graph, optimize_graph, the matchers, the fold-group builders) and
builds the result from exactly what they return.  Callees are contract summaries recording their arguments.

  _post_process_circuit   the enabled steps (optimize, fold), each once, each on the result of the previous; nothing when both off
  _fold_circuit           build_folded_graph(layerwise ordering, outputs, layer_inputs, group builder = _fold_layers_group with THIS compiler);
                          TorchCircuit(same scope, folded layers / inputs / outputs, same properties, the fold index information)
  _fold_parameters        the graphs of all parameters of a fold group merged: frontier i = frontier i of every parameter in GROUP ORDER, outputs in
                          group order, inputs from every graph; TorchParameter(..., fold_idx_info)
  _optimize_layers        optimize_graph(topological ordering, outputs, patterns of the requested registry (fuse | shatter), layer_inputs /
                          layer_outputs, _match_layer_pattern, rule of the SAME registry); None -> (cc, False); else a TorchCircuit with the same
                          scope and properties
  _optimize_parameter_nodes   per layer, per parameter: optimize_graph over the parameter graph with the parameter matcher; a rewritten graph
                          replaces the attribute of the same name on the same layer; reports whether anything changed
  _optimize_circuit       whole rounds of (parameters, shatter, fuse), each step on the result of the previous one; returns the last circuit
                          (the number of rounds is a performance choice and is not constrained)
"""
import functools

import z3

from engine.vc import obligation
from engine.values import Opaque, Builtin, PartialVal, FuncVal, to_z3

TC = "cirkit/backend/torch/compiler.py"
GF = "cirkit/backend/torch/graph/folding.py"
GO = "cirkit/backend/torch/graph/optimize.py"
CI = "cirkit/backend/torch/circuits.py"
PP = "cirkit/backend/torch/parameters/parameter.py"


def _is_func(f, name):
    return isinstance(f, FuncVal) and f.info.name == name


for _fold in (False, True):
    for _opt in (False, True):
        def _h(vc, _fold=_fold, _opt=_opt):
            comp = Opaque("compiler", {"is_fold_enabled": _fold, "is_optimize_enabled": _opt, "_flags": {"fold": _fold, "optimize": _opt}},
                          cls=vc.repo.lookup(f"{TC}:TorchCompiler"))
            cc, occ, fcc = Opaque("cc"), Opaque("optimized"), Opaque("folded")
            calls = []
            vc.I.summaries[f"{TC}:_optimize_circuit"] = lambda I, a, k: calls.append(("optimize", a[1], a[0])) or occ
            vc.I.summaries[f"{TC}:_fold_circuit"] = lambda I, a, k: calls.append(("fold", a[1], a[0])) or fcc
            out = vc.call(f"{TC}:TorchCompiler._post_process_circuit", comp, cc)
            kinds = sorted(c[0] for c in calls)
            vc.ensure("exactly_the_enabled_steps_once_each_with_this_compiler", kinds == sorted((["optimize"] if _opt else []) + (["fold"] if _fold else [])) and all(c[2] is comp for c in calls))
            prev, threaded = cc, True
            for c in calls:                       # (the order of the two steps is an implementation choice; each must work on the previous result)
                threaded = threaded and c[1] is prev
                prev = occ if c[0] == "optimize" else fcc
            vc.ensure("each_step_on_the_result_of_the_previous_one", threaded)
            vc.ensure("returns_the_last_result", out is prev)
        obligation(f"C02.glue.post_process_circuit.fold{int(_fold)}.optimize{int(_opt)}", "C02", [f"{TC}:TorchCompiler._post_process_circuit"])(_h)


@obligation("C02.glue.fold_circuit", "C02", [f"{TC}:_fold_circuit"])
def _(vc):
    comp = Opaque("compiler")
    ordering, outs, scope, props = Opaque("layerwise_ordering"), Opaque("outputs"), Opaque("scope"), Opaque("properties")
    layer_inputs = Builtin("layer_inputs", lambda l: [])
    cc = Opaque("cc", {"outputs": outs, "scope": scope, "properties": props})
    cc.attrs["layerwise_topological_ordering"] = lambda o: Builtin("lto", lambda: ordering)
    cc.attrs["layer_inputs"] = lambda o: layer_inputs
    seen, built = {}, {}
    res = (Opaque("folded_layers"), Opaque("folded_inputs"), Opaque("folded_outputs"), Opaque("fold_idx_info"))
    vc.I.summaries[f"{GF}:build_folded_graph"] = lambda I, a, k: seen.update(a=a, k=k) or res
    vc.I.summaries[f"{CI}:TorchCircuit"] = lambda I, a, k: built.update(a=a, k=k) or Opaque("folded_circuit")
    out = vc.call(f"{TC}:_fold_circuit", comp, cc)
    a, k = seen.get("a", []), seen.get("k", {})
    vc.ensure("folds_the_layerwise_ordering_of_this_circuit", len(a) == 1 and a[0] is ordering)
    vc.ensure("with_its_outputs_and_its_layer_inputs", k.get("outputs") is outs and k.get("incomings_fn") is layer_inputs)
    g = k.get("fold_group_fn")
    vc.ensure("groups_are_folded_by_fold_layers_group_with_this_compiler", isinstance(g, PartialVal) and _is_func(g.func, "_fold_layers_group") and
              g.kwargs.get("compiler") is comp and list(g.args) == [])
    ba, bk = built.get("a", []), built.get("k", {})
    vc.ensure("circuit_rebuilt_from_exactly_what_folding_returned", len(ba) == 4 and ba[0] is scope and ba[1] is res[0] and ba[2] is res[1] and ba[3] is res[2])
    vc.ensure("same_properties_and_the_fold_index_information", bk.get("properties") is props and bk.get("fold_idx_info") is res[3])


for _n in (1, 2, 3):
    def _h(vc, _n=_n):
        comp = Opaque("compiler")
        params, fronts, outs, ins = [], [], [], []
        for i in range(_n):
            depth = 1 + (i % 2)                                   # graphs of different depth: frontiers are merged level by level
            fr = [[Opaque(f"p{i}.level{d}.node{j}") for j in range(1 + d)] for d in range(depth)]
            o = [fr[-1][0]]
            nin = {fr[-1][0]: [fr[0][0]]} if depth > 1 else {}
            p = Opaque(f"p{i}", {"nodes_inputs": nin, "outputs": o})
            p.attrs["layerwise_topological_ordering"] = (lambda fr: lambda _o: Builtin("lto", lambda: [list(x) for x in fr]))(fr)
            params.append(p); fronts.append(fr); outs.append(o); ins.append(nin)
        seen, built = {}, {}
        res = (Opaque("fold_nodes"), Opaque("in_fold_nodes"), Opaque("fold_outputs"), Opaque("fold_idx_info"))

        def bfg(I, a, k):
            seen.update(ordering=[list(x) for x in a[0]], outputs=list(vc.I.B.iterate(vc.I, k.get("outputs"))), inc=k.get("incomings_fn"), grp=k.get("fold_group_fn"))
            return res
        vc.I.summaries[f"{GF}:build_folded_graph"] = bfg
        vc.I.summaries[f"{PP}:TorchParameter"] = lambda I, a, k: built.update(a=a, k=k) or Opaque("folded_parameter")
        vc.call(f"{TC}:_fold_parameters", comp, list(params))
        depth = max(len(fr) for fr in fronts)
        want = [[n for fr in fronts if d < len(fr) for n in fr[d]] for d in range(depth)]
        got = seen.get("ordering", [])
        vc.ensure("frontier_d_is_frontier_d_of_every_parameter_in_group_order", len(got) == len(want) and all(len(g) == len(w) and all(x is y for x, y in zip(g, w)) for g, w in zip(got, want)))
        wo = [n for o in outs for n in o]
        vc.ensure("outputs_in_group_order", len(seen.get("outputs", [])) == len(wo) and all(x is y for x, y in zip(seen["outputs"], wo)))
        inc = seen.get("inc")
        ok = inc is not None
        for nin in ins:
            for node, srcs in nin.items():
                r = vc.I.call(inc, [node], {}) if ok else None
                ok = ok and r is not None and len(r) == len(srcs) and all(x is y for x, y in zip(r, srcs))
        vc.ensure("inputs_of_every_node_of_every_graph_are_known", ok)
        g = seen.get("grp")
        vc.ensure("groups_are_folded_by_fold_parameter_nodes_group_with_this_compiler", isinstance(g, PartialVal) and _is_func(g.func, "_fold_parameter_nodes_group") and g.kwargs.get("compiler") is comp)
        ba, bk = built.get("a", []), built.get("k", {})
        vc.ensure("parameter_rebuilt_from_exactly_what_folding_returned", len(ba) == 3 and all(x is y for x, y in zip(ba, res[:3])) and bk.get("fold_idx_info") is res[3])
    obligation(f"C02.glue.fold_parameters.group{_n}", "C02", [f"{TC}:_fold_parameters"])(_h)


for _shatter in (False, True):
    for _hit in (False, True):
        def _h(vc, _shatter=_shatter, _hit=_hit):
            regs = {"fuse": Opaque("fuse_registry", {"signatures": Opaque("fuse_patterns")}), "shatter": Opaque("shatter_registry", {"signatures": Opaque("shatter_patterns")})}
            asked = []
            rules = {"fuse": Builtin("fuse_rule", lambda c, m: ("fused", c, m)), "shatter": Builtin("shatter_rule", lambda c, m: ("shattered", c, m))}
            comp = Opaque("compiler")
            comp.attrs["retrieve_layer_optimization_registry"] = lambda o: Builtin("reg", lambda kind: regs[kind])
            comp.attrs["retrieve_layer_optimization_rule"] = lambda o: Builtin("rule", lambda kind, pattern: asked.append((kind, pattern)) or rules[kind])
            topo, outs, scope, props = Opaque("ordering"), Opaque("outputs"), Opaque("scope"), Opaque("properties")
            li, lo = Builtin("layer_inputs", lambda l: []), Builtin("layer_outputs", lambda l: [])
            cc = Opaque("cc", {"outputs": outs, "scope": scope, "properties": props})
            cc.attrs["topological_ordering"] = lambda o: Builtin("to", lambda: topo)
            cc.attrs["layer_inputs"] = lambda o: li
            cc.attrs["layer_outputs"] = lambda o: lo
            seen, built = {}, {}
            res = (Opaque("layers"), Opaque("in_layers"), Opaque("new_outputs"))
            vc.I.summaries[f"{GO}:optimize_graph"] = lambda I, a, k: seen.update(a=a, k=k) or (res if _hit else None)
            vc.I.summaries[f"{CI}:TorchCircuit"] = lambda I, a, k: built.update(a=a, k=k) or Opaque("new_circuit")
            out = vc.call(f"{TC}:_optimize_layers", comp, cc, shatter=_shatter)
            kind = "shatter" if _shatter else "fuse"
            a, k = seen.get("a", []), seen.get("k", {})
            vc.ensure("graph_of_this_circuit_with_the_patterns_of_the_requested_registry", len(a) == 3 and a[0] is topo and a[1] is outs and a[2] is regs[kind].attrs["signatures"])
            vc.ensure("layer_inputs_and_layer_outputs_in_the_right_roles", k.get("incomings_fn") is li and k.get("outcomings_fn") is lo)
            vc.ensure("matched_by_the_layer_matcher", _is_func(k.get("pattern_matcher_fn"), "_match_layer_pattern"))
            mo = k.get("match_optimizer_fn")
            pat = Opaque("some_pattern")
            m = Opaque("some_match", {"pattern": pat})
            r = vc.I.call(mo, [m], {}) if mo is not None else None
            vc.ensure("matches_rewritten_by_the_rule_of_the_same_registry", r == (("shattered" if _shatter else "fused"), comp, m) and asked == [(kind, pat)])
            out = list(out) if isinstance(out, tuple) else []
            if _hit:
                ba, bk = built.get("a", []), built.get("k", {})
                vc.ensure("new_circuit_from_exactly_what_the_rewriting_returned", len(ba) == 4 and ba[0] is scope and all(x is y for x, y in zip(ba[1:], res)) and bk.get("properties") is props)
                vc.ensure("reports_a_change", len(out) == 2 and out[1] is True and out[0] is not cc)
            else:
                vc.ensure("unchanged_circuit_and_no_change_reported", len(out) == 2 and out[0] is cc and out[1] is False and built == {})
        obligation(f"C02.glue.optimize_layers.{'shatter' if _shatter else 'fuse'}.{'rewritten' if _hit else 'nothing'}", "C02", [f"{TC}:_optimize_layers"])(_h)


for _hits in ((False, False, False), (True, False, False), (False, False, True), (True, True, True)):
    def _h(vc, _hits=_hits):
        """two layers; the first has parameters a, b, the second has parameter c; _hits says which graphs get rewritten"""
        pats = Opaque("parameter_patterns")
        rule = Builtin("rule", lambda c, m: ("rewritten", c, m))
        asked = []
        comp = Opaque("compiler")
        comp.attrs["retrieve_parameter_optimization_registry"] = lambda o: Builtin("reg", lambda: Opaque("registry", {"signatures": pats}))
        comp.attrs["retrieve_parameter_optimization_rule"] = lambda o: Builtin("rule_of", lambda pattern: asked.append(pattern) or rule)
        graphs, built, sets = [], [], []

        def pgraph(name):
            from engine.values import ClassVal
            g = Opaque(name, {"outputs": Opaque(name + ".outputs")}, cls=vc.repo.lookup(f"{PP}:TorchParameter"))
            g.topo = Opaque(name + ".ordering")
            g.ni, g.no = Builtin("node_inputs", lambda n: []), Builtin("node_outputs", lambda n: [])
            g.attrs["topological_ordering"] = lambda o: Builtin("to", lambda: g.topo)
            g.attrs["node_inputs"] = lambda o: g.ni
            g.attrs["node_outputs"] = lambda o: g.no
            return g
        ga, gb, gc = pgraph("a"), pgraph("b"), pgraph("c")
        graphs = [ga, gb, gc]

        class Layer:
            def __init__(self, name, params):
                self.name, self.params = name, params

            def __vf_getattr__(self, I, n):
                if n == "params":
                    return dict(self.params)
                if n in self.params:
                    return self.params[n]
                from engine.interp import Unsupported
                raise Unsupported(f"layer.{n}")

            def __vf_setattr__(self, I, n, v):
                sets.append((self, n, v))
        l0, l1 = Layer("l0", {"a": ga, "b": gb}), Layer("l1", {"c": gc})
        cc = Opaque("cc", {"layers": [l0, l1]})
        calls = []
        results = {}

        def og(I, a, k):
            g = [x for x in graphs if x.topo is a[0]]
            calls.append((g[0] if g else None, a, k))
            i = graphs.index(g[0]) if g else -1
            if i >= 0 and _hits[i]:
                results[i] = (Opaque(f"nodes{i}"), Opaque(f"in_nodes{i}"), Opaque(f"outs{i}"))
                return results[i]
            return None
        vc.I.summaries[f"{GO}:optimize_graph"] = og
        vc.I.summaries[f"{PP}:TorchParameter"] = lambda I, a, k: built.append(a) or Opaque(f"new_graph{len(built)}")
        out = vc.call(f"{TC}:_optimize_parameter_nodes", comp, cc)
        vc.ensure("every_parameter_graph_of_every_layer_visited_once_in_order", [c[0] for c in calls] == graphs)
        for g, a, k in calls:
            if g is None:
                continue
            vc.ensure(f"{g.name}.own_outputs_patterns_and_adjacency", len(a) == 3 and a[1] is g.attrs["outputs"] and a[2] is pats and k.get("incomings_fn") is g.ni and k.get("outcomings_fn") is g.no)
            vc.ensure(f"{g.name}.matched_by_the_parameter_matcher", _is_func(k.get("pattern_matcher_fn"), "_match_parameter_nodes_pattern"))
        want_sets = [(l, n, i) for i, (l, n) in enumerate(((l0, "a"), (l0, "b"), (l1, "c"))) if _hits[i]]
        ok = len(sets) == len(want_sets) == len(built)
        vc.ensure("rewritten_graphs_replace_the_attribute_of_the_same_name_on_the_same_layer", ok and all(s[0] is w[0] and s[1] == w[1] for s, w in zip(sets, want_sets)))
        if ok:
            vc.ensure("new_graphs_built_from_exactly_what_the_rewriting_returned", all(len(b) == 3 and all(x is y for x, y in zip(b, results[w[2]])) for b, w in zip(built, want_sets)))
        out = list(out) if isinstance(out, tuple) else []
        vc.ensure("reports_whether_anything_changed", len(out) == 2 and out[0] is cc and out[1] is any(_hits))
    obligation("C02.glue.optimize_parameter_nodes." + "".join(str(int(h)) for h in _hits), "C02", [f"{TC}:_optimize_parameter_nodes"])(_h)


for _name, _script in {"nothing": [(0, 0, 0)], "one_round_then_nothing": [(1, 0, 1), (0, 0, 0)], "two_rounds": [(0, 1, 0), (1, 0, 0), (0, 0, 0)],
                       "never_settles": [(1, 1, 1)] * 7}.items():
    def _h(vc, _script=_script):
        comp = Opaque("compiler")
        cc0 = Opaque("cc0")
        calls = []
        state = {"round": 0, "step": 0}

        def step(kind):
            def f(I, a, k):
                r = state["round"]
                hit = bool(_script[min(r, len(_script) - 1)][state["step"]])
                new = Opaque(f"cc.r{r}.{kind}") if hit else a[1]
                calls.append((kind, a[1], new, k.get("shatter")))
                state["step"] += 1
                if state["step"] == 3:
                    state["step"], state["round"] = 0, r + 1
                return (new, hit)
            return f
        pn = step("parameters")
        vc.I.summaries[f"{TC}:_optimize_parameter_nodes"] = pn
        ol = {True: step("shatter"), False: step("fuse")}
        vc.I.summaries[f"{TC}:_optimize_layers"] = lambda I, a, k: ol[bool(k.get("shatter"))](I, a, k)
        out = vc.call(f"{TC}:_optimize_circuit", comp, cc0, max_opt_steps=5)
        rounds = len(calls) // 3
        vc.ensure("whole_rounds_of_parameters_shatter_fuse", len(calls) % 3 == 0 and all(calls[3 * r + j][0] == ("parameters", "shatter", "fuse")[j] for r in range(rounds) for j in range(3)))
        prev, threaded = cc0, True
        for c in calls:
            threaded = threaded and c[1] is prev
            prev = c[2]
        vc.ensure("every_step_works_on_the_result_of_the_previous_one", threaded)
        vc.ensure("returns_the_last_result", out is prev)
        # how many rounds are run is a performance choice (every round preserves the function): not part of the contract
    obligation(f"C02.glue.optimize_circuit.{_name}", "C02", [f"{TC}:_optimize_circuit"])(_h)
