"""Native replay generators: obligation id -> standalone python source (run under /venv/bin/python, cwd=/verif)
that exits 1 when the real code violates the refuted clause on a concrete input (the counter-model first, then a
small neighbourhood)."""
import json
import re


def _param_node(rec, clause):
    m = re.match(r"C(?:14|05|10|02)\.(?:sym|rule|kernel)\.(?:Torch)?([A-Za-z]+)", rec["id"])
    name = m.group(1)
    model = (clause.get("model") or {}).get("inputs", {})
    return ("import sys, json\nfrom native.replay_lib import replay_param_node\n"
            f"sys.exit(replay_param_node({name!r}, json.loads({json.dumps(json.dumps(model, default=str))})))\n")


GENERATORS = [
    (re.compile(r"^C(14|05)\.(sym|rule|kernel)\.(?!TensorParameter|ReferenceParameter|mixing_weight_factory|TorchMatMul|TorchFlatten)"), _param_node),
]


def find(oid):
    for rx, g in GENERATORS:
        if rx.search(oid):
            return g
    return None
