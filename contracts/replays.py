"""Native replay generators: obligation id -> standalone python source (run under /venv/bin/python, cwd=/verif)
that exits 1 when the real code violates the refuted clause on a concrete input (the counter-model first, then a
small neighbourhood)."""
import json
import re


def _param_node(rec, clause):
    m = re.match(r"C(?:14|05|10|02|12)\.(?:sym|rule|kernel)\.(?:Torch)?([A-Za-z]+)", rec["id"])
    name = m.group(1)
    model = (clause.get("model") or {}).get("inputs", {})
    return ("import sys, json\nfrom native.replay_lib import replay_param_node\n"
            f"sys.exit(replay_param_node({name!r}, json.loads({json.dumps(json.dumps(model, default=str))})))\n")


def _scope_iter(rec, clause):
    """the counter-model is an order of a hash set, which CPython fixes per value: search small sets for a reproducer"""
    return ("import sys, itertools\nfrom cirkit.utils.scope import Scope\n"
            "for r in (2, 3):\n    for s in itertools.combinations(range(20), r):\n"
            "        got = list(Scope(s))\n        if got != sorted(s) or set(got) != set(s):\n"
            "            print('Scope', s, 'iterates as', got); sys.exit(1)\nsys.exit(0)\n")


def _rule(rec, clause):
    model = clause.get("model") or {}
    return ("import sys, json\nfrom native.replay_rules import replay_rule\n"
            f"sys.exit(replay_rule({rec['id']!r}, json.loads({json.dumps(json.dumps(model, default=str))})))\n")


def _fold_settings(rec, clause):
    name = rec["id"].split(".")[2].replace("Torch", "", 1)
    model = (clause.get("model") or {}).get("inputs", {})
    return ("import sys, json\nfrom native.replay_lib import replay_fold_settings\n"
            f"sys.exit(replay_fold_settings({name!r}, json.loads({json.dumps(json.dumps(model, default=str))})))\n")


def _outer_reduce(rec, clause):
    m = re.match(r"C0[234]\.opt\.outer_reduce_flatten\.rank(\d)\.o(\d)\.r(\d)", rec["id"])
    model = (clause.get("model") or {}).get("inputs", {})
    return ("import sys, json\nfrom native.replay_lib import replay_outer_reduce_flatten\n"
            f"sys.exit(replay_outer_reduce_flatten({m.group(1)}, {m.group(2)}, {m.group(3)}, json.loads({json.dumps(json.dumps(model, default=str))})))\n")


def _c18(rec, clause):
    return f"import sys\nfrom native.replay_c18 import main\nsys.exit(main({rec['id']!r}))\n"


def _frame(rec, clause):
    """a value remembered by an evaluation method shows up as a stale output after an in-place update: the frozen-tensor
    scenario of the C19 stand-in is the native witness"""
    return ("import sys, importlib\nmod = importlib.import_module('native.bounded.C19')\n"
            "res = mod.run('quick', 0).to_json()\nhits = [f for f in res['failures'] if 'frozen' in str(f['case'])]\n"
            "for f in hits:\n    print('FAILING INPUT', f['case'], '::', f['what'])\nsys.exit(1 if hits else 0)\n")


def _kernel_layers(rec, clause):
    """layer kernels: the counter-model fixes sizes only (the failing entries are universally quantified): the native witness
    is searched by the end-to-end stand-in of the property on the same tree"""
    prop = rec["id"][:3]
    prop = prop if prop in ("C01", "C06", "C11") else "C01"
    return ("import sys, importlib\n"
            f"res = importlib.import_module('native.bounded.{prop}').run('quick', 0).to_json()\n"
            "for f in res['failures'][:5]:\n    print('FAILING INPUT', f['case'], '::', f['what'])\n"
            "sys.exit(1 if res['failures'] else 0)\n")


def _mul_permuted(rec, clause):
    parts = rec["id"].split(".")
    hk, kind = parts[3], parts[4]
    perm = tuple(int(c) for c in parts[5][5:]) if len(parts) > 5 and parts[5].startswith("order") else (1, 0)
    model = (clause.get("model") or {}).get("inputs", {})
    return ("import sys, json\nfrom native.replay_functional import multiply_permuted\n"
            f"sys.exit(multiply_permuted({hk!r}, {kind!r}, json.loads({json.dumps(json.dumps(model, default=str))}), {perm!r}))\n")


def _patterns(rec, clause):
    parts = rec["id"].split(".")
    kind = "parameter" if "parameter_nodes" in parts[2] else "layer"
    variant = parts[3] if kind == "layer" else "plain"
    n = int(parts[-1].replace("len", ""))
    model = (clause.get("model") or {}).get("inputs", {})
    return ("import sys, json\nfrom native.replay_patterns import replay\n"
            f"sys.exit(replay({kind!r}, {variant!r}, {n}, json.loads({json.dumps(json.dumps(model, default=str))})))\n")


def _reset_frame(rec, clause):
    """re-initialisation reaching a tensor of another circuit: the native witness is the late-derived scenario of the C19 stand-in
    (derived circuits compiled / reset after a state dict was loaded into the base circuit)"""
    return ("import sys, importlib\nmod = importlib.import_module('native.bounded.C19')\n"
            "from native.bounded._common import Checker\nck = Checker('C19', mod.BOUND, mod.RULE, 'quick', 0)\n"
            "mod._late_derived_section(ck, 0)\nres = ck.res.to_json()\n"
            "for f in res['failures'][:5]:\n    print('FAILING INPUT', f['case'], '::', f['what'])\nsys.exit(1 if res['failures'] else 0)\n")


GENERATORS = [
    (re.compile(r"^C(19|10|17)\.frame\.reset_parameters\."), _reset_frame),
    (re.compile(r"^C(02|14)\.opt\.match_(parameter_nodes|layer)_pattern\."), _patterns),
    (re.compile(r"^C09\.multiply\.permuted_product_inputs\."), _mul_permuted),
    (re.compile(r"^C(01|03|06|11)\.(kernel|semiring)\."), _kernel_layers),
    (re.compile(r"^C(19|10)\.frame\."), _frame),
    (re.compile(r"^C18\."), _c18),
    (re.compile(r"^C0[234]\.opt\.outer_reduce_flatten"), _outer_reduce),
    (re.compile(r"^C(02|06|14|17)\.fold_settings\."), _fold_settings),
    (re.compile(r"^C(03|04|05|07)\.rule\."), _rule),
    (re.compile(r"^C05\.Scope\.__iter__"), _scope_iter),
    (re.compile(r"^C(14|05|12)\.(sym|rule|kernel)\.(?!TensorParameter|ReferenceParameter|mixing_weight_factory|TorchMatMul|TorchFlatten)"), _param_node),
]


def _bounded_fallback(rec, clause):
    """no dedicated replay: the native witness is searched by the bounded stand-in of the same property on the same tree
    (a neighbourhood search, not a replay of the counter-model itself - the replay file says so)"""
    prop = rec.get("property") or rec["id"][:3]
    return ("# neighbourhood search by the bounded stand-in of the property (no dedicated replay for this obligation)\n"
            "import sys, importlib, os\n"
            f"if not os.path.exists(os.path.join('native', 'bounded', '{prop}.py')):\n    sys.exit(0)\n"
            f"res = importlib.import_module('native.bounded.{prop}').run('quick', 0).to_json()\n"
            "for f in res['failures'][:5]:\n    print('FAILING INPUT', f['case'], '::', f['what'])\n"
            "sys.exit(1 if res['failures'] else 0)\n")


def find(oid):
    for rx, g in GENERATORS:
        if rx.search(oid):
            return g
    return _bounded_fallback
