"""C02 (optimize=True): graph.optimize.optimize_graph splices the replacement modules of every match into the graph.

Precondition (what the matchers and the prioritisation establish - C02_patterns): the matches are pairwise disjoint EXCLUSIVE chains
[root n_0, ..., entry n_{N-1}], n_{i+1} the only input of n_i, every entry but the root consumed only by its predecessor and not an output.
Assumed contract of the optimisation rule (proved per rule in C02_optlayers / C02_folding.opt): the replacement chain o_1 <- ... <- o_k
computes, from the inputs of the entry point, what the matched chain computes.

(templates)  with every module an UNINTERPRETED function of its inputs, the denotation of every output of the rewritten graph equals the
             denotation of the same output of the original graph; the result lists every module once, after its inputs; the inner
             replacement modules are consumed only by their successor.  Eight graph shapes x replacement lengths 1..3.
(step)       Hoare loop rule on the real statements of the main loop: ONE iteration from an arbitrary state, for a module of arity 0..3 that
             is unmatched / an inner entry / a root (of a match of one or more entries), with inputs that are unmatched or belong to
             already-spliced matches: exactly the expected entries are appended / written, inputs are redirected to the exit points of
             their matches IN ORDER, nothing else changes.  Maps are frame-guarded: a lookup of a key the iteration has no business reading
             makes the obligation unsupported, not wrongly true.
"""
import itertools

import z3

from engine.vc import obligation
from engine.values import Opaque, Builtin, Obj, to_z3
from engine.interp import Unsupported
from contracts.lib import *

GO = "cirkit/backend/torch/graph/optimize.py"
VAL = z3.DeclareSort("Val")


class G:
    """a concrete DAG of opaque modules"""

    def __init__(self, vc, edges, outputs, order):
        self.vc = vc
        self.m = {n: Opaque(n, {"__identity_eq__": True}) for n in order}      # torch modules compare by identity (nn.Module defines no __eq__)
        self.ins = {self.m[n]: [self.m[i] for i in edges.get(n, [])] for n in order}
        self.order = [self.m[n] for n in order]
        self.outputs = [self.m[n] for n in outputs]
        self.fn = {}

    def f(self, mod, arity):
        key = (mod.name, arity)
        if key not in self.fn:
            self.fn[key] = z3.Function(f"f_{mod.name}_{arity}", *([VAL] * arity), VAL) if arity else z3.Const(f"c_{mod.name}", VAL)
        return self.fn[key]

    def apply(self, mod, args):
        f = self.f(mod, len(args))
        return f(*args) if args else f

    def den(self, mod, memo=None):
        memo = {} if memo is None else memo
        if mod not in memo:
            memo[mod] = self.apply(mod, [self.den(i, memo) for i in self.ins[mod]])
        return memo[mod]

    def outs_of(self, mod):
        return [n for n in self.order if mod in self.ins[n]]


TEMPLATES = {
    # name: (edges, outputs, topological order, matches as [root, ..., entry])
    "chain": ({"b": ["a"], "c": ["b"]}, ["c"], "abc", [["c", "b"]]),
    "chain_consumed": ({"b": ["a"], "c": ["b"], "d": ["c"]}, ["d"], "abcd", [["c", "b"]]),
    "two_matches": ({"b": ["a"], "c": ["b"], "e": ["a"], "f": ["e"], "g": ["f", "c"]}, ["g"], "abcefg", [["c", "b"], ["f", "e"]]),
    "shared_root": ({"b": ["a"], "c": ["b"], "d": ["c"], "e": ["c", "a"]}, ["d", "e", "c"], "abcde", [["c", "b"]]),
    "entry_two_inputs": ({"b": ["a2", "a1"], "c": ["b"], "d": ["c", "a1"]}, ["d"], ["a1", "a2", "b", "c", "d"], [["c", "b"]]),
    "match_into_match": ({"b": ["a"], "c": ["b"], "d": ["c"], "e": ["d"], "g": ["e", "c"]}, ["g", "e"], "abcdeg", [["c", "b"], ["e", "d"]]),
    "single_entry_match": ({"b": ["a"], "c": ["b", "a"]}, ["c", "b"], "abc", [["b"]]),
    "three_entries": ({"b": ["a0", "a1"], "c": ["b"], "d": ["c"], "e": ["d"]}, ["e", "d"], ["a0", "a1", "b", "c", "d", "e"], [["d", "c", "b"]]),
}


for _name, (_edges, _outs, _order, _matches) in TEMPLATES.items():
    for _k in (1, 2, 3):
        def _h(vc, _edges=_edges, _outs=_outs, _order=_order, _matches=_matches, _k=_k):
            g = G(vc, _edges, _outs, list(_order))
            pattern = Opaque("pattern")
            matches = [vc.new(f"{GO}:GraphOptMatch", pattern, [g.m[n] for n in ent]) for ent in _matches]
            module_matches = {}
            for mt, ent in zip(matches, _matches):
                for n in ent:
                    module_matches[g.m[n]] = mt
            vc.I.summaries[f"{GO}:match_optimization_patterns"] = lambda I, a, k: (list(matches), dict(module_matches))
            repl = {}

            def optimizer(match):
                i = [j for j, mt in enumerate(matches) if mt is match][0]
                repl.setdefault(i, tuple(Opaque(f"opt{i}_{j}") for j in range(_k)))
                return repl[i]
            res = vc.call(f"{GO}:optimize_graph", list(g.order), list(g.outputs), [pattern],
                          incomings_fn=Builtin("incomings_fn", lambda m: list(g.ins[m])), outcomings_fn=Builtin("outcomings_fn", lambda m: g.outs_of(m)),
                          pattern_matcher_fn=Opaque("matcher"), match_optimizer_fn=Builtin("match_optimizer_fn", optimizer))
            ok = isinstance(res, tuple) and len(res) == 3
            vc.ensure("returns_modules_inputs_outputs", ok)
            if not ok:
                return
            modules, in_modules, opt_outputs = list(res[0]), res[1], list(res[2])
            matched = set(id(x) for x in module_matches)
            expect = [m for m in g.order if id(m) not in matched] + [o for r in repl.values() for o in r]
            vc.ensure("every_rule_applied_once", sorted(repl) == list(range(len(matches))))
            vc.ensure("result_lists_unmatched_and_replacement_modules_once_each", len(modules) == len(expect) and {id(x) for x in modules} == {id(x) for x in expect})
            pos = {id(m): i for i, m in enumerate(modules)}
            topo = all(id(m) in pos and all(id(i) in pos and pos[id(i)] < pos[id(m)] for i in in_modules.get(m, [])) and m in in_modules for m in modules)
            vc.ensure("every_module_has_an_input_list_of_earlier_modules", topo)
            if not topo:
                return
            # denotation of the rewritten graph: a replacement chain computes, from the inputs wired into its first module, the matched chain
            den = {}

            def comp(i, args):
                ent = [g.m[n] for n in _matches[i]]
                v = g.apply(ent[-1], args)
                for n in reversed(ent[:-1]):
                    v = g.apply(n, [v])
                return v
            chain_ok = True
            for m in modules:
                args = [den[id(x)] for x in in_modules[m]]
                owner = [(i, r) for i, r in repl.items() if any(m is o for o in r)]
                if not owner:
                    den[id(m)] = g.apply(m, args) if len(args) == len(g.ins[m]) else None
                    chain_ok = chain_ok and den[id(m)] is not None
                    continue
                i, r = owner[0]
                j = [q for q, o in enumerate(r) if o is m][0]
                if j == 0:
                    den[id(m)] = ("partial", i, args) if len(r) > 1 else (comp(i, args) if len(args) == len(g.ins[g.m[_matches[i][-1]]]) else None)
                else:
                    prev = in_modules[m]
                    good = len(prev) == 1 and prev[0] is r[j - 1] and isinstance(den[id(prev[0])], tuple)
                    chain_ok = chain_ok and good
                    if not good:
                        den[id(m)] = None
                    elif j == len(r) - 1:
                        a0 = den[id(prev[0])][2]
                        den[id(m)] = comp(i, a0) if len(a0) == len(g.ins[g.m[_matches[i][-1]]]) else None
                    else:
                        den[id(m)] = den[id(prev[0])]
                chain_ok = chain_ok and den[id(m)] is not None
            vc.ensure("replacement_modules_form_a_chain_fed_by_the_entry_points_inputs", chain_ok)
            inner = [o for r in repl.values() for o in r[:-1]]
            vc.ensure("inner_replacement_modules_have_no_other_consumer", all(
                sum(1 for m in modules for x in in_modules[m] if x is o) == 1 for o in inner) and not any(o is x for o in inner for x in opt_outputs))
            vc.ensure("same_number_of_outputs", len(opt_outputs) == len(g.outputs))
            for j, (o, want) in enumerate(zip(opt_outputs, g.outputs)):
                got = den.get(id(o))
                vc.ensure(f"output{j}_denotes_the_same_function", got is not None and not isinstance(got, tuple) and z3.eq(z3.simplify(got), z3.simplify(g.den(want))))
        obligation(f"C02.opt.optimize_graph.{_name}.replacement{_k}", "C02", [f"{GO}:optimize_graph"])(_h)


@obligation("C02.opt.optimize_graph.no_match_returns_none", "C02", [f"{GO}:optimize_graph"])
def _(vc):
    g = G(vc, {"b": ["a"]}, ["b"], "ab")
    vc.I.summaries[f"{GO}:match_optimization_patterns"] = lambda I, a, k: ([], {})
    res = vc.call(f"{GO}:optimize_graph", list(g.order), list(g.outputs), [], incomings_fn=Builtin("i", lambda m: list(g.ins[m])),
                  outcomings_fn=Builtin("o", lambda m: g.outs_of(m)), pattern_matcher_fn=Opaque("matcher"), match_optimizer_fn=Opaque("optimizer"))
    vc.ensure("none_when_nothing_matches", res is None)


# ------------------------------------------------------------------------------------------------ loop rule on the main loop
class GuardedMap:
    """a dict of which only the entries the iteration may read are known: other lookups are out of frame (unsupported, never a verdict).
    Writes are recorded."""

    def __init__(self, name, known):
        self.name, self.known, self.written = name, dict(known), []

    def _key(self, k):
        for kk in self.known:
            if kk is k:
                return kk
        for kk, _ in self.written:
            if kk is k:
                return kk
        return None

    def __vf_contains__(self, I, k):
        kk = self._key(k)
        if kk is None and not getattr(k, "frame_ok", False):
            raise Unsupported(f"{self.name}: membership of an object outside the iteration's frame")
        return kk is not None and self._value(kk) is not ABSENT

    def _value(self, kk):
        for a, b in reversed(self.written):
            if a is kk:
                return b
        return self.known.get(kk, ABSENT)

    def __vf_getitem__(self, I, k):
        kk = self._key(k)
        if kk is None:
            raise Unsupported(f"{self.name}: lookup of an object outside the iteration's frame")
        v = self._value(kk)
        if v is ABSENT:
            I.raise_("KeyError", self.name)
        return v

    def __vf_setitem__(self, I, k, v):
        self.written.append((k, v))

    def __vf_getattr__(self, I, name):
        if name == "get":
            return Builtin("get", lambda k, d=None: (self.__vf_getitem__(I, k) if self.__vf_contains__(I, k) else d))
        if name == "update":
            def update(other=(), **kw):
                items = other.items() if isinstance(other, dict) else I.B.iterate(I, other)
                for pair in items:
                    k, v = list(I.B.iterate(I, pair)) if not isinstance(pair, tuple) else pair
                    self.__vf_setitem__(I, k, v)
                for k, v in kw.items():
                    self.__vf_setitem__(I, k, v)
            return Builtin("update", update)
        raise Unsupported(f"{self.name}.{name}")


ABSENT = object()


def _step(vc, status, arity, in_status, N, k):
    """status of the module: unmatched | inner_first | inner_again | root ; in_status[j]: 'plain' | 'spliced' (belongs to a match whose root was
    processed: its exit point is registered) ; N entries in the module's match ; k replacement modules"""
    mk = lambda n: Opaque(n, {"__identity_eq__": True})
    module = mk("module")
    pattern = Opaque("pattern")
    ins = [mk(f"in{j}") for j in range(arity)]
    mm, exits, entries = {}, {}, {}
    want_inputs = []
    for j, (i, st) in enumerate(zip(ins, in_status)):
        if st == "spliced":
            other = vc.new(f"{GO}:GraphOptMatch", pattern, [i, mk(f"in{j}_inner")])
            ex = mk(f"exit_of_match_of_in{j}")
            mm[i], exits[other] = other, ex
            want_inputs.append(ex)
        else:
            mm[i] = ABSENT
            want_inputs.append(i)
    match, opt, entry = None, None, None
    if status != "unmatched":
        others = [mk(f"entry{q}") for q in range(N - 1)]
        if status == "root":
            ent = [module] + others
            entry = others[-1] if others else module
        elif status == "inner_first":                      # the deepest entry: first module of the match met in topological order
            ent = [mk("root")] + others[:-1] + [module] if N > 1 else [module]
            entry = module
        else:
            ent = [mk("root")] + [module] + others[1:] if N > 2 else None
            entry = others[-1] if N > 2 else None
        match = vc.new(f"{GO}:GraphOptMatch", pattern, ent)
        mm[module] = match
        if status in ("root", "inner_again") and entry is not module:
            entries[match] = entry
        else:
            entries[match] = ABSENT
        exits[match] = ABSENT
        opt = tuple(mk(f"opt{j}") for j in range(k))
    else:
        mm[module] = ABSENT
    entry_ins = ins
    if status == "root" and entry is not module:
        # the inputs of the ENTRY POINT are the match's inputs; the root's own input is the previous entry of the chain
        entry_ins = ins
        root_ins = [match.fields["_entries"][1]]
    else:
        root_ins = ins
    inc = {id(module): root_ins if status == "root" else ins}
    if entry is not None and entry is not module:
        inc[id(entry)] = entry_ins
    for x in (root_ins if status == "root" else []):
        mm.setdefault(x, match)

    def incomings(m):
        if id(m) not in inc:
            raise Unsupported("incomings_fn of a module outside the iteration's frame")
        return list(inc[id(m)])
    module_matches = GuardedMap("module_matches", mm)
    match_exit_points = GuardedMap("match_exit_points", exits)
    match_entry_points = GuardedMap("match_entry_points", entries)
    in_modules = GuardedMap("in_modules", {})
    modules = []
    loc = {"modules": modules, "in_modules": in_modules, "module_matches": module_matches, "match_exit_points": match_exit_points,
           "match_entry_points": match_entry_points, "match_opt_modules": GuardedMap("match_opt_modules", {match: opt} if match is not None else {}),
           "incomings_fn": Builtin("incomings_fn", incomings)}
    vc.run_loop_body(f"{GO}:optimize_graph", loc, module, loop=1)
    same = lambda got, want: len(got) == len(want) and all(a is b for a, b in zip(got, want))
    vc.ensure("module_matches_not_written", module_matches.written == [] and loc["module_matches"] is module_matches)
    if status == "unmatched":
        vc.ensure("module_kept", same(modules, [module]))
        vc.ensure("inputs_redirected_to_exit_points_in_order", len(in_modules.written) == 1 and in_modules.written[0][0] is module and same(list(in_modules.written[0][1]), want_inputs))
        vc.ensure("no_entry_or_exit_point_written", match_entry_points.written == [] and match_exit_points.written == [])
    elif status in ("inner_first", "inner_again"):
        vc.ensure("inner_entries_are_dropped", modules == [] and in_modules.written == [] and match_exit_points.written == [])
        if status == "inner_first":
            vc.ensure("first_entry_met_becomes_the_entry_point", len(match_entry_points.written) == 1 and match_entry_points.written[0][0] is match and match_entry_points.written[0][1] is module)
        else:
            vc.ensure("entry_point_not_overwritten", match_entry_points.written == [])
    else:
        vc.ensure("replacement_chain_spliced_in", same(modules, list(opt)))
        w = {id(a): b for a, b in in_modules.written}
        vc.ensure("one_input_list_per_replacement_module", len(in_modules.written) == k and all(id(o) in w for o in opt))
        if len(in_modules.written) == k and all(id(o) in w for o in opt):
            vc.ensure("first_replacement_reads_the_entry_points_inputs_redirected_in_order", same(list(w[id(opt[0])]), want_inputs))
            vc.ensure("later_replacements_read_their_predecessor", all(same(list(w[id(opt[j])]), [opt[j - 1]]) for j in range(1, k)))
        vc.ensure("exit_point_is_the_last_replacement", len(match_exit_points.written) == 1 and match_exit_points.written[0][0] is match and match_exit_points.written[0][1] is opt[-1])
        ep = [b for a, b in match_entry_points.written if a is match]
        vc.ensure("entry_point_is_the_deepest_entry", (ep == [] and entry is not module) or (len(ep) == 1 and ep[0] is module and entry is module))


_CASES = []
for _ar in (0, 1, 2, 3):
    for _ins in itertools.product(("plain", "spliced"), repeat=_ar):
        _CASES.append(("unmatched", _ar, _ins, 0, 0))
        for _k in (1, 2, 3):
            _CASES.append(("root", _ar, _ins, 1, _k))
            if _ar <= 2:
                _CASES.append(("root", _ar, _ins, 2, _k))
                _CASES.append(("root", _ar, _ins, 3, _k))
for _N in (2, 3):
    _CASES.append(("inner_first", 1, ("plain",), _N, 1))
    _CASES.append(("inner_first", 2, ("spliced", "plain"), _N, 1))
_CASES.append(("inner_again", 1, ("plain",), 3, 1))

for _st, _ar, _ins, _N, _k in _CASES:
    def _h(vc, _st=_st, _ar=_ar, _ins=_ins, _N=_N, _k=_k):
        _step(vc, _st, _ar, _ins, _N, _k)
    obligation(f"C02.opt.optimize_graph.step.{_st}.arity{_ar}.{''.join(s[0] for s in _ins) or 'none'}.entries{_N}.replacement{_k}", "C02", [f"{GO}:optimize_graph"])(_h)


for _outs in [o for n in (1, 2, 3) for o in itertools.product(("plain", "spliced"), repeat=n)]:
    def _h(vc, _outs=_outs):
        mk = lambda n: Opaque(n, {"__identity_eq__": True})
        pattern = Opaque("pattern")
        outs = [mk(f"out{j}") for j in range(len(_outs))]
        mm, exits, want = {}, {}, []
        for j, (o, st) in enumerate(zip(outs, _outs)):
            if st == "spliced":
                mt = vc.new(f"{GO}:GraphOptMatch", pattern, [o])
                mm[o], exits[mt] = mt, mk(f"exit{j}")
                want.append(exits[mt])
            else:
                mm[o] = ABSENT
                want.append(o)
        modules, in_modules = [mk("some_module")], GuardedMap("in_modules", {})
        loc = {"modules": modules, "in_modules": in_modules, "module_matches": GuardedMap("module_matches", mm),
               "match_exit_points": GuardedMap("match_exit_points", exits), "outputs": list(outs)}
        kind, res = vc.run_suffix(f"{GO}:optimize_graph", loc, loop=1)
        ok = kind == "return" and isinstance(res, tuple) and len(res) == 3
        vc.ensure("returns_the_three_parts", ok)
        if ok:
            vc.ensure("modules_and_input_lists_are_the_ones_built_by_the_loop", res[0] is modules and res[1] is in_modules)
            got = list(res[2])
            vc.ensure("outputs_redirected_to_exit_points_in_declared_order", len(got) == len(want) and all(a is b for a, b in zip(got, want)))
    obligation(f"C02.opt.optimize_graph.suffix.{''.join(s[0] for s in _outs)}", "C02", [f"{GO}:optimize_graph"])(_h)


@obligation("C02.opt.optimize_graph.rules_applied_once_per_match", "C02", [f"{GO}:optimize_graph"])
def _(vc):
    pattern = Opaque("pattern")
    mk = lambda n: Opaque(n, {"__identity_eq__": True})
    match = vc.new(f"{GO}:GraphOptMatch", pattern, [mk("root"), mk("entry")])
    calls = []
    opt = (mk("opt0"),)
    store = GuardedMap("match_opt_modules", {})
    loc = {"match_opt_modules": store, "match_optimizer_fn": Builtin("match_optimizer_fn", lambda m: calls.append(m) or opt)}
    vc.run_loop_body(f"{GO}:optimize_graph", loc, match, loop=0)
    vc.ensure("the_rule_is_called_once_with_the_match", len(calls) == 1 and calls[0] is match)
    vc.ensure("its_result_is_stored_for_the_match", len(store.written) == 1 and store.written[0][0] is match and store.written[0][1] is opt)
