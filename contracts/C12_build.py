"""C12 / C16 (RegionGraph.build_circuit on region-graph templates; variable ids distinct and symbolic, unit counts symbolic):

  C16  the circuit is well formed (Circuit.__init__ accepts it), smooth and decomposable, structured-decomposable when the region
       graph is, defined over the region graph's scope, with one output of `num_classes` units per root region
  C12  EVERY sum layer of the circuit takes its weight from the factory the caller passed: dense sums from `sum_weight_factory`
       (here: softmax over the LAST axis of an unconstrained tensor of the sum's own weight shape, so every row is a probability
       vector), n-ary mixing sums from `nary_sum_weight_factory` (here: mixing_weight_factory over the same parameterisation: a
       softmax over the arity axis expanded to diagonal blocks); the input layers are the ones built by the caller's input factory
       for the variable of their region.  With the stated lemma (L-norm) this gives Z = 1 for every value of the tensors.
Abstractions cp / cp-t / tucker; templates: a two-level tree, a root with two partitions (n-ary mixing), and region graphs whose
root region is itself an input region (one variable; two variables factorised into univariate inputs).
"""
import z3

from engine.vc import obligation
from engine.values import to_z3, Obj, PartialVal, ClassVal, Builtin
from contracts.lib import *
from contracts import specs as S
from contracts.C16_regiongraph import RGB, RG

TU = "cirkit/templates/utils.py"


def _rg(vc, shape):
    g = RGB(vc)
    if shape == "tree":
        a, b, c = (vc.int(n, lo=0) for n in "abc")
        vc.assume(z3.And(a != b, a != c, b != c))
        ra, rb, rc = g.region([a]), g.region([b]), g.region([c])
        rab = g.region([a, b])
        root = g.region([a, b, c])
        g.partition([a, b], rab, [ra, rb])
        g.partition([a, b, c], root, [rab, rc])
        return g, [root], [a, b, c]
    if shape == "input_root1":                         # a region graph whose root region is itself an input region
        a = vc.int("a", lo=0)
        return g, [g.region([a])], [a]
    if shape == "input_root2":                         # ... over two variables (factorised into a Hadamard of univariate inputs)
        a, b = vc.int("a", lo=0), vc.int("b", lo=0)
        vc.assume(a != b)
        return g, [g.region([a, b])], [a, b]
    a, b = vc.int("a", lo=0), vc.int("b", lo=0)
    vc.assume(a != b)
    ra, rb, ra2, rb2 = g.region([a]), g.region([b]), g.region([a]), g.region([b])
    root = g.region([a, b])
    g.partition([a, b], root, [ra, rb])
    g.partition([a, b], root, [rb2, ra2])
    return g, [root], [a, b]


def _weight_kind(vc, P):
    """('softmax', tensor shape) | ('mixing', inner shape) | None for the parameter graph of a sum weight"""
    (out,) = P.fields["_outputs"]
    ins = P.fields["_in_nodes"]
    if out.cls.name == "SoftmaxParameter":
        (t,) = ins.get(out, [None])
        if t is not None and S.cls_is(vc, t, "TensorParameter") and not S.cls_is(vc, t, "ConstantParameter"):
            ax = vc.attr(out, "axis")
            n = len(list(vc.I.B.iterate(vc.I, vc.attr(t, "shape"))))
            return ("softmax", vc.must(to_z3(ax) == n - 1))
    if out.cls.name == "MixingWeightParameter":
        (sm,) = ins.get(out, [None])
        if sm is not None and sm.cls.name == "SoftmaxParameter":
            (t,) = ins.get(sm, [None])
            if t is not None and S.cls_is(vc, t, "TensorParameter"):
                return ("mixing", vc.must(to_z3(vc.attr(sm, "axis")) == 1))
    return None


for _shape in ("tree", "two_partitions", "input_root1", "input_root2", "two_partitions.default_nary"):
    for _sp in ("cp", "cp-t", "tucker"):
        def _h(vc, _shape=_shape, _sp=_sp):
            _default_nary = _shape.endswith(".default_nary")      # the caller relies on the documented fallback nary factory = sum_weight_factory
            _shape = _shape.split(".")[0]
            g, roots, vs = _rg(vc, _shape)
            rg = g.build(roots)
            Ki, Ks, Kc, C = vc.int("num_input_units", lo=1), vc.int("num_sum_units", lo=1), vc.int("num_classes", lo=1), vc.int("C", lo=2)
            if _sp != "cp":
                vc.assume(Ki == Ks)            # cp-t / tucker refuse inputs with different unit counts (documented ValueError)
            param = vc.new(f"{TU}:Parameterization", activation="softmax", initialization="normal")
            sum_weight_factory = vc.call(f"{TU}:parameterization_to_factory", param)
            nary = PartialVal(vc.I.wrap_resolved(vc.repo.resolve_name(vc.repo.module_by_path(SP), "mixing_weight_factory")), [], {"param_factory": sum_weight_factory})
            input_factory = PartialVal(ClassVal(vc.repo.lookup(f"{SL}:CategoricalLayer")), [], {"num_categories": C})
            kw = {} if _default_nary else {"nary_sum_weight_factory": nary}
            sc = vc.call((rg, "build_circuit"), input_factory=input_factory, sum_product=_sp, sum_weight_factory=sum_weight_factory,
                         num_input_units=Ki, num_sum_units=Ks, num_classes=Kc, **kw)
            layers = list(sc.fields["_nodes"])
            ins = sc.fields["_in_nodes"]
            sums = [l for l in layers if l.cls.name == "SumLayer"]
            vc.ensure("has_sum_layers", len(sums) > 0)
            for i, s in enumerate(sums):
                kind = _weight_kind(vc, vc.attr(s, "weight"))
                arity = vc.attr(s, "arity")
                nary_sum = not vc.must(to_z3(arity) == 1)
                vc.ensure(f"sum{i}.weight_from_the_callers_factory", kind is not None and kind[0] == ("mixing" if nary_sum and not _default_nary else "softmax"))
                vc.ensure(f"sum{i}.normalised_along_the_input_axis", kind is not None and kind[1])
            inputs = [l for l in layers if S.cls_is(vc, l, "InputLayer")]
            vc.ensure("input_layers_are_the_callers_categoricals", all(l.cls.name == "CategoricalLayer" and vc.must(to_z3(vc.attr(l, "num_categories")) == to_z3(C)) and
                                                                       vc.must(to_z3(vc.attr(l, "num_output_units")) == to_z3(Ki)) for l in inputs))
            outs = list(sc.fields["_outputs"])
            vc.ensure("one_output_per_root", len(outs) == len(roots))
            vc.ensure("outputs_have_num_classes_units", all(vc.must(to_z3(vc.attr(o, "num_output_units")) == to_z3(Kc)) for o in outs))
            vc.ensure("scope_is_the_region_graphs_scope", scope_arr(sc.fields["scope"]) == scope_arr(vc.attr(rg, "scope")))
            vc.ensure("smooth", to_z3(vc.I.truth(vc.attr(sc, "is_smooth"))))
            vc.ensure("decomposable", to_z3(vc.I.truth(vc.attr(sc, "is_decomposable"))))
            vc.ensure("structured_decomposable_like_the_region_graph",
                      z3.Implies(to_z3(vc.I.truth(vc.attr(rg, "is_structured_decomposable"))), to_z3(vc.I.truth(vc.attr(sc, "is_structured_decomposable")))))
        obligation(f"C12.build_circuit.{_shape}.{_sp}", "C12", [f"{RG}:RegionGraph.build_circuit", f"{TU}:parameterization_to_factory", f"{TU}:_build_tensor_parameter"] +
                   ([f"{SP}:mixing_weight_factory"] if _shape == "two_partitions" else []))(_h)
