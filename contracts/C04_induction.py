"""C04 / C09 (functional.multiply for circuits of ARBITRARY shape): loop-rule obligations on the real statements of the stack loop
`while to_multiply:`.  State: the stack of pairs still to multiply and `layers_to_block` (pair -> product block), frame-guarded: only the pairs
the iteration may legitimately read are known, any other lookup makes the obligation unsupported.

  (done)      the pair on top of the stack is already multiplied: it is popped, nothing else changes
  (descend)   some input pair of an overlapping pair is not multiplied yet: every missing input pair is pushed (only input pairs of this pair
              are) and nothing is built - the input pairs being: sum x sum the product of the input lists, product x product position-wise
  (build)     all input pairs are multiplied: the rule of the two layers' classes is applied ONCE to (l1, l2), its block is appended, wired to
              the blocks of the input pairs in that same order, recorded for the pair, and the pair is popped
  (refuse)    product layers listing inputs over different scope orders are refused (NotImplementedError) before anything is built
The per-rule content of the block is C04_rules; the disjoint-scope branch (sub-circuit copies + a Kronecker layer) and Circuit.from_operation
are covered on the templates of C04_functional.
"""
import itertools

import z3

from engine.vc import obligation
from engine.values import Opaque, Builtin, Obj, to_z3
from engine.interp import Unsupported
from contracts.lib import *
from contracts.functional_lib import make_registry, input_layer
from contracts.C02_rewrite import GuardedMap, ABSENT


class PairMap(GuardedMap):
    """keys are pairs of layer objects: matched component-wise by identity"""

    def _key(self, k):
        for kk in list(self.known) + [a for a, _ in self.written]:
            if kk is k or (isinstance(kk, tuple) and isinstance(k, tuple) and len(kk) == len(k) and all(x is y for x, y in zip(kk, k))):
                return kk
        return None


def _circ(vc, name, layers_inputs, scopes):
    c = Opaque(name)
    c.attrs["layer_inputs"] = lambda o: Builtin("layer_inputs", lambda l: list(layers_inputs.get(id(l), [])))
    c.attrs["layer_scope"] = lambda o: Builtin("layer_scope", lambda l: scopes[id(l)])
    return c


def _setup(vc, kind, multiplied):
    """kind: 'sum' (arities 2 x 2), 'product' (arity 2 x 2, same scope order), 'product_permuted', 'input'.  `multiplied`: which input pairs
    already have a block (list of booleans in next_to_multiply order)"""
    K1, K2, C = vc.int("K1", lo=1), vc.int("K2", lo=1), vc.int("C", lo=2)
    v0, v1 = vc.int("v0", lo=0), vc.int("v1", lo=0)
    vc.assume(v0 != v1)
    s0, s1, s01 = (vc.new(f"{SC}:Scope", vs) for vs in ([v0], [v1], [v0, v1]))
    mk = lambda n, K, s: input_layer(vc, "embedding", s, K, C)
    ins1, ins2, scopes = {}, {}, {}
    if kind == "input":
        l1, l2 = mk("a", K1, s0), mk("b", K2, vc.new(f"{SC}:Scope", [v0]))
        scopes[id(l1)], scopes[id(l2)] = s0, s0
        pairs = []
    else:
        a1, b1 = Opaque("in1_0"), Opaque("in1_1")
        a2, b2 = Opaque("in2_0"), Opaque("in2_1")
        if kind == "sum":
            l1, l2 = vc.new(f"{SL}:SumLayer", K1, vc.int("Ko1", lo=1), arity=2), vc.new(f"{SL}:SumLayer", K2, vc.int("Ko2", lo=1), arity=2)
            for x in (a1, b1, a2, b2):
                scopes[id(x)] = s01
            pairs = list(itertools.product([a1, b1], [a2, b2]))
        else:
            l1, l2 = vc.new(f"{SL}:HadamardLayer", K1, arity=2), vc.new(f"{SL}:HadamardLayer", K2, arity=2)
            scopes[id(a1)], scopes[id(b1)] = s0, s1
            if kind == "product":
                scopes[id(a2)], scopes[id(b2)] = vc.new(f"{SC}:Scope", [v0]), vc.new(f"{SC}:Scope", [v1])
            else:
                scopes[id(a2)], scopes[id(b2)] = vc.new(f"{SC}:Scope", [v1]), vc.new(f"{SC}:Scope", [v0])
            pairs = list(zip([a1, b1], [a2, b2]))
        scopes[id(l1)], scopes[id(l2)] = s01, s01
        ins1[id(l1)], ins2[id(l2)] = [a1, b1], [a2, b2]
    sc1, sc2 = _circ(vc, "sc1", ins1, scopes), _circ(vc, "sc2", ins2, scopes)
    known = {(l1, l2): ABSENT}
    blocks_of = []
    for p, m in zip(pairs, multiplied):
        b = Opaque(f"block_of_pair_{len(blocks_of)}") if m else ABSENT
        known[p] = b
        blocks_of.append(b)
    l2b = PairMap("layers_to_block", known)
    below = (Opaque("x"), Opaque("y"))
    l2b.known[below] = ABSENT
    stack = [below, (l1, l2)]
    loc = {"sc1": sc1, "sc2": sc2, "registry": make_registry(vc), "layers_to_block": l2b, "blocks": [], "in_blocks": GuardedMap("in_blocks", {}), "to_multiply": stack}
    return loc, (l1, l2), pairs, blocks_of, below


for _kind, _n in (("input", 0), ("sum", 4), ("product", 2)):
    for _mask in itertools.product((True, False), repeat=_n):
        def _h(vc, _kind=_kind, _mask=_mask):
            loc, pair, pairs, blocks_of, below = _setup(vc, _kind, _mask)
            vc.run_loop_body(f"{SF}:multiply", loc, None, loop=1)
            l2b, inb, stack, blocks = loc["layers_to_block"], loc["in_blocks"], loc["to_multiply"], loc["blocks"]
            vc.ensure("loop_state_not_rebound", isinstance(l2b, PairMap) and isinstance(inb, GuardedMap))
            if all(_mask):
                ok = len(l2b.written) == 1 and l2b._key(l2b.written[0][0]) is l2b._key(pair) and isinstance(l2b.written[0][1], Obj)
                vc.ensure("one_block_recorded_for_exactly_this_pair", ok)
                if not ok:
                    return
                blk = l2b.written[0][1]
                vc.ensure("block_appended", len(blocks) == 1 and blocks[0] is blk)
                good = len(inb.written) == 1 and inb.written[0][0] is blk and len(inb.written[0][1]) == len(pairs)
                vc.ensure("wired_to_the_blocks_of_the_input_pairs_in_order", good and all(g is b for g, b in zip(inb.written[0][1], blocks_of)))
                vc.ensure("pair_popped_and_nothing_pushed", len(stack) == 1 and stack[0] is below)
                lay = list(blk.fields["_nodes"])
                want = {"input": "EmbeddingLayer", "sum": "SumLayer", "product": "HadamardLayer"}[_kind]
                vc.ensure("block_is_the_one_the_rule_of_these_classes_builds", len(lay) >= 1 and lay[-1].cls.name == want)
            else:
                vc.ensure("nothing_built_while_inputs_are_missing", l2b.written == [] and inb.written == [] and blocks == [])
                missing = [p for p, m in zip(pairs, _mask) if not m]
                pushed = stack[2:]
                same = lambda p, q: p[0] is q[0] and p[1] is q[1]
                vc.ensure("pair_stays_below_what_is_pushed", len(stack) >= 3 and stack[0] is below and same(stack[1], pair))
                vc.ensure("every_missing_input_pair_is_pushed", all(any(same(p, q) for q in pushed) for p in missing))
                vc.ensure("only_input_pairs_of_this_pair_are_pushed", all(any(same(q, p) for p in pairs) for q in pushed))
        obligation(f"C04.multiply.step.{_kind}." + ("".join("m" if m else "x" for m in _mask) or "leaf"), "C04", [f"{SF}:multiply"])(_h)


@obligation("C04.multiply.step.already_multiplied", "C04", [f"{SF}:multiply"])
def _(vc):
    l1, l2, below = Opaque("l1"), Opaque("l2"), (Opaque("x"), Opaque("y"))
    l2b = PairMap("layers_to_block", {(l1, l2): Opaque("block"), below: ABSENT})
    stack = [below, (l1, l2)]
    loc = {"sc1": Opaque("sc1"), "sc2": Opaque("sc2"), "registry": Opaque("registry"), "layers_to_block": l2b, "blocks": [], "in_blocks": GuardedMap("in_blocks", {}), "to_multiply": stack}
    vc.run_loop_body(f"{SF}:multiply", loc, None, loop=1)
    vc.ensure("popped_and_nothing_else_changes", len(stack) == 1 and stack[0] is below and l2b.written == [] and loc["in_blocks"].written == [] and loc["blocks"] == [])


@obligation("C09.multiply.step.permuted_product_inputs_refused", "C09", [f"{SF}:multiply"])
def _(vc):
    loc, pair, pairs, blocks_of, below = _setup(vc, "product_permuted", (True, True))
    exc, _ = vc.raises(lambda: vc.run_loop_body(f"{SF}:multiply", loc, None, loop=1))
    vc.ensure("refused_before_anything_is_built", exc == "NotImplementedError" and loc["layers_to_block"].written == [] and loc["blocks"] == [])
