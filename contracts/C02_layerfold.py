"""C02 (folding of layers): the folder groups layers by (class, fold_settings, fold_settings of the sub-modules) and builds ONE
folded layer from `layers[0].config` and the stacked parameters (_fold_layers_group).  That is only meaning-preserving when

   (2-safety)  two layers of one class with equal fold_settings have equal configurations, parameters of the same names and shapes
               and (input layers) the same number of variables

for EVERY concrete layer class of the torch backend (taken from the class table of the tree on every run, so a new class or a new
override of `fold_settings` / `config` / `params` is picked up).  A fold_settings that forgets a hyper-parameter (log_space of a constant
layer, arity, number of states ...) makes the folder merge layers that compute different functions.

`self` is an object whose attributes are symbolic: the integer hyper-parameters read by the real `config` / `fold_settings` properties
are free integers, the parameters returned by the real `params` property have free shapes (rank 1..3), optional parameters (the
attributes compared with None in `params`) are present or absent independently in the two layers.  `config`, `params`, `fold_settings`
are the real properties of the class, executed on these objects.
"""
import ast

import z3

from engine.vc import obligation
from engine.values import Opaque, to_z3
from contracts.lib import *

LAYER_FILES = ["cirkit/backend/torch/layers/input.py", "cirkit/backend/torch/layers/inner.py", "cirkit/backend/torch/layers/optimized.py"]
LB = "cirkit/backend/torch/layers/base.py"


def _self_attrs(fi):
    return {n.attr for n in ast.walk(fi.node) if isinstance(n, ast.Attribute) and isinstance(n.value, ast.Name) and n.value.id == "self"}


def _none_tested(fi):
    out = set()
    for n in ast.walk(fi.node):
        if isinstance(n, ast.Compare) and isinstance(n.left, ast.Attribute) and isinstance(n.left.value, ast.Name) and n.left.value.id == "self" \
                and any(isinstance(c, ast.Constant) and c.value is None for c in n.comparators):
            out.add(n.left.attr)
    return out


def _concrete_layer_classes(repo):
    out = []
    for rel in LAYER_FILES:
        mi = repo.module_by_path(rel)
        for ci in mi.classes.values():
            abstract = any(isinstance(b, ast.Name) and b.id == "ABC" for b in ci.node.bases)
            if not abstract and ci.name.startswith("Torch") and ci.name.endswith("Layer") and ci.name != "TorchInputFunctionLayer":
                ms = [repo.find_method(ci, m) for m in ("config", "params", "fold_settings")]
                out.append((rel, ci.name, sorted({m.qualname for m in ms if m is not None})))
    return out


def _mk_self(vc, ci, tag, methods):
    cfg, prm, fs = methods
    param_attrs = _self_attrs(prm) - {"params"}
    optional = _none_tested(prm)
    int_attrs = (_self_attrs(cfg) | _self_attrs(fs)) - {"config", "params", "fold_settings"} - param_attrs
    o = Opaque(f"layer{tag}", cls=ci)
    vals = {}
    for a in sorted(int_attrs):
        vals[a] = vc.int(f"{tag}_{a}")
    shapes = {}
    for a in sorted(param_attrs):
        if a in optional and not vc.I.decide(vc.bool(f"{tag}_has_{a}")):
            vals[a] = None
            continue
        rank = 1 if vc.I.decide(vc.bool(f"{tag}_{a}_rank1")) else (2 if vc.I.decide(vc.bool(f"{tag}_{a}_rank2")) else 3)
        shape = tuple(vc.int(f"{tag}_{a}_dim{j}", lo=0) for j in range(rank))
        p = Opaque(f"{tag}_{a}")
        p.attrs["shape"] = (lambda s: lambda _o: s)(shape)
        vals[a] = p
        shapes[a] = shape
    for a, v in vals.items():
        o.attrs[a] = (lambda v: lambda _o: v)(v)
    from engine.values import FuncVal
    run = lambda fi: vc.I.call_func(FuncVal(fi), [o], {})
    config = run(cfg)
    exc, params = vc.raises(lambda: run(prm))
    if exc is not None:                       # the class invariant (e.g. exactly one of logits / probs) excludes this combination
        vc.ensure("params_refuses_only_with_an_assertion", exc == "AssertionError")
        vc.assume(False)
    o.attrs["config"] = lambda _o: config
    o.attrs["params"] = lambda _o: params
    return o, config, params, vals, run(fs)


def _register(rel, name, quals):
    def _h(vc):
        ci = vc.repo.lookup(f"{rel}:{name}")
        methods = tuple(vc.repo.find_method(ci, m) for m in ("config", "params", "fold_settings"))
        vc.ensure("class_defines_config_params_fold_settings", all(m is not None for m in methods))
        if not all(m is not None for m in methods):
            return
        for m in methods:
            vc.repo.touch(m)
        a, ca, pa, va, fa = _mk_self(vc, ci, "a", methods)
        b, cb, pb, vb, fb = _mk_self(vc, ci, "b", methods)
        vc.assume(vc.eq(fa, fb))
        vc.ensure("equal_fold_settings_imply_same_config_keys", list(ca.keys()) == list(cb.keys()))
        for k in ca:
            if k in cb:
                x, y = ca[k], cb[k]
                vc.ensure(f"equal_fold_settings_imply_equal_config.{k}", (x is None and y is None) if (x is None or y is None) else vc.eq(x, y))
        vc.ensure("equal_fold_settings_imply_same_parameter_names", list(pa.keys()) == list(pb.keys()))
        for k in pa:
            if k in pb:
                sa, sb = vc.attr(pa[k], "shape"), vc.attr(pb[k], "shape")
                vc.ensure(f"equal_fold_settings_imply_equal_parameter_shape.{k}", len(sa) == len(sb) and vc.eq(tuple(sa), tuple(sb)))
        if vc.repo.is_subclass(ci, vc.repo.lookup("cirkit/backend/torch/layers/input.py:TorchInputLayer")) and \
                not vc.repo.is_subclass(ci, vc.repo.lookup("cirkit/backend/torch/layers/input.py:TorchConstantLayer")):
            # scope_idx tensors of shape (F, D) are concatenated along the fold axis: D must agree
            vc.ensure("equal_fold_settings_imply_equal_number_of_variables", "num_variables" in va and vc.eq(va["num_variables"], vb["num_variables"]))
    obligation(f"C02.fold_settings.layer.{name}", "C02", quals)(_h)


def _classes_now():
    """the class list is read from the tree when the module is imported (every run)"""
    from engine.repo import Repo
    return _concrete_layer_classes(Repo())


for _rel, _name, _quals in _classes_now():
    _register(_rel, _name, _quals)


# ------------------------------------------------------------------------------------------------ _fold_layers_group
TC = "cirkit/backend/torch/compiler.py"
LP = "cirkit/backend/torch/layers/input.py"
LIN = "cirkit/backend/torch/layers/inner.py"

_GROUPS = {
    "input": (LP, "TorchCategoricalLayer", {"num_output_units": "K", "num_categories": "C"}, ["logits"], False),
    "gaussian": (LP, "TorchGaussianLayer", {"num_output_units": "K"}, ["mean", "stddev", "log_partition"], False),
    "constant": (LP, "TorchConstantValueLayer", {"num_output_units": "K", "log_space": "L"}, ["value"], False),
    "evidence": (LP, "TorchEvidenceLayer", {}, ["observation"], True),
    "sum": (LIN, "TorchSumLayer", {"num_input_units": "Ki", "num_output_units": "K", "arity": "H"}, ["weight"], False),
    "hadamard": (LIN, "TorchHadamardLayer", {"num_input_units": "Ki", "arity": "H"}, [], False),
}

for _g, (_rel, _cls, _cfg, _pnames, _sub) in _GROUPS.items():
    for _n in (1, 2, 3):
        def _h(vc, _rel=_rel, _cls=_cls, _cfg=_cfg, _pnames=_pnames, _sub=_sub, _n=_n, _g=_g):
            ci = vc.repo.lookup(f"{_rel}:{_cls}")
            cfgvals = {k: vc.int(v) for k, v in _cfg.items()}
            layers, folds, scopes, subs = [], [], [], []
            for j in range(_n):
                l = Opaque(f"layer{j}", cls=ci)
                F = vc.int(f"F{j}", lo=1)
                folds.append(F)
                params = {n: Opaque(f"layer{j}.{n}") for n in _pnames}
                sidx = Opaque(f"layer{j}.scope_idx")
                scopes.append(sidx)
                sm = {}
                if _sub:
                    w = Opaque(f"layer{j}.wrapped", cls=vc.repo.lookup(f"{LP}:TorchCategoricalLayer"))
                    wp = {"logits": Opaque(f"layer{j}.wrapped.logits")}
                    ws = Opaque(f"layer{j}.wrapped.scope_idx")
                    w.attrs.update(config=lambda _o: dict(num_output_units=cfgvals.get("K", 1), num_categories=2), params=(lambda wp: lambda _o: wp)(wp),
                                   sub_modules=lambda _o: {}, scope_idx=(lambda ws: lambda _o: ws)(ws), num_folds=(lambda F: lambda _o: F)(F))
                    sm = {"layer": w}
                    subs.append((w, wp, ws))
                l.attrs.update(config=lambda _o: dict(cfgvals), params=(lambda p: lambda _o: p)(params), sub_modules=(lambda s: lambda _o: s)(sm),
                               scope_idx=(lambda s: lambda _o: s)(sidx), num_folds=(lambda F: lambda _o: F)(F))
                layers.append(l)
            compiler = Opaque("compiler")
            sr = Opaque("semiring")
            compiler.attrs["semiring"] = lambda _o: sr
            folded_params, built = [], []

            def fold_parameters(I, a, k):
                p = Opaque(f"folded_param{len(folded_params)}")
                folded_params.append((p, a[0], list(a[1])))
                return p

            def cat(I, a, k):
                t = Opaque("cat")
                t.parts = list(a[0])
                return t

            def ctor(I, a, k):
                o = Opaque(f"folded_layer{len(built)}")
                built.append((o, list(a), dict(k)))
                return o
            vc.I.summaries[f"{TC}:_fold_parameters"] = fold_parameters
            vc.I.externals["torch.cat"] = cat
            vc.I.summaries[f"{_rel}:{_cls}"] = ctor
            if _sub:
                vc.I.summaries[f"{LP}:TorchCategoricalLayer"] = ctor
            out = vc.call(f"{TC}:_fold_layers_group", list(layers), compiler=compiler)
            top = [b for b in built if b[0] is out]
            vc.ensure("returns_one_layer_built_by_the_class_of_the_group", len(top) == 1 and len(built) == (2 if _sub else 1))
            if len(top) != 1:
                return
            _, args, kw = top[0]
            vc.ensure("no_positional_arguments", args == [])
            vc.ensure("semiring_is_the_compilers", kw.get("semiring") is sr)
            for k, v in cfgvals.items():
                vc.ensure(f"config.{k}_is_the_groups", k in kw and vc.eq(kw[k], v))
            is_input = _rel == LP
            if is_input and _cls not in ("TorchConstantValueLayer", "TorchEvidenceLayer"):
                t = kw.get("scope_idx")
                vc.ensure("scope_idx_is_the_concatenation_in_group_order", getattr(t, "parts", None) is not None and len(t.parts) == _n and all(a is b for a, b in zip(t.parts, scopes)))
            if is_input:
                vc.ensure("input_layers_get_no_num_folds", "num_folds" not in kw)
            else:
                total = folds[0]
                for F in folds[1:]:
                    total = total + F
                vc.ensure("num_folds_is_the_sum_of_the_groups_folds", "num_folds" in kw and vc.eq(kw["num_folds"], total))
            for n in _pnames:
                fp = [f for f in folded_params if kw.get(n) is f[0]]
                ok = len(fp) == 1 and fp[0][1] is compiler and len(fp[0][2]) == _n and all(p is vc.attr(l, "params")[n] for p, l in zip(fp[0][2], layers))
                vc.ensure(f"param.{n}_folds_the_groups_parameters_in_group_order", ok)
            if _sub:
                inner = [b for b in built if b[0] is kw.get("layer")]
                ok = len(inner) == 1
                vc.ensure("wrapped_layers_are_folded_into_one_sub_layer", ok)
                if ok:
                    _, _, ikw = inner[0]
                    t = ikw.get("scope_idx")
                    vc.ensure("wrapped.scope_idx_in_group_order", getattr(t, "parts", None) is not None and all(a is s[2] for a, s in zip(t.parts, subs)) and len(t.parts) == _n)
                    fp = [f for f in folded_params if ikw.get("logits") is f[0]]
                    vc.ensure("wrapped.param_in_group_order", len(fp) == 1 and len(fp[0][2]) == _n and all(p is s[1]["logits"] for p, s in zip(fp[0][2], subs)))
            expect = len(_pnames) + (1 if _sub else 0)
            vc.ensure("nothing_else_is_folded", len(folded_params) == expect)
        obligation(f"C02.fold_layers_group.{_g}.n{_n}", "C02", [f"{TC}:_fold_layers_group"])(_h)


# ------------------------------------------------------------------------------------------------ a folded layer is rebuilt from `config`
from contracts.C01_kernels import semiring as _semiring, param as _param, scope_idx as _scope_idx
from engine.values import is_z3 as _isz3, Obj as _Obj
LO = "cirkit/backend/torch/layers/optimized.py"


def _recipes(vc):
    F = vc.int("F", lo=1)
    K, Ko, C, H = vc.int("K", lo=1), vc.int("Ko", lo=1), vc.int("C", lo=2), vc.int("H", lo=2)
    sr = _semiring(vc)
    P = lambda n, shape: _param(vc, n, F, shape)[0]
    yield "TorchEmbeddingLayer", LP, lambda: vc.new(f"{LP}:TorchEmbeddingLayer", _scope_idx(vc, F), K, num_states=C, weight=P("weight", (K, C)), semiring=sr)
    yield "TorchCategoricalLayer", LP, lambda: vc.new(f"{LP}:TorchCategoricalLayer", _scope_idx(vc, F), K, num_categories=C, logits=P("logits", (K, C)), semiring=sr)
    yield "TorchBinomialLayer", LP, lambda: vc.new(f"{LP}:TorchBinomialLayer", _scope_idx(vc, F), K, total_count=C, probs=P("probs", (K,)), semiring=sr)
    yield "TorchGaussianLayer", LP, lambda: vc.new(f"{LP}:TorchGaussianLayer", _scope_idx(vc, F), K, mean=P("mean", (K,)), stddev=P("stddev", (K,)), semiring=sr)
    yield "TorchPolynomialLayer", LP, lambda: vc.new(f"{LP}:TorchPolynomialLayer", _scope_idx(vc, F), K, degree=C, coeff=P("coeff", (K, C + 1)), semiring=sr)
    for ls in (False, True):
        yield f"TorchConstantValueLayer.log_space_{ls}", LP, (lambda ls=ls: vc.new(f"{LP}:TorchConstantValueLayer", K, log_space=ls, value=P("value", (K,)), semiring=sr))
    yield "TorchSumLayer", LIN, lambda: vc.new(f"{LIN}:TorchSumLayer", K, Ko, arity=H, weight=P("weight", (Ko, K * H)), semiring=sr, num_folds=F)
    yield "TorchHadamardLayer", LIN, lambda: vc.new(f"{LIN}:TorchHadamardLayer", K, arity=H, semiring=sr, num_folds=F)
    yield "TorchKroneckerLayer", LIN, lambda: vc.new(f"{LIN}:TorchKroneckerLayer", K, arity=2, semiring=sr, num_folds=F)
    yield "TorchCPTLayer", LO, lambda: vc.new(f"{LO}:TorchCPTLayer", K, Ko, H, weight=P("weight", (Ko, K)), semiring=sr, num_folds=F)
    yield "TorchTuckerLayer", LO, lambda: vc.new(f"{LO}:TorchTuckerLayer", K, Ko, 2, weight=P("weight", (Ko, K * K)), semiring=sr, num_folds=F)


_NAMES = ["TorchEmbeddingLayer", "TorchCategoricalLayer", "TorchBinomialLayer", "TorchGaussianLayer", "TorchPolynomialLayer", "TorchConstantValueLayer.log_space_False",
          "TorchConstantValueLayer.log_space_True", "TorchSumLayer", "TorchHadamardLayer", "TorchKroneckerLayer", "TorchCPTLayer", "TorchTuckerLayer"]

for _name in _NAMES:
    def _h(vc, _name=_name):
        """_fold_layers_group on a group of ONE layer (cls(**config, **params, semiring=..., scope_idx | num_folds)): the rebuilt layer must
        hold every scalar hyper-parameter of the original (a hyper-parameter missing from `config` silently falls back to the constructor default)"""
        (rel, mk), = [(r, m) for n, r, m in _recipes(vc) if n == _name]
        layer = mk()
        compiler = Opaque("compiler", {"semiring": layer.fields.get("semiring")})
        vc.I.summaries[f"{TC}:_fold_parameters"] = lambda I, a, k: list(a[1])[0]          # a group of one: the parameter itself
        rebuilt = vc.call(f"{TC}:_fold_layers_group", [layer], compiler=compiler)
        ok = isinstance(rebuilt, _Obj) and rebuilt.cls is layer.cls
        vc.ensure("rebuilt_layer_of_the_same_class", ok)
        if not ok:
            return
        for fname, fval in layer.fields.items():
            if isinstance(fval, (bool, int)) or _isz3(fval):
                vc.ensure(f"same_attribute.{fname}", fname in rebuilt.fields and vc.eq(rebuilt.fields[fname], fval))
    obligation(f"C02.rebuild_from_config.layer.{_name}", "C02", [f"{TC}:_fold_layers_group"])(_h)
