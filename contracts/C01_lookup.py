"""C01 (evaluation of a compiled circuit): LayerAddressBook.lookup gathers the inputs of each (folded) layer, TorchDiAcyclicGraph.evaluate runs
the layers in address-book order.  lookup is a generator that reads the list of outputs produced SO FAR; it is verified by the loop rule: ONE
iteration of its `for entry in self` loop, for an arbitrary list of earlier outputs.

  inner layer, inputs from one folded layer      x[f, h] = outputs[m][ idx[f, h] ]                      (idx: the entry's (F, H) index tensor)
  inner layer, inputs from two folded layers     x[f, h] = cat(outputs[m0], outputs[m1])[ idx[f, h] ]   (the decode proved in C01.address_book.*)
  shortcuts                                      (None,) = all stacked folds as the H inputs of one fold; (slice, None) = fold f reads fold f
  input layer                                    x[f, b, d'] = in_graph[b, scope_idx[f, d']]; no argument without an input batch;
                                                 constant layers get the batch size (1 without an input batch)
Together with the entry contracts (what idx holds) this gives: every layer receives the outputs of its own inputs, in order, per fold.
"""
import z3

from engine.vc import obligation
from engine.values import Opaque, Obj, to_z3, IntTensorConst
from engine.tensor import MR, Tensor
from contracts.C01_kernels import shape_is

CI = "cirkit/backend/torch/circuits.py"
GM = "cirkit/backend/torch/graph/modules.py"
LP = "cirkit/backend/torch/layers/input.py"
LI = "cirkit/backend/torch/layers/inner.py"


def _entry(vc, module, ids, idx):
    return vc.new(f"{GM}:AddressBookEntry", module, ids, idx)


def _step(vc, entry, outputs, in_graph):
    loc = {"self": Opaque("address_book"), "module_outputs": outputs, "in_graph": in_graph}
    vc.run_loop_body(f"{CI}:LayerAddressBook.lookup", loc, entry)
    return list(vc.last_yields)


for _nmods in (1, 2):
    def _h(vc, _nmods=_nmods):
        F, H, B, K = (vc.int(n, lo=1) for n in ("F", "H", "B", "K"))
        Fs = [vc.int(f"F{j}", lo=1) for j in range(_nmods)]
        outs = [vc.tensor("earlier_output0", (vc.int("Fx", lo=1), B, K))] + [vc.tensor(f"out{j}", (Fs[j], B, K)) for j in range(_nmods)] + [vc.tensor("later", (1, B, K))]
        ids = [1 + j for j in range(_nmods)]
        total = Fs[0] if _nmods == 1 else Fs[0] + Fs[1]
        idx = vc.tensor("idx", (F, H), "long")
        a, b = z3.Int("a_rng"), z3.Int("b_rng")
        vc.assume(z3.ForAll([a, b], z3.And(idx.elem([a, b]) >= 0, idx.elem([a, b]) < total)))
        layer = Opaque("layer", cls=vc.repo.lookup(f"{LI}:TorchSumLayer"))
        ys = _step(vc, _entry(vc, layer, [ids], [idx]), outs, vc.tensor("in_graph", (B, vc.int("D", lo=1))))
        ok = len(ys) == 1 and isinstance(ys[0], tuple) and len(ys[0]) == 2 and ys[0][0] is layer and isinstance(ys[0][1], tuple) and len(ys[0][1]) == 1
        vc.ensure("yields_the_layer_with_one_stacked_input", ok)
        if not ok:
            return
        x = ys[0][1][0]
        if not shape_is(vc, x, [F, H, B, K]):
            return
        f, h, bb, k = vc.index_consts([F, H, B, K])
        i = idx.elem([f, h])
        if _nmods == 1:
            want = outs[1].elem([i, bb, k])
        else:
            want = z3.If(i < Fs[0], outs[1].elem([i, bb, k]), outs[2].elem([i - Fs[0], bb, k]))
        vc.ensure("input_h_of_fold_f_is_the_indexed_fold_of_the_stacked_outputs", x.elem([f, h, bb, k]) == want)
    obligation(f"C01.lookup.step.inner_layer.from{_nmods}", "C01", [f"{CI}:LayerAddressBook.lookup"])(_h)


for _short in ("row", "column"):
    def _h(vc, _short=_short):
        S, B, K = (vc.int(n, lo=1) for n in ("S", "B", "K"))
        out = vc.tensor("out", (S, B, K))
        layer = Opaque("layer", cls=vc.repo.lookup(f"{LI}:TorchSumLayer"))
        idx = (None,) if _short == "row" else (slice(None), None)
        ys = _step(vc, _entry(vc, layer, [[0]], [idx]), [out], None)
        ok = len(ys) == 1 and ys[0][0] is layer and len(ys[0][1]) == 1
        vc.ensure("yields_the_layer_with_one_stacked_input", ok)
        if not ok:
            return
        x = ys[0][1][0]
        want_shape = [1, S, B, K] if _short == "row" else [S, 1, B, K]
        if not shape_is(vc, x, want_shape):
            return
        s, bb, k = vc.index_consts([S, B, K])
        vc.ensure("shortcut_denotes_the_identity_index_matrix", x.elem([0, s, bb, k] if _short == "row" else [s, 0, bb, k]) == out.elem([s, bb, k]))
    obligation(f"C01.lookup.step.inner_layer.shortcut_{_short}", "C01", [f"{CI}:LayerAddressBook.lookup"])(_h)


for _case in ("with_batch", "without_batch", "constant_with_batch", "constant_without_batch", "bad_batch_rank"):
    def _h(vc, _case=_case):
        F, B, D, Dp = (vc.int(n, lo=1) for n in ("F", "B", "D", "Dp"))
        const = _case.startswith("constant")
        sidx = vc.tensor("scope_idx", (F, Dp), "long")
        a, b = z3.Int("a_rng"), z3.Int("b_rng")
        vc.assume(z3.ForAll([a, b], z3.And(sidx.elem([a, b]) >= 0, sidx.elem([a, b]) < D)))
        layer = Opaque("layer", {"num_variables": 0 if const else Dp, "scope_idx": sidx},
                       cls=vc.repo.lookup(f"{LP}:TorchConstantValueLayer" if const else f"{LP}:TorchCategoricalLayer"))
        if _case.endswith("without_batch"):
            g = None
        elif _case == "bad_batch_rank":
            g = vc.tensor("in_graph", (B, D, 2))
        else:
            g = vc.tensor("in_graph", (B, D))
        exc, ys = vc.raises(lambda: _step(vc, _entry(vc, layer, [], []), [], g))
        if _case == "bad_batch_rank":
            vc.ensure("input_batch_of_wrong_rank_refused", exc == "ValueError")
            return
        ok = exc is None and len(ys) == 1 and ys[0][0] is layer
        vc.ensure("yields_the_layer", ok)
        if not ok:
            return
        args = ys[0][1]
        if const:
            vc.ensure("constant_layers_get_the_batch_size", len(args) == 1 and vc.must(to_z3(args[0]) == (B if g is not None else 1)))
        elif g is None:
            vc.ensure("no_argument_without_an_input_batch", args == ())
        else:
            good = len(args) == 1 and shape_is(vc, args[0], [F, B, Dp])
            if good:
                f, bb, d = vc.index_consts([F, B, Dp])
                vc.ensure("fold_f_reads_the_columns_of_its_own_variables", args[0].elem([f, bb, d]) == g.elem([bb, sidx.elem([f, d])]))
    obligation(f"C01.lookup.step.input_layer.{_case}", "C01", [f"{CI}:LayerAddressBook.lookup"])(_h)


# ------------------------------------------------------------------------------------------------ evaluate
from engine.values import Builtin

for _n in (1, 2, 3):
    for _fn in (False, True):
        def _h(vc, _n=_n, _fn=_fn):
            """TorchDiAcyclicGraph.evaluate: every entry's module is applied (through module_fn when given) to the inputs the address book hands out
            for it - which are computed from the outputs appended so far - exactly once and in entry order; the inputs of the final, module-less
            entry are returned.  The address book is a lazy stub that records what it saw when each entry was requested."""
            mods = [Opaque(f"module{i}") for i in range(_n)]
            seen_lengths, calls = [], []
            handed = [(Opaque(f"inputs_of_module{i}"),) for i in range(_n)]
            final = Opaque("stacked_outputs")
            state = {}

            class Lazy:
                def __init__(self, outputs):
                    self.outputs, self.i = outputs, 0

                def __vf_next__(self, I):
                    seen_lengths.append(len(self.outputs))
                    state["outputs"] = self.outputs
                    i = self.i
                    self.i += 1
                    if i < _n:
                        return True, (mods[i], handed[i])
                    if i == _n:
                        return True, (None, (final,))
                    return False, None
            book = Opaque("address_book")
            x = Opaque("x")
            got_in = {}
            book.attrs["lookup"] = lambda o: Builtin("lookup", lambda outs, in_graph=None: got_in.update(g=in_graph) or Lazy(outs))
            results = [Opaque(f"output{i}") for i in range(_n)]
            for i, m in enumerate(mods):
                m.__dict__["__vf_call__"] = (lambda i: lambda *a: calls.append(("direct", i, a)) or results[i])(i)
            fn = Builtin("module_fn", lambda m, *a: calls.append(("fn", mods.index(m), a)) or results[mods.index(m)])
            g = Opaque("graph", {"_address_book": book})
            out = vc.call("cirkit/backend/torch/graph/modules.py:TorchDiAcyclicGraph.evaluate", g, x, **({"module_fn": fn} if _fn else {}))
            vc.ensure("address_book_consulted_with_the_input_batch", got_in.get("g") is x)
            vc.ensure("each_module_applied_once_in_entry_order_to_its_own_inputs", len(calls) == _n and all(
                c[0] == ("fn" if _fn else "direct") and c[1] == i and len(c[2]) == 1 and c[2][0] is handed[i][0] for i, c in enumerate(calls)))
            vc.ensure("entry_i_is_requested_after_exactly_i_outputs_were_appended", seen_lengths[:_n + 1] == list(range(_n + 1)))
            vc.ensure("outputs_appended_in_order", list(state.get("outputs", [])) == results or all(a is b for a, b in zip(state.get("outputs", []), results)) and len(state.get("outputs", [])) == _n)
            vc.ensure("returns_the_inputs_of_the_final_entry", out is final)
        obligation(f"C01.evaluate.entries{_n}.{'module_fn' if _fn else 'direct'}", "C01", ["cirkit/backend/torch/graph/modules.py:TorchDiAcyclicGraph.evaluate"])(_h)


# ------------------------------------------------------------------------------------------------ parameter graphs (C14: composition of nodes)
PP = "cirkit/backend/torch/parameters/parameter.py"

for _ops in ((1,), (2,), (1, 1), (2, 1)):
    for _ident in (False, True):
        def _h(vc, _ops=_ops, _ident=_ident):
            """ParameterAddressBook.lookup, one entry: operand h of a (folded) node is cat(outputs of in_module_ids[h])[in_fold_idx[h]]; `()` takes the
            tensor as it is.  One operand per input of the node, in order; outputs of earlier nodes only."""
            F, A, Bd = (vc.int(n, lo=1) for n in ("F", "A", "B"))
            outs, ids, idxs, want = [vc.tensor("unrelated_earlier_output", (vc.int("Fu", lo=1), A, Bd))], [], [], []
            for h, nm in enumerate(_ops):
                Fs = [vc.int(f"F{h}_{j}", lo=1) for j in range(nm)]
                ts = [vc.tensor(f"out{h}_{j}", (Fs[j], A, Bd)) for j in range(nm)]
                ids.append([len(outs) + j for j in range(nm)])
                outs.extend(ts)
                total = Fs[0] if nm == 1 else Fs[0] + Fs[1]
                if _ident and h == 0:
                    idxs.append(())
                    want.append((ts, Fs, None, total))
                else:
                    ix = vc.tensor(f"idx{h}", (F,), "long")
                    a = z3.Int(f"a_rng{h}")
                    vc.assume(z3.ForAll([a], z3.And(ix.elem([a]) >= 0, ix.elem([a]) < total)))
                    idxs.append(ix)
                    want.append((ts, Fs, ix, total))
            node = Opaque("node")
            loc = {"self": Opaque("address_book"), "module_outputs": outs, "in_graph": None}
            entry = vc.new(f"{GM}:AddressBookEntry", node, ids, idxs)
            # the helper closure _select_index is defined before the loop: run the prefix first
            vc.run_prefix(f"{PP}:ParameterAddressBook.lookup", loc)
            vc.run_loop_body(f"{PP}:ParameterAddressBook.lookup", loc, entry)
            ys = list(vc.last_yields)
            ok = len(ys) == 1 and ys[0][0] is node and isinstance(ys[0][1], tuple) and len(ys[0][1]) == len(_ops)
            vc.ensure("yields_the_node_with_one_operand_per_input", ok)
            if not ok:
                return
            for h, (x, (ts, Fs, ix, total)) in enumerate(zip(ys[0][1], want)):
                nf = total if ix is None else F
                if not shape_is(vc, x, [nf, A, Bd], f"operand{h}.shape"):
                    continue
                f, a, b = vc.index_consts([nf, A, Bd], f"o{h}")
                i = f if ix is None else ix.elem([f])
                src = ts[0].elem([i, a, b]) if len(ts) == 1 else z3.If(i < Fs[0], ts[0].elem([i, a, b]), ts[1].elem([i - Fs[0], a, b]))
                vc.ensure(f"operand{h}.fold_f_is_the_indexed_fold_of_the_stacked_outputs_of_its_own_input_nodes", x.elem([f, a, b]) == src)
        obligation(f"C14.lookup.step.operands{'_'.join(map(str, _ops))}.{'identity' if _ident else 'indexed'}", "C14", [f"{PP}:ParameterAddressBook.lookup"])(_h)


@obligation("C14.lookup.step.leaf_node", "C14", [f"{PP}:ParameterAddressBook.lookup"])
def _(vc):
    node = Opaque("leaf")
    loc = {"self": Opaque("address_book"), "module_outputs": [], "in_graph": None}
    vc.run_prefix(f"{PP}:ParameterAddressBook.lookup", loc)
    vc.run_loop_body(f"{PP}:ParameterAddressBook.lookup", loc, vc.new(f"{GM}:AddressBookEntry", node, [], []))
    ys = list(vc.last_yields)
    vc.ensure("nodes_without_inputs_get_no_operand", len(ys) == 1 and ys[0][0] is node and ys[0][1] == ())


# ------------------------------------------------------------------------------------------------ the address book as a container
for _n in (1, 2, 3):
    def _h(vc, _n=_n):
        """AddressBook.__init__ / __iter__ / __len__ / num_outputs: iterating the book yields, in order, entries with exactly the module, the input
        module ids and the index objects it was built from (index tensors are stored as buffers, shortcuts as plain attributes)"""
        mods = [Opaque(f"m{i}") for i in range(_n)]
        F = vc.int("F", lo=1)
        entries, idxs = [], []
        for i, m in enumerate(mods):
            if i == 0:
                ids, ix = [], []
            elif i == 1:
                ids, ix = [[0]], [vc.tensor("idx1", (F, 2), "long")]
            else:
                ids, ix = [[0, 1]], [(None,)]
            idxs.append(ix)
            entries.append(vc.new(f"{GM}:AddressBookEntry", m, ids, ix))
        No = vc.int("num_outputs", lo=1)
        out_idx = vc.tensor("out_idx", (No,), "long")
        entries.append(vc.new(f"{GM}:AddressBookEntry", None, [[_n - 1]], [out_idx]))
        book = vc.new(f"{CI}:LayerAddressBook", list(entries))
        got = list(vc.I.B.iterate(vc.I, book))
        vc.ensure("one_entry_per_given_entry", len(got) == _n + 1 and vc.must(to_z3(vc.call((book, "__len__"))) == _n + 1))
        if len(got) != _n + 1:
            return
        for i, (g, e) in enumerate(zip(got, entries)):
            vc.ensure(f"entry{i}.same_module", g.fields["module"] is e.fields["module"])
            vc.ensure(f"entry{i}.same_input_module_ids", [list(x) for x in g.fields["in_module_ids"]] == [list(x) for x in e.fields["in_module_ids"]])
            gi, ei = list(g.fields["in_fold_idx"]), list(e.fields["in_fold_idx"])
            same = lambda a, b: (a is b) or (isinstance(a, (tuple, list)) and isinstance(b, (tuple, list)) and len(a) == len(b) and all(same(x, y) for x, y in zip(a, b))) or \
                (isinstance(a, slice) and isinstance(b, slice) and (a.start, a.stop, a.step) == (b.start, b.stop, b.step))
            if not (len(gi) == len(ei) and all(same(a, b) for a, b in zip(gi, ei))):
                print("DEBUG", i, gi, ei)
            vc.ensure(f"entry{i}.same_index_objects", len(gi) == len(ei) and all(same(a, b) for a, b in zip(gi, ei)))
        vc.ensure("number_of_outputs_is_the_length_of_the_output_index", vc.must(to_z3(vc.attr(book, "num_outputs")) == No))
    obligation(f"C01.address_book.container.entries{_n}", "C01", [f"{GM}:AddressBook.__init__", f"{GM}:AddressBook.__iter__"])(_h)


@obligation("C01.address_book.container.refusals", "C01", [f"{GM}:AddressBook.__init__"])
def _(vc):
    exc, _ = vc.raises(lambda: vc.new(f"{CI}:LayerAddressBook", []))
    vc.ensure("empty_book_refused", exc == "ValueError")
    e = vc.new(f"{GM}:AddressBookEntry", Opaque("m"), [], [])
    exc, _ = vc.raises(lambda: vc.new(f"{CI}:LayerAddressBook", [e]))
    vc.ensure("last_entry_must_be_the_output_entry", exc == "ValueError")
