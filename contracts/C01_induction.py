"""C01 (L1, wiring of compilation for circuits / parameter graphs of ARBITRARY shape): loop-rule obligations on the real statements of
TorchCompiler._compile_circuit and TorchCompiler.compile_parameter.

  (step)    from an arbitrary state of the symbolic -> compiled map in which the inputs of the current layer / node are present (topological
            order), ONE iteration compiles exactly this layer / node once, wires the result to the compiled images of its inputs IN ORDER, records
            the image, and touches nothing else; arity 0..3
  (suffix)  the compiled graph is built from ALL compiled layers / nodes, the wires, and the images of the declared outputs in declared order
            (same scope and properties for circuits); a circuit is then post-processed, its parameters are (re-)initialised, it is registered for the
            symbolic circuit, and the per-circuit compiler state is cleared - in this order, each once
The induction principle (prefix: empty maps; step*; suffix) is the standard one and is assumed.
"""
import z3

from engine.vc import obligation
from engine.values import Opaque, Builtin, Obj
from engine.stubs import LoopMap, RefVal, ref_term

TC = "cirkit/backend/torch/compiler.py"
CI = "cirkit/backend/torch/circuits.py"
PP = "cirkit/backend/torch/parameters/parameter.py"


def _compiler(vc, calls, kind):
    comp = Opaque("compiler", cls=vc.repo.lookup(f"{TC}:TorchCompiler"))
    name = "compile_layer" if kind == "circuit" else "_compile_parameter_node"
    comp.attrs[name] = lambda o: Builtin(name, lambda x: calls.append(x) or Opaque(f"compiled_{len(calls)}"))
    return comp


for _kind in ("circuit", "parameter"):
    for _ar in (0, 1, 2, 3):
        def _h(vc, _kind=_kind, _ar=_ar):
            calls = []
            comp = _compiler(vc, calls, _kind)
            cur = Opaque("current")
            ins = [vc.opaque(f"in{j}") for j in range(_ar)]
            graph = Opaque("symbolic_graph")
            graph.attrs["layer_inputs" if _kind == "circuit" else "node_inputs"] = lambda o: Builtin("inputs", lambda n: list(ins) if n is cur else [])
            cmap = LoopMap("compiled_map")
            for i in ins:
                vc.assume(z3.Select(cmap.base.dom, i.const))
            wires = LoopMap("wires")
            if _kind == "circuit":
                loc = {"self": comp, "sc": graph, "compiled_layers_map": cmap, "in_layers": wires}
                vc.run_loop_body(f"{TC}:TorchCompiler._compile_circuit", loc, cur)
            else:
                nodes = []
                loc = {"self": comp, "parameter": graph, "compiled_nodes_map": cmap, "in_nodes": wires, "nodes": nodes}
                vc.run_loop_body(f"{TC}:TorchCompiler.compile_parameter", loc, cur)
            vc.ensure("this_layer_or_node_compiled_exactly_once", len(calls) == 1 and calls[0] is cur)
            ok = len(cmap.written) == 1 and cmap.written[0][0] is cur and isinstance(cmap.written[0][1], Opaque)
            vc.ensure("its_image_recorded_and_nothing_else", ok)
            if not ok:
                return
            img = cmap.written[0][1]
            good = len(wires.written) == 1 and wires.written[0][0] is img and len(wires.written[0][1]) == _ar
            vc.ensure("one_wire_entry_for_the_image", good)
            if good:
                for j, (got, i) in enumerate(zip(wires.written[0][1], ins)):
                    vc.ensure(f"input{j}_is_the_image_of_input{j}", isinstance(got, RefVal) and vc.must(ref_term(got) == z3.Select(cmap.base.val, i.const)))
            if _kind == "parameter":
                vc.ensure("image_appended_to_the_node_list", len(loc["nodes"]) == 1 and loc["nodes"][0] is img)
            vc.ensure("loop_state_not_rebound", loc["compiled_layers_map" if _kind == "circuit" else "compiled_nodes_map"] is cmap)
        obligation(f"C01.compile.step.{_kind}.arity{_ar}", "C01", [f"{TC}:TorchCompiler._compile_circuit" if _kind == "circuit" else f"{TC}:TorchCompiler.compile_parameter"])(_h)


for _n, _outs in ((1, (0,)), (3, (2,)), (3, (2, 0)), (3, (1, 2, 1))):
    def _h(vc, _n=_n, _outs=_outs):
        events = []
        syms = [Opaque(f"sym{i}") for i in range(_n)]
        imgs = [Opaque(f"img{i}") for i in range(_n)]
        scope, props = Opaque("scope"), Opaque("properties")
        sc = Opaque("sc", {"outputs": [syms[i] for i in _outs], "scope": scope, "properties": props})
        built = {}
        cc, pcc = Opaque("cc"), Opaque("post_processed_cc")
        pcc.attrs["reset_parameters"] = lambda o: Builtin("reset_parameters", lambda: events.append("reset"))
        cc.attrs["reset_parameters"] = lambda o: Builtin("reset_parameters", lambda: events.append("reset_of_the_unprocessed_circuit"))
        state = Opaque("state")
        state.attrs["finish_compilation"] = lambda o: Builtin("finish_compilation", lambda: events.append("finish"))
        comp = Opaque("compiler", {"_state": state}, cls=vc.repo.lookup(f"{TC}:TorchCompiler"))
        comp.attrs["_post_process_circuit"] = lambda o: Builtin("pp", lambda c: events.append(("post_process", c)) or pcc)
        comp.attrs["register_compiled_circuit"] = lambda o: Builtin("reg", lambda s, c: events.append(("register", s, c)))
        vc.I.summaries[f"{CI}:TorchCircuit"] = lambda I, a, k: built.update(a=a, k=k) or cc
        wires = {imgs[i]: [] for i in range(_n)}
        loc = {"self": comp, "sc": sc, "compiled_layers_map": {s: im for s, im in zip(syms, imgs)}, "in_layers": wires}
        kind, res = vc.run_suffix(f"{TC}:TorchCompiler._compile_circuit", loc)
        a, k = built.get("a", []), built.get("k", {})
        vc.ensure("same_scope_and_properties", len(a) == 1 and a[0] is scope and k.get("properties") is props)
        ls = list(k.get("layers", []))
        vc.ensure("all_compiled_layers_in_compilation_order", len(ls) == _n and all(x is y for x, y in zip(ls, imgs)))
        vc.ensure("the_wires_built_by_the_loop", k.get("in_layers") is wires)
        os_ = list(k.get("outputs", []))
        vc.ensure("outputs_are_the_images_of_the_declared_outputs_in_order", len(os_) == len(_outs) and all(o is imgs[i] for o, i in zip(os_, _outs)))
        vc.ensure("post_processed_then_initialised_then_registered_then_state_cleared", events == [("post_process", cc), "reset", ("register", sc, pcc), "finish"]
                  or (len(events) == 4 and events[0] == ("post_process", cc) and events[1] == "reset" and events[2][0] == "register" and events[2][1] is sc and events[2][2] is pcc and events[3] == "finish"))
        vc.ensure("returns_the_post_processed_circuit", kind == "return" and res is pcc)
    obligation(f"C01.compile.suffix.circuit.layers{_n}.outputs{'_'.join(map(str, _outs))}", "C01", [f"{TC}:TorchCompiler._compile_circuit"])(_h)


@obligation("C01.compile.suffix.parameter", "C01", [f"{TC}:TorchCompiler.compile_parameter"])
def _(vc):
    syms = [Opaque(f"sym{i}") for i in range(3)]
    imgs = [Opaque(f"img{i}") for i in range(3)]
    built = {}
    vc.I.summaries[f"{PP}:TorchParameter"] = lambda I, a, k: built.update(a=a, k=k) or Opaque("compiled_parameter")
    wires = {im: [] for im in imgs}
    nodes = list(imgs)
    loc = {"self": Opaque("compiler"), "parameter": Opaque("parameter", {"output": syms[1]}), "compiled_nodes_map": {s: im for s, im in zip(syms, imgs)},
           "in_nodes": wires, "nodes": nodes}
    kind, res = vc.run_suffix(f"{TC}:TorchCompiler.compile_parameter", loc)
    a = built.get("a", [])
    vc.ensure("graph_of_all_nodes_the_wires_and_the_image_of_the_declared_output", len(a) == 3 and a[0] is nodes and a[1] is wires and len(list(a[2])) == 1 and list(a[2])[0] is imgs[1])
    vc.ensure("returns_it", kind == "return" and res is not None)


# ------------------------------------------------------------------------------------------------ C07: a conjugation is never compiled away unless its value is real
from contracts.lib import tensor_param, dtype_of
SP_ = "cirkit/symbolic/parameters.py"

for _mix in ("real_real", "real_complex", "complex_real", "complex_complex"):
    def _h(vc, _mix=_mix):
        """compile_parameter, one iteration on a ConjugateParameter node over Kronecker(A, B): whenever a tensor underneath is complex, the
        compiled graph must contain a node compiled from THIS conjugate node, wired to the image of its input (conj is the identity only on
        real values, so it may be compiled away only when every tensor underneath is real)"""
        K = vc.int("K", lo=1)
        da, db = _mix.split("_")
        A = tensor_param(vc, (K, K), "tensor", dtype=da.upper())
        B = tensor_param(vc, (K, K), "tensor", dtype=db.upper())
        kron = vc.call(f"{SP_}:Parameter.from_binary", vc.new(f"{SP_}:KroneckerParameter", (K, K), (K, K)), A, B)
        P = vc.call(f"{SP_}:Parameter.from_unary", vc.new(f"{SP_}:ConjugateParameter", (K * K, K * K)), kron)
        (cur,) = P.fields["_outputs"]
        (inp,) = P.fields["_in_nodes"][cur]
        calls = []
        comp = _compiler(vc, calls, "parameter")
        cmap, wires, nodes = LoopMap("compiled_map"), LoopMap("wires"), []
        vc.assume(z3.Select(cmap.base.dom, ref_term(inp)))
        loc = {"self": comp, "parameter": P, "compiled_nodes_map": cmap, "in_nodes": wires, "nodes": nodes}
        vc.run_loop_body(f"{TC}:TorchCompiler.compile_parameter", loc, cur)
        ok = len(cmap.written) == 1 and cmap.written[0][0] is cur
        vc.ensure("an_image_is_recorded_for_the_conjugate_node", ok)
        if not ok:
            return
        img = cmap.written[0][1]
        emitted = len(calls) == 1 and calls[0] is cur and isinstance(img, Opaque) and len(nodes) == 1 and nodes[0] is img
        if "complex" in _mix:
            vc.ensure("conjugation_of_a_complex_valued_parameter_is_compiled", emitted)
        if emitted:
            good = len(wires.written) == 1 and wires.written[0][0] is img and len(wires.written[0][1]) == 1
            vc.ensure("wired_to_the_image_of_its_input", good and isinstance(wires.written[0][1][0], RefVal) and vc.must(ref_term(wires.written[0][1][0]) == z3.Select(cmap.base.val, ref_term(inp))))
        else:
            vc.ensure("compiled_away_only_as_an_alias_of_its_input_image", isinstance(img, RefVal) and vc.must(ref_term(img) == z3.Select(cmap.base.val, ref_term(inp))) and nodes == [] and calls == [])
    obligation(f"C07.compile.step.conjugate_of_kronecker.{_mix}", "C07", [f"{TC}:TorchCompiler.compile_parameter"])(_h)


# ------------------------------------------------------------------------------------------------ dispatch to the compilation rules
BC = "cirkit/backend/compiler.py"

for _what, _method, _reg in (("layer", "compile_layer", "_layers_registry"), ("parameter_node", "_compile_parameter_node", "_parameters_registry"),
                             ("initializer", "compile_initializer", "_initializers_registry")):
    def _h(vc, _what=_what, _method=_method, _reg=_reg):
        """the rule registered for the CLASS of the symbolic object, in the registry of its kind, is applied once to (compiler, object) and its result
        is returned unchanged"""
        from contracts.lib import SL, SP, SI
        cls = {"layer": f"{SL}:SumLayer", "parameter_node": f"{SP}:SoftmaxParameter", "initializer": f"{SI}:NormalInitializer"}[_what]
        if _what == "layer":
            x = vc.new(cls, vc.int("Ki", lo=1), vc.int("Ko", lo=1), arity=1)
        elif _what == "parameter_node":
            x = vc.new(cls, (vc.int("A", lo=1), vc.int("B", lo=1)), axis=-1)
        else:
            x = vc.new(cls)
        asked, applied = {}, []
        result = Opaque("compiled")
        rule = Builtin("rule", lambda c, o: applied.append((c, o)) or result)
        regs = {}
        for r in ("_layers_registry", "_parameters_registry", "_initializers_registry"):
            reg = Opaque(r)
            reg.attrs["retrieve_rule"] = (lambda r: lambda o: Builtin("retrieve_rule", lambda sig: asked.setdefault(r, []).append(sig) or rule))(r)
            regs[r] = reg
        comp = Obj(vc.repo.lookup(f"{TC}:TorchCompiler"), dict(regs))
        out = vc.call((comp, _method), x)
        vc.ensure("asked_the_registry_of_its_kind_for_the_class_of_the_object", list(asked) == [_reg] and len(asked[_reg]) == 1 and getattr(asked[_reg][0], "ci", None) is x.cls)
        vc.ensure("rule_applied_once_to_this_compiler_and_this_object", len(applied) == 1 and applied[0][0] is comp and applied[0][1] is x)
        vc.ensure("its_result_is_returned", out is result)
    obligation(f"C01.compile.dispatch.{_what}", "C01", [f"{TC}:TorchCompiler.{_method}", f"{BC}:AbstractCompiler.retrieve_{'layer' if _what == 'layer' else 'parameter' if _what == 'parameter_node' else 'initializer'}_rule"])(_h)
