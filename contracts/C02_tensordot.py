"""C02 (O2, shattering rule): a sum / tensor-dot layer whose weight is a Kronecker product W = A (x) B is replaced by TWO tensor-dot layers
(Zhang et al. 2025).  With A of shape (ka, ja), B of shape (kb, jb), W[(a,b),(j,l)] = A[a,j] B[b,l], Ki = ja jb, Ko = ka kb:

  kernel   TorchTensorDotLayer(Ki, Ko', weight (Kk, Kj)).forward:  out[f, b, (q, k)] = SUM_j w[f, k, j] x[f, 0, b, (j, q)]     (q = Ki / Kj)
           - input unit index j-major, output unit index q-major - for all folds, batch sizes and unit counts
  rule     _apply_tensordot_rule / apply_dense_tensordot / apply_tensordot_tensordot: first layer (Ki -> ka jb) over the graph of A, second
           (ka jb -> Ko) over the graph of B, both in the COMPILER's semiring, weights = sub-graphs of the matched weight rooted at the two inputs of
           the Kronecker node IN ORDER, unit counts accepted by the layers' own validity check
The algebra  out2[(a, b)] = SUM_l B[b,l] SUM_j A[a,j] x[(j,l)] = SUM_(j,l) W[(a,b),(j,l)] x[(j,l)]  (exchange of two finite sums) composes the
two kernel statements; the index bookkeeping (which factor is contracted first, which index is major) is what the obligations pin down.
"""
import z3

from engine.vc import obligation
from engine.values import to_z3, Obj, Opaque, Builtin
from engine.tensor import MR, Tensor
from contracts.C01_kernels import semiring, param, shape_is, LI, SR

OL = "cirkit/backend/torch/optimization/layers.py"
LO = "cirkit/backend/torch/layers/optimized.py"


@obligation("C02.kernel.TorchTensorDotLayer.forward", "C02", [f"{LO}:TorchTensorDotLayer.forward", f"{LO}:TorchTensorDotLayer.__init__", f"{LO}:TorchTensorDotLayer._valid_weight_shape"])
def _(vc):
    F, B, Kj, Kq, Kk = (vc.int(n, lo=1) for n in ("F", "B", "Kj", "Kq", "Kk"))
    W, Wt = param(vc, "weight", F, (Kk, Kj))
    t = vc.new(f"{LO}:TorchTensorDotLayer", Kj * Kq, Kq * Kk, weight=W, semiring=semiring(vc), num_folds=F)
    x = vc.tensor("x", (F, 1, B, Kj * Kq))
    y = vc.call((t, "forward"), x)
    if not shape_is(vc, y, [F, B, Kq * Kk]):
        return
    f, b, q, k = vc.index_consts([F, B, Kq, Kk])
    vc.ensure("contracts_the_major_input_index_and_puts_the_weight_row_minor",
              y.elem([f, b, MR([(q, Kq), (k, Kk)])]) == vc.red("sum", [Kj], lambda j: Wt.elem([f, k, j]) * x.elem([f, 0, b, MR([(j, Kj), (q, Kq)])])))


@obligation("C02.kernel.TorchTensorDotLayer.refuses_incompatible_weight", "C02", [f"{LO}:TorchTensorDotLayer.__init__", f"{LO}:TorchTensorDotLayer._valid_weight_shape"])
def _(vc):
    Ki, Ko, Kk, Kj = (vc.int(n, lo=1) for n in ("Ki", "Ko", "Kk", "Kj"))
    W, _ = param(vc, "weight", 1, (Kk, Kj))
    exc, t = vc.raises(lambda: vc.new(f"{LO}:TorchTensorDotLayer", Ki, Ko, weight=W, semiring=semiring(vc), num_folds=1))
    valid = z3.And(Ki % Kj == 0, Ko == Kk * (Ki / Kj))
    if exc is not None:
        vc.ensure("refused_only_when_the_unit_counts_do_not_factor", z3.And(exc == "ValueError", z3.Not(valid)))
    else:
        vc.ensure("accepted_only_when_Ki_is_KjKq_and_Ko_is_KqKk", valid)


for _srname in ("SumProductSemiring", "LSESumSemiring"):
    for _entry in ("rule", "dense", "tensordot"):
        def _h(vc, _srname=_srname, _entry=_entry):
            ka, ja, kb, jb = (vc.int(n, lo=1) for n in ("ka", "ja", "kb", "jb"))
            Ki, Ko = ja * jb, ka * kb
            sr = semiring(vc, _srname)
            compiler = vc.opaque("compiler", attrs={"semiring": sr})
            A, _ = param(vc, "graph_of_A", 1, (ka, ja))
            Bp, _ = param(vc, "graph_of_B", 1, (kb, jb))
            inA, inB, kron = vc.opaque("node_A"), vc.opaque("node_B"), vc.opaque("kronecker_node")
            weight = Opaque("weight", {"num_folds": 1, "shape": (Ko, Ki)})
            weight.attrs["node_inputs"] = lambda o: Builtin("node_inputs", lambda n: [inA, inB] if n is kron else [])
            weight.attrs["subgraph"] = lambda o: Builtin("subgraph", lambda n: A if n is inA else (Bp if n is inB else None))
            if _entry == "rule":
                out = vc.call(f"{OL}:_apply_tensordot_rule", compiler, Ki, Ko, weight, kron)
            else:
                if _entry == "dense":
                    layer = Opaque("dense", {"num_input_units": Ki, "num_output_units": Ko, "weight": weight})
                else:
                    layer = Opaque("tdot", {"num_input_units": Ki, "num_output_units": Ko, "weight": weight})
                pm = Opaque("pmatch", {"entries": [kron]})
                match = Opaque("match", {"entries": [layer], "sub_entries": [{"weight": [pm]}]})
                out = vc.call(f"{OL}:apply_dense_tensordot" if _entry == "dense" else f"{OL}:apply_tensordot_tensordot", compiler, match)
            out = list(vc.I.B.iterate(vc.I, out))
            ok = len(out) == 2 and all(isinstance(t, Obj) and t.cls.name == "TorchTensorDotLayer" for t in out)
            vc.ensure("two_tensor_dot_layers", ok)
            if not ok:
                return
            t1, t2 = out
            vc.ensure("first_contracts_with_the_graph_of_the_first_kronecker_input", t1.fields.get("weight") is A)
            vc.ensure("second_contracts_with_the_graph_of_the_second_kronecker_input", t2.fields.get("weight") is Bp)
            vc.ensure("both_in_the_compilers_semiring", all(t.fields.get("semiring") is not None and t.fields["semiring"].ci is sr.ci for t in out))
            vc.ensure("first_maps_Ki_to_ka_jb", z3.And(vc.attr(t1, "num_input_units") == Ki, vc.attr(t1, "num_output_units") == ka * jb))
            vc.ensure("second_maps_ka_jb_to_Ko", z3.And(vc.attr(t2, "num_input_units") == ka * jb, vc.attr(t2, "num_output_units") == Ko))
        obligation(f"C02.opt.tensordot.{_entry}.{_srname}", "C02", [f"{OL}:_apply_tensordot_rule"] + ([] if _entry == "rule" else
                   [f"{OL}:apply_dense_tensordot" if _entry == "dense" else f"{OL}:apply_tensordot_tensordot"]))(_h)
