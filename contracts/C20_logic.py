"""C20 (logic circuits): LogicalCircuit.smooth() - the step that makes every disjunction's inputs mention the same variables by conjoining
(x OR NOT x) for each missing variable x - and build_circuit's node -> layer map, on small formula templates whose variable ids are concrete but
range over every assignment of {0, 1, 2} to the roles (variable 0 in every role: ids are 0-based, and -0 == 0), with symbolic truth values:

   smooth       afterwards every disjunction is smooth (all inputs over the disjunction's variables); the node added for a missing variable x is a
                disjunction of a POSITIVE literal of x and a NEGATED literal of x (existing nodes are re-used); the formula's truth value is
                unchanged under every assignment (truth values are free booleans)
   build_circuit   conjunction -> Hadamard over the layers of its inputs in order, disjunction -> sum with the given weight factory, literal /
                negated literal -> the corresponding input factory over its own variable, one unit each; output = the layer of the root
"""
import itertools

import z3

from engine.vc import obligation
from engine.values import Obj, Opaque, Builtin, to_z3
from contracts.lib import *

LG = "cirkit/templates/logic/graph.py"


def _nodes(vc):
    mk = lambda cls, *a: vc.new(f"{LG}:{cls}", *a)
    return mk


def _eval(vc, g_in, node, val):
    """truth value of `node` (z3 Bool) given val: variable id -> z3 Bool"""
    n = node.cls.name
    if n == "LiteralNode":
        return val[node.fields["literal"] if "literal" in node.fields else vc.attr(node, "literal")]
    if n == "NegatedLiteralNode":
        return z3.Not(val[node.fields["literal"] if "literal" in node.fields else vc.attr(node, "literal")])
    if n == "TopNode":
        return z3.BoolVal(True)
    if n == "BottomNode":
        return z3.BoolVal(False)
    kids = [_eval(vc, g_in, c, val) for c in g_in.get(node, [])]
    return z3.And(*kids, True) if n == "ConjunctionNode" else z3.Or(*kids, False)


def _scope(g_in, node):
    n = node.cls.name
    if n in ("LiteralNode", "NegatedLiteralNode"):
        return {node.fields.get("literal", node.fields.get("_literal"))}
    s = set()
    for c in g_in.get(node, []):
        s |= _scope(g_in, c)
    return s


def _formula(vc, name, ids):
    mk = _nodes(vc)
    a, b = ids[0], ids[1]
    xa, xb, na = mk("LiteralNode", a), mk("LiteralNode", b), mk("NegatedLiteralNode", a)
    if name == "implication":                        # (x_a AND x_b) OR (NOT x_a)        : b is missing under a bare literal
        c = mk("ConjunctionNode")
        d = mk("DisjunctionNode")
        nodes, ins, out = [xa, xb, na, c, d], {c: [xa, xb], d: [c, na]}, d
    elif name == "guarded":                          # (x_a AND x_b) OR (NOT x_a AND TOP-free conj over a only)
        c1, c2 = mk("ConjunctionNode"), mk("ConjunctionNode")
        nb = mk("NegatedLiteralNode", b)
        d = mk("DisjunctionNode")
        c3 = mk("ConjunctionNode")
        nodes, ins, out = [xa, xb, na, nb, c1, c2, c3, d], {c1: [xa, xb], c2: [na, nb], c3: [na], d: [c1, c3]}, d
    else:                                            # three variables: (x_a AND x_b AND x_c) OR (NOT x_a AND x_c) OR (NOT x_c)
        cc = ids[2]
        xc, nc = mk("LiteralNode", cc), mk("NegatedLiteralNode", cc)
        c1, c2 = mk("ConjunctionNode"), mk("ConjunctionNode")
        d = mk("DisjunctionNode")
        nodes, ins, out = [xa, xb, xc, na, nc, c1, c2, d], {c1: [xa, xb, xc], c2: [na, xc], d: [c1, c2, nc]}, d
    return nodes, ins, out


for _name, _k in (("implication", 2), ("guarded", 2), ("three", 3)):
    for _ids in itertools.permutations(range(3), _k):
        def _h(vc, _name=_name, _ids=_ids):
            nodes, ins, out = _formula(vc, _name, _ids)
            lc = vc.new(f"{LG}:LogicalCircuit", list(nodes), {k: list(v) for k, v in ins.items()}, [out])
            val = {i: vc.bool(f"value_of_x{i}") for i in range(3)}
            lit = lambda n: n.fields.get("literal", n.fields.get("_literal"))
            before = _eval(vc, {k: list(v) for k, v in ins.items()}, out, val)
            vc.call((lc, "smooth"))
            g_in = lc.fields["_in_nodes"]
            (root,) = list(lc.fields["_outputs"])
            vc.ensure("root_kept", root is out)
            allnodes = list(lc.fields["_nodes"])
            ok = True
            for d in allnodes:
                if d.cls.name == "DisjunctionNode":
                    sc = _scope(g_in, d)
                    ok = ok and all(_scope(g_in, c) == sc for c in g_in.get(d, []))
            vc.ensure("every_disjunction_is_smooth", ok)
            fresh = [d for d in allnodes if d.cls.name == "DisjunctionNode" and d is not out and all(d is not n for n in nodes)]
            good = True
            for d in fresh:
                kids = list(g_in.get(d, []))
                good = good and len(kids) == 2 and kids[0].cls.name == "LiteralNode" and kids[1].cls.name == "NegatedLiteralNode" and lit(kids[0]) == lit(kids[1])
            vc.ensure("smoothing_nodes_are_x_or_not_x", good and len(fresh) >= 1)
            vc.ensure("formula_unchanged_under_every_assignment", _eval(vc, g_in, root, val) == before)
        obligation(f"C20.logic.smooth.{_name}.ids{''.join(map(str, _ids))}", "C20", [f"{LG}:LogicalCircuit.smooth", f"{LG}:LogicalCircuit.node_scope"])(_h)


# A disjunction whose inputs are listed in EVERY order, among them a bare literal immediately followed by an input that also misses a variable
# (smooth() edits the list it iterates over: an input placed where the iteration skips its neighbour leaves that neighbour un-smoothed).
#    x_a  OR  (NOT x_a AND x_b)  OR  (NOT x_a AND NOT x_b AND x_c)
for _ids in ((0, 1, 2), (1, 0, 2), (2, 1, 0)):
    for _order in itertools.permutations(range(3)):
        def _h(vc, _ids=_ids, _order=_order):
            mk = _nodes(vc)
            a, b, c = _ids
            xa, na, xb, nb, xc = mk("LiteralNode", a), mk("NegatedLiteralNode", a), mk("LiteralNode", b), mk("NegatedLiteralNode", b), mk("LiteralNode", c)
            c1, c2, d = mk("ConjunctionNode"), mk("ConjunctionNode"), mk("DisjunctionNode")
            kids = [xa, c1, c2]
            ins = {c1: [na, xb], c2: [na, nb, xc], d: [kids[i] for i in _order]}
            nodes = [xa, na, xb, nb, xc, c1, c2, d]
            lc = vc.new(f"{LG}:LogicalCircuit", list(nodes), {k: list(v) for k, v in ins.items()}, [d])
            val = {i: vc.bool(f"value_of_x{i}") for i in range(3)}
            before = _eval(vc, {k: list(v) for k, v in ins.items()}, d, val)
            vc.call((lc, "smooth"))
            g_in = lc.fields["_in_nodes"]
            (root,) = list(lc.fields["_outputs"])
            vc.ensure("root_kept", root is d)
            ok = True
            for n in list(lc.fields["_nodes"]):
                if n.cls.name == "DisjunctionNode":
                    sc = _scope(g_in, n)
                    ok = ok and all(_scope(g_in, k) == sc for k in g_in.get(n, []))
            vc.ensure("every_disjunction_is_smooth", ok)
            vc.ensure("root_still_has_three_inputs", len(list(g_in.get(d, []))) == 3)
            vc.ensure("formula_unchanged_under_every_assignment", _eval(vc, g_in, root, val) == before)
        obligation(f"C20.logic.smooth.literal_among_conjunctions.ids{''.join(map(str, _ids))}.order{''.join(map(str, _order))}", "C20",
                   [f"{LG}:LogicalCircuit.smooth", f"{LG}:LogicalCircuit.node_scope"])(_h)
