"""Minimal reproducers of the cirkit discrepancies found by native.selftest_refinterp.

Run with:  cd /verif && /venv/bin/python -m native.cirkit_findings
Prints, for each finding, whether the defect is still PRESENT in /repo (exit status 1 if any is).
Nothing here depends on the reference interpreter: plain cirkit + torch only.
"""

import sys

import torch

import cirkit.symbolic.functional as SF
from cirkit.pipeline import PipelineContext
from cirkit.symbolic.circuit import Circuit
from cirkit.symbolic.layers import CategoricalLayer, HadamardLayer, PolynomialLayer, SumLayer
from cirkit.utils.scope import Scope


def _compile(sc, fold, optimize=False):
    ctx = PipelineContext(backend="torch", semiring="sum-product", fold=fold, optimize=optimize)
    return ctx.compile(sc)


def r1_polyval_batch_of_one():
    """TorchPolynomialLayer._polyval does x.squeeze(dim=1) on x of shape (F, B, 1): with a batch
    of size B == 1 the batch axis is dropped and the result broadcasts to (F, F, K).  A folded
    circuit with F >= 2 polynomial layers then returns an output of the wrong shape / raises
    (also hit by the evidence of polynomial layers, which always evaluates a batch of one)."""
    p0, p1 = PolynomialLayer(Scope([0]), 2, degree=2), PolynomialLayer(Scope([1]), 2, degree=2)
    h = HadamardLayer(2, arity=2)
    tc = _compile(Circuit([p0, p1, h], {h: [p0, p1]}, [h]), fold=True)
    x = torch.tensor([[0.3, -1.2], [0.5, 0.7]])
    try:
        y1, y2 = tc(x[:1]), tc(x)
    except RuntimeError as e:
        return True, f"raises {e}"
    bad = y1.shape != (1, 1, 2) or not torch.allclose(y1[0], y2[0])
    return bad, f"batch of 1 -> shape {tuple(y1.shape)} (expected (1, 1, 2))"


def r2_polynomial_differential_fold():
    """TorchPolynomialDifferential.config (and fold_settings) omit 'order': folding rebuilds the
    node with order=1.  differentiate(sc, order=2) compiled with fold=True either fails with a
    coefficient shape error or silently computes the FIRST derivative (degree-1 polynomial)."""
    q = PolynomialLayer(Scope([0]), 2, degree=1)  # a + b x: the second derivative is 0
    d2 = SF.differentiate(Circuit([q], {}, [q]), order=2)
    y = _compile(d2, fold=True)(torch.tensor([[0.5]]))[0, 0]
    msg = f"d2/dx2 of a degree-1 polynomial, folded: {y.tolist()} (expected zeros)"
    q3 = PolynomialLayer(Scope([0]), 2, degree=3)
    try:
        _compile(SF.differentiate(Circuit([q3], {}, [q3]), order=2), fold=True)
    except ValueError as e:
        msg += f"; degree 3: compile raises ValueError({e})"
    return bool(torch.any(y != 0)), msg


def r3_tensordot_view():
    """TorchTensorDotLayer.forward ends with y.view(...) on the einsum output, which is not
    contiguous when some unit dimension is 1: the product of two circuits whose sum layers have
    one input unit, compiled with optimize=True, raises RuntimeError at evaluation."""

    def mk(k_out):
        c = CategoricalLayer(Scope([0]), 1, num_categories=3)
        s = SumLayer(1, k_out, 1)
        return Circuit([c, s], {s: [c]}, [s])

    tc = _compile(SF.multiply(mk(2), mk(3)), fold=False, optimize=True)
    try:
        tc(torch.zeros(2, 1, dtype=torch.long))
    except RuntimeError as e:
        return True, f"raises RuntimeError({str(e)[:60]}...)"
    return False, "evaluates"


def r4_reference_inside_a_circuit_fold():
    """A ReferenceParameter to a tensor of the SAME circuit compiles and evaluates with fold=False,
    but with fold=True the pointer keeps the unfolded (never initialised) tensor: ValueError
    'The tensor parameter has not been initialized'.  (cirkit itself only creates references
    across circuits, so this is a limitation more than a defect.)"""
    a = CategoricalLayer(Scope([0]), 2, num_categories=3)
    b = CategoricalLayer(Scope([1]), 2, num_categories=3, probs=a.probs.ref())
    h = HadamardLayer(2, arity=2)
    sc = Circuit([a, b, h], {h: [a, b]}, [h])
    _compile(sc, fold=False)(torch.tensor([[0, 0]]))
    try:
        _compile(sc, fold=True)(torch.tensor([[0, 0]]))
    except ValueError as e:
        return True, f"fold=True raises ValueError({e})"
    return False, "evaluates"


FINDINGS = [
    r1_polyval_batch_of_one,
    r2_polynomial_differential_fold,
    r3_tensordot_view,
    r4_reference_inside_a_circuit_fold,
]


def main():
    torch.manual_seed(0)
    present = 0
    for fn in FINDINGS:
        bad, msg = fn()
        present += bool(bad)
        print(f"{'PRESENT' if bad else 'absent '}  {fn.__name__}: {msg}")
    return 1 if present else 0


if __name__ == "__main__":
    sys.exit(main())
