"""Native replay of counter-models of parameter-node obligations (C14 family) on the real code.

replay_param_node(name, model) builds the symbolic node `name` with the sizes of the verifier's counter-model,
compiles it through the real rule, runs the real torch `forward` on random inputs with F folds, and compares shape
and values with the numpy reference (native/refinterp.py).  If the model itself does not fail natively (the abstraction
may admit it while CPython happens to behave), a small neighbourhood (rank <= 3, dims <= 3, every axis, folds <= 3)
is searched for a failing input.  Returns 1 when a failing input is found, 0 otherwise.
"""
from __future__ import annotations

import itertools
import sys

import numpy as np
import torch

torch.set_default_dtype(torch.float64)


def _clamp(v, lo=1, hi=4):
    try:
        v = int(v)
    except Exception:
        return lo
    return max(lo, min(hi, v))


def _shapes(model, key, rank=None):
    v = model.get(key)
    if isinstance(v, list) and v and all(isinstance(x, int) for x in v):
        return tuple(_clamp(x) for x in v[:4])
    return None


def candidates(name, model):
    """yield (ctor kwargs as a dict of positional 'args' and 'kw') for the symbolic class"""
    rank_shapes = [s for r in (1, 2, 3) for s in itertools.product((1, 2, 3), repeat=r)]
    m_in = _shapes(model, "in_shape") or _shapes(model, "in_shape1")
    m_axis = model.get("axis") if isinstance(model.get("axis"), int) else None
    first = [m_in] if m_in else []
    unary = {"ExpParameter", "LogParameter", "SquareParameter", "SoftplusParameter", "SigmoidParameter", "ConjugateParameter"}
    axisy = {"ReduceSumParameter", "ReduceProductParameter", "ReduceLSEParameter", "SoftmaxParameter", "LogSoftmaxParameter"}
    if name in unary:
        for s in first + rank_shapes:
            yield (s,), {}
    elif name == "ScaledSigmoidParameter":
        for s in first + rank_shapes:
            yield (s, 0.5, 2.0), {}
    elif name == "ClampParameter":
        for s in first + rank_shapes:
            yield (s,), {"vmin": -0.3, "vmax": 0.4}
    elif name in axisy:
        for s in first + rank_shapes:
            axes = ([m_axis] if (m_axis is not None and s is m_in) else []) + list(range(-len(s), len(s)))
            for a in axes:
                if -len(s) <= a < len(s):
                    yield (s,), {"axis": a}
    elif name == "IndexParameter":
        for s in first + rank_shapes:
            for a in range(-len(s), len(s)):
                n = s[a]
                for idx in ([0], list(range(n))[::-1], [n - 1, 0, n - 1]):
                    yield (s,), {"indices": idx, "axis": a}
    elif name in ("SumParameter", "HadamardParameter"):
        for s in first + rank_shapes:
            yield (s, s), {}
    elif name == "KroneckerParameter":
        for s in first + rank_shapes[:20]:
            for s2 in rank_shapes:
                if len(s2) == len(s):
                    yield (s, s2), {}
    elif name in ("OuterProductParameter", "OuterSumParameter"):
        for s in first + rank_shapes:
            for a in range(-len(s), len(s)):
                for k2 in (1, 2, 3):
                    s2 = list(s)
                    s2[a] = k2
                    yield (s, tuple(s2)), {"axis": a}
    elif name == "MixingWeightParameter":
        for k in (1, 2, 3):
            for h in (1, 2, 3):
                yield ((k, h),), {}
    elif name in ("GaussianProductMean", "GaussianProductLogPartition"):
        for k1 in (1, 2, 3):
            for k2 in (1, 2, 3):
                yield ((k1,), (k1,), (k2,), (k2,)), {}
    elif name == "GaussianProductStddev":
        for k1 in (1, 2, 3):
            for k2 in (1, 2, 3):
                yield ((k1,), (k2,)), {}
    elif name == "PolynomialProduct":
        for k1, k2, d1, d2 in itertools.product((1, 2), (1, 3), (1, 2, 3), (1, 2)):
            yield ((k1, d1), (k2, d2)), {}
    elif name == "PolynomialDifferential":
        for k, d, o in itertools.product((1, 2), (1, 2, 3, 4), (1, 2, 3)):
            yield ((k, d),), {"order": o}


def check_one(name, args, kw, folds, rng):
    import cirkit.symbolic.parameters as SP
    from cirkit.backend.torch.rules.parameters import DEFAULT_PARAMETER_COMPILATION_RULES as RULES
    from native.refinterp import _eval_pnode
    cls = getattr(SP, name)
    try:
        p = cls(*args, **kw)
    except (AssertionError, ValueError):
        return None  # refused by the symbolic constructor: not an admissible input
    t1 = RULES[cls](None, p)
    if tuple(t1.shape) != tuple(p.shape):
        return f"compiled node shape {tuple(t1.shape)} != symbolic shape {tuple(p.shape)}"
    cfg = dict(t1.config)
    t = type(t1)(**cfg, num_folds=folds)
    positive = name in ("LogParameter", "GaussianProductMean", "GaussianProductStddev", "GaussianProductLogPartition")
    xs = [rng.uniform(0.5, 1.5, size=(folds, *s)) if positive else rng.normal(size=(folds, *s)) for s in p.in_shapes]
    y = t(*[torch.tensor(x) for x in xs]).detach().numpy()
    ref = np.stack([_eval_pnode(p, [x[f] for x in xs], None) for f in range(folds)], axis=0)
    if y.shape != ref.shape:
        return f"forward returns shape {y.shape}, definition gives {ref.shape}"
    if y.shape != (folds, *p.shape):
        return f"forward returns shape {y.shape}, declared (F, *shape) = {(folds, *p.shape)}"
    if not np.allclose(y, ref, rtol=1e-8, atol=1e-10):
        return f"forward differs from the definition by {float(np.abs(y - ref).max()):.3g}"
    return None


def replay_param_node(name, model, max_tries=4000):
    rng = np.random.default_rng(0)
    f_model = _clamp(model.get("F", 2), 1, 3)
    tried = 0
    for args, kw in candidates(name, model):
        for folds in dict.fromkeys([f_model, 1, 2, 3]):
            tried += 1
            if tried > max_tries:
                print(f"no failing input among {tried - 1} candidates")
                return 0
            try:
                msg = check_one(name, args, kw, folds, rng)
            except Exception as e:  # the real code raises on an admissible input
                msg = f"raises {type(e).__name__}: {e}"
            if msg:
                print(f"FAILING INPUT {name}(*{args}, **{kw}) folds={folds}: {msg}")
                return 1
    print(f"no failing input among {tried} candidates")
    return 0


if __name__ == "__main__":
    import json
    sys.exit(replay_param_node(sys.argv[1], json.loads(sys.argv[2]) if len(sys.argv) > 2 else {}))


def _cfg_key(cfg):
    out = []
    for k, v in cfg.items():
        if k == "initializer_":
            continue
        out.append((k, tuple(v) if isinstance(v, list) else v))
    return tuple(out)


def replay_fold_settings(name, model):
    """C02: search two nodes of one torch class with equal fold_settings but different configuration (such nodes would be
    folded together and the folded node rebuilt from the first one's configuration)."""
    import cirkit.symbolic.parameters as SP
    from cirkit.backend.torch.parameters.nodes import TorchTensorParameter
    from cirkit.backend.torch.rules.parameters import DEFAULT_PARAMETER_COMPILATION_RULES as RULES
    seen = {}
    if name == "TensorParameter":
        items = []
        for shp in [(1,), (2,), (1, 2), (2, 2), (1, 1, 2)]:
            for rg in (False, True):
                for dt in (torch.float32, torch.float64, torch.int64, torch.complex64):
                    items.append(TorchTensorParameter(*shp, requires_grad=rg, dtype=dt))
        for t in items:
            key = (type(t), t.fold_settings)
            cfg = (tuple(t.shape), t.requires_grad, t.dtype)
            if key in seen and seen[key] != cfg:
                print(f"FAILING INPUT: tensors {seen[key]} and {cfg} have equal fold_settings {t.fold_settings}")
                return 1
            seen.setdefault(key, cfg)
        print("no failing pair among", len(items), "tensors")
        return 0
    cls = getattr(SP, name)
    n = 0
    for args, kw in itertools.islice(candidates(name, model), 3000):
        try:
            p = cls(*args, **kw)
        except (AssertionError, ValueError):
            continue
        t = RULES[cls](None, p)
        n += 1
        key, cfg = (type(t), t.fold_settings), _cfg_key(t.config)
        if key in seen and seen[key] != cfg:
            print(f"FAILING INPUT: two {type(t).__name__} nodes with configurations {seen[key]} and {cfg} have equal fold_settings {t.fold_settings}")
            return 1
        seen.setdefault(key, cfg)
    print("no failing pair among", n, "nodes")
    return 0


def replay_outer_reduce_flatten(n, o, r, model):
    """C02-O2: the nodes emitted for ReduceSum(dim=r) o OuterProduct(dim=o) against a direct numpy evaluation"""
    from cirkit.backend.torch.optimization.parameters import _emit_outer_reduce_flatten_parameter as emit
    rng = np.random.default_rng(0)
    m = _shapes(model, "in_shape1")
    k2m = model.get("K2") if isinstance(model.get("K2"), int) else None
    cands = ([(m, _clamp(k2m or 2))] if m and len(m) == n else []) + \
        [(s, k2) for s in itertools.product((1, 2, 3), repeat=n) for k2 in (1, 2, 3)]
    for s1, k2 in cands:
        s2 = tuple(k2 if j == o else s1[j] for j in range(n))
        for F in (1, 2):
            x1, x2 = rng.normal(size=(F, *s1)), rng.normal(size=(F, *s2))
            nodes = emit(tuple(s1), s2, o, r)
            nodes = [type(nd)(**nd.config, num_folds=F) for nd in nodes]
            y = nodes[0](torch.tensor(x1), torch.tensor(x2))
            for nd in nodes[1:]:
                y = nd(y)
            a = np.expand_dims(x1, o + 2)
            b = np.expand_dims(x2, o + 1)
            z = (a * b).reshape((F, *[s1[j] * k2 if j == o else s1[j] for j in range(n)]))
            ref = z.sum(axis=r + 1)
            y = y.detach().numpy()
            if y.shape != ref.shape or not np.allclose(y, ref, rtol=1e-8, atol=1e-10):
                print(f"FAILING INPUT: in_shape1={s1} in_shape2={s2} outer_dim={o} reduce_dim={r} folds={F}: "
                      f"{'shape ' + str(y.shape) + ' vs ' + str(ref.shape) if y.shape != ref.shape else 'max abs err %.3g' % float(np.abs(y - ref).max())}")
                return 1
    print("no failing input among", len(cands), "shapes")
    return 0
