"""Deterministic generators of small smooth and decomposable symbolic circuits.

Everything is built directly from cirkit.symbolic.layers / Circuit (no templates, no backend).
All the random choices come from ``random.Random(seed)``: the same arguments always give the same
circuits (structure-wise; the parameters are symbolic and get values only in a ParamStore or at
compile time).
"""

import random
from functools import partial

import numpy as np

from cirkit.symbolic import parameters as P
from cirkit.symbolic.circuit import Circuit
from cirkit.symbolic.dtypes import DataType
from cirkit.symbolic.initializers import NormalInitializer
from cirkit.symbolic.layers import (
    BinomialLayer,
    CategoricalLayer,
    EmbeddingLayer,
    GaussianLayer,
    HadamardLayer,
    KroneckerLayer,
    PolynomialLayer,
    SumLayer,
)
from cirkit.utils.scope import Scope

from native.refinterp import domains_of

INPUT_KINDS = ("categorical", "categorical-logits", "binomial", "gaussian", "embedding", "polynomial")
MULTIPLY_KINDS = ("categorical", "categorical-logits", "gaussian", "embedding", "polynomial")
COMPLEX_KINDS = ("embedding", "polynomial")


def _tp(*shape, cplx=False):
    dtype = DataType.COMPLEX if cplx else DataType.REAL
    return P.TensorParameter(*shape, initializer=NormalInitializer(), dtype=dtype)


def _tp_factory(shape, cplx=False):
    return P.Parameter.from_input(_tp(*shape, cplx=cplx))


class _Builder:
    """Accumulates layers and connections; knows how to make input / sum / product layers."""

    def __init__(
        self, rng, var_kind, var_dom, *, max_units, max_arity, complex_params=False, budget=6
    ):
        self.rng, self.var_kind, self.var_dom = rng, var_kind, var_dom
        self.max_units, self.max_arity, self.cplx = max_units, max_arity, complex_params
        self.layers, self.in_layers, self.budget = [], {}, budget

    def tight(self):
        """Once the layer budget is used up, only minimal choices are made (arity-1 sums, ...)."""
        return len(self.layers) >= self.budget

    def add(self, layer, inputs=()):
        self.layers.append(layer)
        if inputs:
            self.in_layers[layer] = list(inputs)
        return layer

    def units(self, hi=None):
        return self.rng.randint(1, hi or self.max_units)

    def arity(self):
        room = self.budget - len(self.layers)
        return max(1, min(self.rng.choice([1, 2, 2, 3]), self.max_arity, room // 2))

    # ---- input layers
    def input(self, v, k, kind=None):
        rng, kind, scope = self.rng, kind or self.var_kind[v], Scope([v])
        if kind == "categorical":
            n, variant = self.var_dom[v], rng.choice(["default", "softmax", "exp-logsoftmax"])
            if variant == "default":
                return self.add(CategoricalLayer(scope, k, num_categories=n))
            if variant == "softmax":
                probs = P.Parameter.from_unary(P.SoftmaxParameter((k, n), axis=1), _tp(k, n))
            else:
                probs = P.Parameter.from_sequence(
                    _tp(k, n), P.LogSoftmaxParameter((k, n), axis=-1), P.ExpParameter((k, n))
                )
            return self.add(CategoricalLayer(scope, k, num_categories=n, probs=probs))
        if kind == "categorical-logits":
            n = self.var_dom[v]
            return self.add(CategoricalLayer(scope, k, num_categories=n, logits=_tp_factory((k, n))))
        if kind == "binomial":
            n, variant = self.var_dom[v], rng.choice(["default", "logits", "sigmoid"])
            if variant == "default":
                return self.add(BinomialLayer(scope, k, total_count=n))
            if variant == "logits":
                return self.add(BinomialLayer(scope, k, total_count=n, logits=_tp_factory((k,))))
            probs = P.Parameter.from_unary(P.SigmoidParameter((k,)), _tp(k))
            return self.add(BinomialLayer(scope, k, total_count=n, probs=probs))
        if kind == "gaussian":
            variant = rng.choice(["default", "softplus", "scaled", "log-partition"])
            kwargs = {}
            if variant == "softplus":
                kwargs["stddev"] = P.Parameter.from_unary(P.SoftplusParameter((k,)), _tp(k))
            elif variant == "scaled":
                kwargs["stddev"] = P.Parameter.from_unary(
                    P.ScaledSigmoidParameter((k,), vmin=0.25, vmax=1.5), _tp(k)
                )
            elif variant == "log-partition":
                kwargs["log_partition"] = _tp_factory((k,))
            return self.add(GaussianLayer(scope, k, **kwargs))
        if kind == "embedding":
            n = self.var_dom[v]
            if self.cplx or rng.random() < 0.5:
                weight = _tp_factory((k, n), cplx=self.cplx)
                return self.add(EmbeddingLayer(scope, k, num_states=n, weight=weight))
            return self.add(EmbeddingLayer(scope, k, num_states=n))
        if kind == "polynomial":
            deg = rng.randint(0, 3)
            if self.cplx or rng.random() < 0.5:
                coeff = _tp_factory((k, deg + 1), cplx=self.cplx)
                return self.add(PolynomialLayer(scope, k, degree=deg, coeff=coeff))
            return self.add(PolynomialLayer(scope, k, degree=deg))
        raise ValueError(f"unknown input kind {kind}")

    # ---- inner layers
    def sum(self, inputs, k_out):
        k_in, h = inputs[0].num_output_units, len(inputs)
        variants = ["default", "default", "softmax"]
        if h > 1 and k_in == k_out:
            variants.append("mixing")
        variant = self.rng.choice(variants)
        if self.cplx:
            sl = SumLayer(k_in, k_out, h, weight_factory=partial(_tp_factory, cplx=True))
        elif variant == "softmax":
            shape = (k_out, h * k_in)
            weight = P.Parameter.from_unary(P.SoftmaxParameter(shape, axis=1), _tp(*shape))
            sl = SumLayer(k_in, k_out, h, weight=weight)
        elif variant == "mixing":
            factory = partial(P.mixing_weight_factory, param_factory=_tp_factory)
            sl = SumLayer(k_in, k_out, h, weight_factory=factory)
        else:
            sl = SumLayer(k_in, k_out, h)
        return self.add(sl, inputs)

    def product(self, kind, inputs):
        k_in, h = inputs[0].num_output_units, len(inputs)
        cls = HadamardLayer if kind == "hadamard" else KroneckerLayer
        return self.add(cls(k_in, arity=h), inputs)

    def circuit(self, outputs):
        return Circuit(self.layers, self.in_layers, outputs)


def _partition(rng, scope, parts):
    """Random ordered partition of the tuple ``scope`` in ``parts`` non-empty sorted tuples."""
    vs = list(scope)
    rng.shuffle(vs)
    cuts = sorted(rng.sample(range(1, len(vs)), parts - 1))
    blocks = [tuple(sorted(vs[a:b])) for a, b in zip([0] + cuts, cuts + [len(vs)])]
    rng.shuffle(blocks)
    return blocks


class _RandomDag(_Builder):
    """Random tree-ish DAG: region(scope, K) returns a layer over ``scope`` with K units."""

    def __init__(self, *args, product_kinds, allow_shared, **kwargs):
        super().__init__(*args, **kwargs)
        self.product_kinds, self.allow_shared = product_kinds, allow_shared
        self.pool = {}  # (scope, K) -> completed layers over that scope with K units

    def product_over(self, scope, kind, k_child, parts=None):
        parts = parts or self.rng.randint(2, min(3, len(scope)))
        children = [self.region(s, k_child) for s in _partition(self.rng, scope, parts)]
        return self.product(kind, children)

    def region(self, scope, k, *, reuse=True):
        rng, key = self.rng, (scope, k)
        if reuse and self.allow_shared and self.pool.get(key) and rng.random() < 0.35:
            return rng.choice(self.pool[key])
        if len(scope) == 1:
            if self.tight() or rng.random() < 0.5:
                layer = self.input(scope[0], k)
            else:
                k_in = self.units()
                layer = self.sum([self.input(scope[0], k_in) for _ in range(self.arity())], k)
        else:
            kind = rng.choice(self.product_kinds)
            if kind == "hadamard" and (self.tight() or rng.random() < 0.3):
                layer = self.product_over(scope, "hadamard", k)  # a product without a sum on top
            else:
                parts = rng.randint(2, min(3, len(scope)))
                k_child = self.units(2 if kind == "kronecker" and parts == 3 else None)
                h = self.arity()
                # Hadamard products under the same sum may partition the scope differently
                prods = [
                    self.product_over(scope, kind, k_child, parts if kind == "kronecker" else None)
                    for _ in range(h)
                ]
                layer = self.sum(prods, k)
        self.pool.setdefault(key, []).append(layer)
        return layer


def describe(sc) -> dict:
    """A json-able structure signature of a circuit."""
    ids = {sl: i for i, sl in enumerate(sc.layers)}
    layers = []
    for sl in sc.layers:
        entry = {
            "id": ids[sl],
            "type": type(sl).__name__,
            "units": [sl.num_input_units, sl.num_output_units],
            "arity": sl.arity,
            "scope": sorted(sc.layer_scope(sl)),
            "inputs": [ids[i] for i in sc.layer_inputs(sl)],
            "params": {n: [type(m).__name__ for m in p.nodes] for n, p in sl.params.items()},
        }
        for attr in ("num_categories", "num_states", "total_count", "degree"):
            if hasattr(sl, attr):
                entry[attr] = getattr(sl, attr)
        layers.append(entry)
    return {
        "scope": sorted(sc.scope),
        "layers": layers,
        "outputs": [ids[o] for o in sc.outputs],
        "structured_decomposable": bool(sc.is_structured_decomposable),
    }


def _pick_vars(rng, max_vars, var_ids):
    nv = rng.randint(1, max_vars)
    if var_ids is not None:
        return tuple(sorted(rng.sample(list(var_ids), min(nv, len(var_ids)))))
    vs = set(rng.sample(range(13), nv))
    if rng.random() < 0.5:  # make sure that ids >= 8 are frequent
        vs.pop()
        vs.add(rng.randint(8, 12))
        while len(vs) < nv:
            vs.add(rng.randint(0, 12))
    return tuple(sorted(vs))


def _var_tables(rng, vs, kind, base_kinds):
    var_kind = {v: (rng.choice(base_kinds) if kind == "mixed" else kind) for v in vs}
    var_dom = {v: (rng.randint(1, 3) if var_kind[v] == "binomial" else rng.randint(2, 4)) for v in vs}
    return var_kind, var_dom


def gen_circuits(
    seed,
    n,
    *,
    input_kinds=INPUT_KINDS,
    max_vars=3,
    var_ids=None,
    max_units=3,
    max_arity=3,
    max_outputs=2,
    product_kinds=("hadamard", "kronecker"),
    allow_shared=True,
    complex_params=False,
    budget=5,
):
    """Generate n small smooth and decomposable circuits.  The i-th circuit uses the input kind
    input_kinds[i % len(input_kinds)]; the kind 'mixed' draws a kind for each variable.
    Each item is {'circuit': Circuit, 'desc': json-able description, 'kind': input kind}.
    ``budget`` is a soft bound: once that many layers exist, only minimal choices are made."""
    items = []
    base_kinds = [k for k in input_kinds if k != "mixed"] or list(INPUT_KINDS)
    for i in range(n):
        rng = random.Random(1_000_003 * seed + i)
        kind = input_kinds[i % len(input_kinds)]
        vs = _pick_vars(rng, max_vars, var_ids)
        var_kind, var_dom = _var_tables(rng, vs, kind, base_kinds)
        b = _RandomDag(
            rng, var_kind, var_dom, max_units=max_units, max_arity=max_arity,
            complex_params=complex_params, product_kinds=product_kinds, allow_shared=allow_shared,
            budget=budget,
        )
        k_out, outputs = b.units(), []
        for o in range(rng.randint(1, max_outputs)):
            if o > 0 and rng.random() < 0.5:
                # an output that also feeds another (output) layer
                others = [b.region(vs, k_out, reuse=False) for _ in range(rng.randint(0, 1))]
                outputs.append(b.sum([outputs[-1]] + others, k_out))
            else:
                outputs.append(b.region(vs, k_out, reuse=False))
        sc = b.circuit(outputs)
        assert sc.is_smooth and sc.is_decomposable
        desc = dict(describe(sc), kind=kind, seed=seed, index=i)
        items.append({"circuit": sc, "desc": desc, "kind": kind})
    return items


def gen_inputs(sc, B, seed, *, num_cols=None, nonneg=False):
    """(B, max_var_id + 1) valid inputs: ints in the domain of the discrete variables, N(0,1)
    floats for the continuous ones (|N(0,1)| if nonneg); unused columns are zero."""
    rng = np.random.default_rng(seed)
    dom = domains_of(sc)
    ncols = (max(dom) + 1 if dom else 0) if num_cols is None else num_cols
    x = np.zeros((B, ncols), dtype=np.float64)
    for v in sorted(dom):
        if isinstance(dom[v], list):
            x[:, v] = rng.choice(np.asarray(dom[v]), size=B)
        else:
            x[:, v] = np.abs(rng.standard_normal(B)) if nonneg else rng.standard_normal(B)
    if all(isinstance(d, list) for d in dom.values()):
        return x.astype(np.int64)
    return x


# -------------------------------------------------------------------------- compatible pairs


def _template(rng, scope, product_kinds):
    """A region-graph shape: which layer types appear at which position (shared by both sides)."""
    if len(scope) == 1:
        return {"scope": scope, "leaf": True, "has_sum": rng.random() < 0.5}
    kind = rng.choice(product_kinds)
    parts = _partition(rng, scope, rng.randint(2, min(3, len(scope))))
    return {
        "scope": scope,
        "leaf": False,
        "kind": kind,
        "has_sum": kind == "kronecker" or rng.random() < 0.7,
        "parts": [_template(rng, s, product_kinds) for s in parts],
    }


class _Structured(_Builder):
    """Instantiates a template with its own unit counts, sum arities and parameters."""

    def __init__(self, *args, allow_shared=True, **kwargs):
        super().__init__(*args, **kwargs)
        self.allow_shared, self.pool = allow_shared, {}

    def inst(self, t, k, *, reuse=True):
        rng, key = self.rng, (id(t), k)
        if reuse and self.allow_shared and self.pool.get(key) and rng.random() < 0.3:
            return rng.choice(self.pool[key])
        if t["leaf"]:
            (v,) = t["scope"]
            if t["has_sum"]:
                k_in = self.units()
                layer = self.sum([self.input(v, k_in) for _ in range(self.arity())], k)
            else:
                layer = self.input(v, k)
        elif t["has_sum"]:
            big = t["kind"] == "kronecker" and len(t["parts"]) == 3
            k_child = self.units(2 if big else None)
            prods = [
                self.product(t["kind"], [self.inst(c, k_child) for c in t["parts"]])
                for _ in range(self.arity())
            ]
            layer = self.sum(prods, k)
        else:
            layer = self.product(t["kind"], [self.inst(c, k) for c in t["parts"]])
        self.pool.setdefault(key, []).append(layer)
        return layer


def structured_pairs(
    seed,
    n,
    *,
    input_kinds=MULTIPLY_KINDS,
    max_vars=3,
    var_ids=None,
    max_units=3,
    max_arity=3,
    max_outputs=2,
    product_kinds=("hadamard", "kronecker"),
    allow_shared=True,
    complex_params=False,
    budget=4,
):
    """Pairs (c1, c2, desc) of compatible circuits over the same scope with the same hierarchical
    scope partitioning (same layer types at matching positions, product inputs listed in the same
    scope order) but independent parameters, unit counts, sum arities and numbers of outputs."""
    pairs = []
    for i in range(n):
        rng = random.Random(1_000_003 * seed + 7919 + i)
        kind = input_kinds[i % len(input_kinds)]
        vs = _pick_vars(rng, max_vars, var_ids)
        var_kind, var_dom = _var_tables(rng, vs, kind, [k for k in input_kinds if k != "mixed"])
        template = _template(rng, vs, product_kinds)
        circuits = []
        for side in range(2):
            side_kind = dict(var_kind)
            for v in vs:  # a probs-Categorical can be multiplied with a logits-Categorical
                if side == 1 and var_kind[v].startswith("categorical") and rng.random() < 0.3:
                    side_kind[v] = rng.choice(["categorical", "categorical-logits"])
            b = _Structured(
                rng, side_kind, var_dom, max_units=max_units, max_arity=max_arity,
                complex_params=complex_params, allow_shared=allow_shared, budget=budget,
            )
            k_out = b.units()
            outs = [b.inst(template, k_out, reuse=False) for _ in range(rng.randint(1, max_outputs))]
            circuits.append(b.circuit(outs))
        c1, c2 = circuits
        desc = {"kind": kind, "seed": seed, "index": i, "c1": describe(c1), "c2": describe(c2)}
        pairs.append((c1, c2, desc))
    return pairs
