"""Bridge between the numpy reference interpreter (native.refinterp) and compiled torch circuits.

This module (unlike refinterp) uses cirkit.pipeline / cirkit.backend.torch.  All comparisons are
made in float64: the torch default dtype is switched to float64 when this module is imported.
"""

import numpy as np
import torch

torch.set_default_dtype(torch.float64)

# pylint: disable=wrong-import-position
from cirkit.pipeline import PipelineContext
from cirkit.symbolic.circuit import Circuit, pipeline_topological_ordering
from cirkit.symbolic.layers import EvidenceLayer
from cirkit.symbolic.parameters import ReferenceParameter, TensorParameter

SEMIRINGS = ("sum-product", "lse-sum", "complex-lse-sum")


def compile_circuit(sc, *, semiring="sum-product", fold=False, optimize=False, ctx=None):
    """Compile a symbolic circuit (and the pipeline of its operands); returns (ctx, torch_circuit).
    If ``ctx`` is given, the circuit is compiled inside it and the flags are ignored."""
    if ctx is None:
        ctx = PipelineContext(backend="torch", semiring=semiring, fold=fold, optimize=optimize)
    with ctx:
        tc = ctx.compile(sc)
    return ctx, tc


def _layer_parameters(sl):
    yield from sl.params.values()
    if isinstance(sl, EvidenceLayer):
        yield from _layer_parameters(sl.layer)


def all_tensor_parameters(sc) -> list:
    """All the symbolic TensorParameter objects (ConstantParameter included) reachable from the
    circuit(s): through the layer parameters, EvidenceLayer.layer, ReferenceParameter.deref() and
    recursively the operands of derived circuits.  Unique by identity, deterministic order
    (operands first)."""
    roots = [sc] if isinstance(sc, Circuit) else list(sc)
    found, seen = [], set()

    def add(p):
        if id(p) not in seen:
            seen.add(id(p))
            found.append(p)

    for sci in pipeline_topological_ordering(roots):
        for sl in sci.layers:
            for pgraph in _layer_parameters(sl):
                for n in pgraph.nodes:
                    if isinstance(n, TensorParameter):
                        add(n)
                    elif isinstance(n, ReferenceParameter):
                        add(n.deref())
    return found


def _compiled_slot(ctx, p):
    state = ctx._compiler.state  # pylint: disable=protected-access
    if not state.has_compiled_parameter(p):
        return None
    t, fold_idx = state.retrieve_compiled_parameter(p)
    return t._ptensor, fold_idx  # pylint: disable=protected-access


def sync_store_from_compiled(ctx, sc_list, store) -> int:
    """Read the compiled value of every symbolic tensor parameter into the store.
    Returns the number of parameters read."""
    count = 0
    for p in all_tensor_parameters(sc_list):
        slot = _compiled_slot(ctx, p)
        if slot is None:
            continue
        ptensor, fold_idx = slot
        store.set(p, ptensor[fold_idx].detach().cpu().numpy())
        count += 1
    return count


def push_store_to_compiled(ctx, sc_list, store) -> int:
    """Write the store values into the compiled tensors, in place.  Parameters missing from the
    store are drawn by the store (ParamStore.get).  Returns the number of parameters written."""
    count = 0
    with torch.no_grad():
        for p in all_tensor_parameters(sc_list):
            slot = _compiled_slot(ctx, p)
            if slot is None:
                continue
            ptensor, fold_idx = slot
            value = torch.as_tensor(np.asarray(store.get(p)))
            if value.is_complex() and not ptensor.is_complex():
                if float(value.imag.abs().max()) != 0.0:
                    raise ValueError("cannot write a complex value into a real compiled tensor")
                value = value.real
            ptensor[fold_idx].copy_(value.to(ptensor.dtype))
            count += 1
    return count


def _is_continuous(tc) -> bool:
    from cirkit.backend.torch.layers.input import (  # pylint: disable=import-outside-toplevel
        TorchGaussianLayer,
        TorchPolynomialLayer,
    )

    return any(isinstance(l, (TorchGaussianLayer, TorchPolynomialLayer)) for l in tc.layers)


def eval_compiled(tc, x, semiring) -> np.ndarray:
    """Run the torch circuit on x (long dtype if all input layers are discrete, else float) and
    map the result back to LINEAR space.  Returns a (B, O, K) numpy array."""
    x = np.asarray(x)
    nb = x.shape[0]
    with torch.no_grad():
        if len(tc.scope) == 0:
            y = tc()  # (O, K): constant circuit
            y = y.unsqueeze(0).expand(nb, *y.shape)
        elif _is_continuous(tc):
            y = tc(torch.tensor(x.real.astype(np.float64)))
        else:
            y = tc(torch.tensor(x.real.astype(np.int64)))
        if semiring != "sum-product":
            if semiring not in SEMIRINGS:
                raise ValueError(f"unknown semiring {semiring}")
            y = torch.exp(y)
    return y.detach().cpu().numpy()
