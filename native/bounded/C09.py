"""C09 bounded stand-in (engine C, labelled bounded - never counted as proved): operators refuse invalid operands with the
documented exception, and returned circuits keep the promised structure (flags recomputed by an independent set-based oracle)."""
import itertools
import random

import cirkit.symbolic.functional as SF
from cirkit.symbolic.circuit import Circuit, StructuralPropertyError, are_compatible
from cirkit.symbolic.layers import HadamardLayer, InputLayer, KroneckerLayer, SumLayer
from cirkit.utils.scope import Scope
from native import gen
from native.bounded import C08
from native.bounded._common import Checker

BOUND = ("invalid operands: 400 (x5 thorough) random 1-unit DAG specs with univariate inputs over 2..4 variables of ids 0..12 that are not "
         "smooth or not decomposable, and smooth+decomposable pairs over the same variables whose products split a scope differently (every 3rd spec is a random hierarchical-partition circuit over {2,5,11[,12]}); "
         "valid operands: 60 (x4) generated circuits (<= 3 variables, <= 3 units, arity <= 3, <= 2 outputs) for integrate (every non-empty "
         "subset Z) / conjugate / evidence, 24 (x4) polynomial circuits for differentiate (orders 1..2 and invalid orders 0, -1), "
         "50 (x4) compatible pairs + squares for multiply; pairs whose product layers (arity 2-3, Hadamard / Kronecker, 1-2 units) list their inputs in every permuted order")
RULE = "one case = (operand index, operator, argument, clause); distinct by that tuple"


def circ_scopes(c):
    sc = {}
    for sl in c.layers:  # topological
        ins = c.layer_inputs(sl)
        sc[sl] = frozenset(sl.scope) if isinstance(sl, InputLayer) else frozenset().union(*[sc[i] for i in ins]) if ins else frozenset()
    return sc

def circ_flags(c):
    """(smooth, decomposable, splits) recomputed from the layers, independent of Circuit.is_*"""
    sc = circ_scopes(c)
    smooth = all(sc[i] == sc[sl] for sl in c.layers if isinstance(sl, SumLayer) for i in c.layer_inputs(sl))
    dec, sp = True, {}
    for sl in c.layers:
        if isinstance(sl, (HadamardLayer, KroneckerLayer)):
            ins = c.layer_inputs(sl)
            if any(sc[a] & sc[b] for a, b in itertools.combinations(ins, 2)):
                dec = False
            fs = frozenset(sc[i] for i in ins if sc[i])
            if len(fs) > 1:
                sp.setdefault(sc[sl], set()).add(fs)
    return smooth, dec, sp


def univariate_spec(rng, vs):
    while True:
        nodes = C08.gen_spec(rng, vs)
        nodes = [(k, (a[0],) if k == "in" else a) for k, a in nodes]
        return nodes


def run(tier, seed):
    ck = Checker("C09", BOUND, RULE, tier, seed)
    rng = random.Random(9_000 + seed)
    th = tier == "thorough"
    # ---------------- invalid operands
    specs, n_bad = [], 0
    for i in range(400 * (5 if th else 1)):
        vs = sorted(rng.sample(range(13), rng.randint(2, 4))) if i % 2 else [2, 5, 11][: rng.randint(2, 3)]
        specs.append(univariate_spec(rng, vs) if i % 3 else C08.vtree_spec(rng, [2, 5, 11, 12][: rng.randint(3, 4)]))
    for i, nodes in enumerate(specs):
        smooth, dec, sp = C08.oracle(nodes)
        case = {"spec": i, "seed": seed, "nodes": nodes}
        if smooth and dec:
            continue
        n_bad += 1
        c = C08.build(nodes)
        ck.raises("integrate_refuses_not_smooth_dec", case, lambda: SF.integrate(c), (StructuralPropertyError,))
        ck.raises("differentiate_refuses_not_smooth_dec", case, lambda: SF.differentiate(c), (StructuralPropertyError,))
        ck.raises("multiply_refuses_not_smooth_dec", case, lambda: SF.multiply(c, C08.build(nodes)), (StructuralPropertyError,))
    good = [(i, s) for i, s in enumerate(specs) if all(C08.oracle(s)[:2])]
    byv = {}
    for i, s in good:
        byv.setdefault(frozenset().union(*[C08.scope_of(s, j) for j in range(len(s))]), []).append((i, s))
    for allv, lst in sorted(byv.items(), key=lambda kv: sorted(kv[0])):
        for (i, a), (j, b) in itertools.islice(itertools.combinations(lst, 2), 60):
            ca, cb = C08.build(a), C08.build(b)
            if ca.scope != cb.scope:
                ck.raises("multiply_refuses_different_scope", {"pair": [i, j], "seed": seed, "a": a, "b": b}, lambda: SF.multiply(ca, cb), (NotImplementedError,))
                continue
            if not C08.same_split_everywhere(C08.splits(a), C08.splits(b)):
                ck.raises("multiply_refuses_incompatible", {"pair": [i, j], "seed": seed, "a": a, "b": b}, lambda: SF.multiply(ca, cb), (StructuralPropertyError,))
    ck.res.count("invalid_specs", n_bad)
    # ---------------- argument validation + result structure on valid operands
    items = gen.gen_circuits(91 + 1000 * seed, 60 * (4 if th else 1), input_kinds=("categorical", "categorical-logits", "gaussian", "embedding", "mixed"))
    for it in items:
        sc, d = it["circuit"], it["desc"]
        base = {"circuit": d["index"], "seed": d["seed"], "kind": d["kind"]}
        scope = sorted(sc.scope)
        outside = next(v for v in range(40) if v not in scope)
        ck.raises("integrate_refuses_empty_scope", base, lambda: SF.integrate(sc, Scope([])), (ValueError,))
        ck.raises("integrate_refuses_outside_scope", dict(base, Z=[outside]), lambda: SF.integrate(sc, Scope([scope[0], outside])), (ValueError,))
        ck.raises("evidence_refuses_empty", base, lambda: SF.evidence(sc, {}), (ValueError,))
        ck.raises("evidence_refuses_outside_scope", dict(base, obs=[outside]), lambda: SF.evidence(sc, {outside: 0}), (ValueError,))
        s0, d0, sp0 = circ_flags(sc)
        for r in range(1, len(scope) + 1):
            for zs in itertools.combinations(scope, r):
                case = dict(base, Z=list(zs))

                def go():
                    isc = SF.integrate(sc, Scope(zs))
                    s, dd, _ = circ_flags(isc)
                    ck.true("integrate_result_smooth_dec", case, s and dd and isc.is_smooth and isc.is_decomposable, f"smooth={s} dec={dd}")
                    ck.true("integrate_result_scope", case, set(isc.scope) == set(scope) - set(zs), f"scope {sorted(isc.scope)}")
                    ck.true("integrate_result_outputs", case, len(list(isc.outputs)) == len(list(sc.outputs)), "number of outputs", nontrivial=False)
                ck.guarded("integrate_result", case, go)

        def goc():
            csc = SF.conjugate(sc)
            ck.true("conjugate_keeps_flags", base, csc.properties == sc.properties and circ_flags(csc)[:2] == (s0, d0)
                    and set(csc.scope) == set(scope) and len(list(csc.outputs)) == len(list(sc.outputs)), f"{csc.properties} vs {sc.properties}")
        ck.guarded("conjugate_keeps_flags", base, goc)
    for it in gen.gen_circuits(92 + 1000 * seed, 24 * (4 if th else 1), input_kinds=("polynomial",), max_units=2):
        sc, d = it["circuit"], it["desc"]
        base = {"circuit": d["index"], "seed": d["seed"], "kind": "polynomial"}
        for order in (0, -1):
            ck.raises("differentiate_refuses_nonpositive_order", dict(base, order=order), lambda: SF.differentiate(sc, order=order), (ValueError,))
        for order in (1, 2):
            case = dict(base, order=order)

            def god():
                dsc = SF.differentiate(sc, order=order)
                s, dd, _ = circ_flags(dsc)
                scs = circ_scopes(sc)
                expect = sum(len(scs[o]) + 1 for o in sc.outputs)
                ck.true("differentiate_result_smooth_dec", case, s and dd and dsc.is_smooth and dsc.is_decomposable, f"smooth={s} dec={dd}")
                ck.true("differentiate_result_outputs", case, len(list(dsc.outputs)) == expect, f"{len(list(dsc.outputs))} outputs, expected {expect}")
                ck.true("differentiate_result_scope", case, set(dsc.scope) == set(sc.scope), f"scope {sorted(dsc.scope)}", nontrivial=False)
            ck.guarded("differentiate_result", case, god)
    pairs = [(c1, c2, d) for c1, c2, d in gen.structured_pairs(93 + 1000 * seed, 80 * (4 if th else 1)) if len(c1.layers) * len(c2.layers) <= 300][: 50 * (4 if th else 1)]
    for n, (c1, c2, d) in enumerate(pairs):
        case = {"pair": n, "seed": d["seed"], "index": d["index"], "kind": d["kind"]}

        def gom():
            try:
                p = SF.multiply(c1, c2)
            except Exception as e:  # a refusal is allowed by the property
                ck.res.count(f"multiply refused ({type(e).__name__})")
                return
            s, dd, sp = circ_flags(p)
            ck.true("multiply_result_smooth_dec", case, s and dd and p.is_smooth and p.is_decomposable, f"smooth={s} dec={dd}")
            ck.true("multiply_result_outputs", case, len(list(p.outputs)) == len(list(c1.outputs)) * len(list(c2.outputs)), "number of outputs")
            ck.true("multiply_result_scope", case, set(p.scope) == set(c1.scope), f"scope {sorted(p.scope)}", nontrivial=False)
            _, _, sp1 = circ_flags(c1)
            _, _, sp2 = circ_flags(c2)
            if C08.same_split_everywhere(sp1) and C08.same_split_everywhere(sp2) and c1.is_structured_decomposable and c2.is_structured_decomposable:
                ck.true("multiply_result_structured_dec", case, C08.same_split_everywhere(sp, sp1, sp2) and p.is_structured_decomposable
                        and are_compatible(p, c1) and are_compatible(p, c2) and are_compatible(c1, p),
                        f"product not structured-decomposable / not compatible with its operands: splits {sp}")
        ck.guarded("multiply_result", case, gom)
    # compatible operands whose product layers list their inputs in DIFFERENT orders (every permutation of arity 2 and 3, Hadamard and Kronecker):
    # multiply must refuse or return a smooth and decomposable product
    from cirkit.symbolic.circuit import Circuit as _Circuit
    from cirkit.symbolic import layers as _L
    from cirkit.utils.scope import Scope as _Scope
    for arity, prod, K in [(a, pk, k) for a in (2, 3) for pk in (_L.HadamardLayer, _L.KroneckerLayer) for k in (1, 2)]:
        vs = [2, 5, 11][:arity]
        for perm in itertools.permutations(range(arity)):
            case = {"permuted_product_inputs": list(perm), "arity": arity, "product": prod.__name__, "units": K}

            def build(order):
                ins = [_L.CategoricalLayer(_Scope([vs[j]]), K, num_categories=2) for j in order]
                h = prod(K, arity=arity)
                s_ = _L.SumLayer(h.num_output_units, 1, arity=1)
                return _Circuit(ins + [h, s_], {h: ins, s_: [h]}, [s_])

            def gop():
                c1, c2 = build(range(arity)), build(perm)
                try:
                    p = SF.multiply(c1, c2)
                except Exception as e:  # a refusal is allowed by the property
                    ck.res.count(f"multiply of permuted inputs refused ({type(e).__name__})")
                    return
                s, dd, sp = circ_flags(p)
                ck.true("multiply_permuted_result_smooth_dec", case, s and dd and p.is_smooth and p.is_decomposable, f"smooth={s} dec={dd}")
            ck.guarded("multiply_permuted", case, gop)
    return ck.res
