"""C17 bounded stand-in (engine C, labelled bounded - never counted as proved): after compilation and after every reset, the slice
of the compiled tensor that represents a symbolic tensor parameter follows that parameter's own initialiser, whatever the folding."""
import itertools

import numpy as np
import torch

from cirkit.pipeline import PipelineContext
from cirkit.symbolic import parameters as P
from cirkit.symbolic.circuit import Circuit
from cirkit.symbolic.dtypes import DataType
from cirkit.symbolic.initializers import ConstantTensorInitializer, DirichletInitializer, NormalInitializer, UniformInitializer
from cirkit.symbolic.layers import CategoricalLayer, EmbeddingLayer, HadamardLayer, SumLayer
from cirkit.utils.scope import Scope
from native import bridge
from native.bounded._common import FLAGS, Checker

BOUND = ("circuits made of G in 1..4 same-shape embedding layers (so that they fold into one tensor when fold=True) feeding a Hadamard (or a single "
         "layer), weight shapes (K, N) with K in 1..3, N in 2..4, one initialiser per layer drawn from: constant scalar, constant ndarray, "
         "uniform(a, b), normal(mean, stddev), dirichlet(alpha, axis in {-2, -1, 0, 1}); learnable and non-learnable parameters; real and complex "
         "dtypes for constants/normal; four (fold, optimize) settings; checked after compile and after 2 resets, every stored tensor being overwritten with -7.25 before each reset; 120 (x4 thorough) circuits; rank-3 "
         "parameters (Dirichlet on every axis) through dirichlet_-initialised sum weights reshaped by an IndexParameter are NOT covered (cirkit layers use rank <= 2)")
RULE = "one case = (circuit index, fold, optimize, layer position, initialiser, stage); distinct by that tuple; all non-trivial"


def _mk_init(rng, shape):
    kind = rng.choice(["const", "array", "uniform", "normal", "dirichlet"])
    if kind == "const":
        v = float(rng.normal())
        return {"kind": kind, "value": v}, ConstantTensorInitializer(v)
    if kind == "array":
        arr = rng.normal(size=shape)
        return {"kind": kind, "value": arr.tolist()}, ConstantTensorInitializer(arr)
    if kind == "uniform":
        a = float(rng.normal())
        b = a + float(rng.uniform(0.1, 2.0))
        return {"kind": kind, "a": a, "b": b}, UniformInitializer(a, b)
    if kind == "normal":
        m, s = float(rng.normal() * 3), float(rng.uniform(0.01, 0.2))
        return {"kind": kind, "mean": m, "stddev": s}, NormalInitializer(m, s)
    axis = int(rng.choice([-2, -1, 0, 1]))
    return {"kind": kind, "axis": axis}, DirichletInitializer(float(rng.uniform(0.5, 2.0)), axis=axis)


def _verify(ck, case, desc, val, shape, requires_grad, learnable):
    val = np.asarray(val)
    ck.true("slice_shape", case, tuple(val.shape) == tuple(shape), f"slice shape {val.shape} vs {shape}", nontrivial=False)
    k = desc["kind"]
    if k == "const":
        ck.true("constant_exact", case, bool(np.all(val == np.float64(desc["value"]))), f"{val.ravel()[:3]} vs {desc['value']}")
    elif k == "array":
        ck.true("array_exact", case, bool(np.array_equal(val, np.asarray(desc["value"]))), f"{val.ravel()[:3]}")
    elif k == "uniform":
        ck.true("uniform_bounds", case, bool(np.all(val >= desc["a"]) and np.all(val <= desc["b"])), f"min {val.min()} max {val.max()} not in [{desc['a']}, {desc['b']}]")
    elif k == "normal":
        ck.true("normal_moments", case, bool(np.all(np.abs(val - desc["mean"]) <= 8 * desc["stddev"])), f"values {val.ravel()[:3]} further than 8 sigma from {desc['mean']}")
    else:
        ax = desc["axis"]
        s = val.sum(axis=ax)
        ck.true("dirichlet_sums_to_one_on_axis", case, bool(np.allclose(s, 1.0, atol=1e-9) and np.all(val >= 0)), f"sums along axis {ax}: {s.ravel()[:4]}")
        other = val.sum(axis=1 - (ax % 2))
        if val.shape[0] > 1 and val.shape[1] > 1 and val.shape[0] != val.shape[1]:
            ck.true("dirichlet_not_on_other_axis", case, not np.allclose(other, 1.0, atol=1e-6), "sums to one along the other axis", nontrivial=False)
    ck.true("requires_grad==learnable", case, bool(requires_grad) == bool(learnable), f"requires_grad={requires_grad} learnable={learnable}")


def run(tier, seed):
    ck = Checker("C17", BOUND, RULE, tier, seed)
    rng = np.random.default_rng(17_000 + seed)
    for n in range(120 * (4 if tier == "thorough" else 1)):
        G, K, N = int(rng.integers(1, 5)), int(rng.integers(1, 4)), int(rng.integers(2, 5))
        learnable = bool(rng.random() < 0.7)
        descs, layers, tps = [], [], []
        for g in range(G):
            desc, init = _mk_init(rng, (K, N))
            tp = P.TensorParameter(K, N, initializer=init, learnable=learnable)
            layers.append(EmbeddingLayer(Scope([2 * g + 1]), K, num_states=N, weight=P.Parameter.from_input(tp)))
            descs.append(desc)
            tps.append(tp)
        if G > 1:
            h = HadamardLayer(K, arity=G)
            sc = Circuit([*layers, h], {h: layers}, [h])
        else:
            sc = Circuit(layers, {}, layers)
        fold, opt = FLAGS[n % 4]
        base = {"circuit": n, "seed": seed, "G": G, "shape": [K, N], "fold": fold, "optimize": opt, "learnable": learnable}

        def go():
            torch.manual_seed(n + 31 * seed)
            ctx = PipelineContext(backend="torch", semiring="sum-product", fold=fold, optimize=opt)
            tc = ctx.compile(sc)
            slots = set()
            for stage in ("compiled", "reset1", "reset2"):
                if stage != "compiled":
                    with torch.no_grad():          # "training": every stored tensor is overwritten with values no initialiser produces
                        for tp in tps:
                            t0, _ = ctx._compiler.state.retrieve_compiled_parameter(tp)  # pylint: disable=protected-access
                            t0._ptensor.fill_(-7.25)  # pylint: disable=protected-access
                    tc.reset_parameters()
                for g, (tp, desc) in enumerate(zip(tps, descs)):
                    t, fi = ctx._compiler.state.retrieve_compiled_parameter(tp)  # pylint: disable=protected-access
                    pt = t._ptensor  # pylint: disable=protected-access
                    case = dict(base, layer=g, init={k: v for k, v in desc.items() if k != "value"}, stage=stage)
                    ck.true("fold_index_in_range", case, 0 <= fi < pt.shape[0], f"fold index {fi} outside {pt.shape[0]} folds", nontrivial=False)
                    if stage == "compiled":
                        ck.true("one_slice_per_parameter", case, (id(t), fi) not in slots, "two symbolic parameters share a slice")
                        slots.add((id(t), fi))
                    _verify(ck, case, desc, pt[fi].detach().cpu().numpy(), (K, N), pt.requires_grad, learnable)
            if fold and G > 1:
                ck.res.count("folded tensors with > 1 slice", int(any(ctx._compiler.state.retrieve_compiled_parameter(tp)[0]._ptensor.shape[0] > 1 for tp in tps)))
        ck.guarded("initialise", base, go)
    return ck.res
