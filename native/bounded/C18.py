"""C18 bounded stand-in (engine C, labelled bounded - never counted as proved): compiler registry and pipeline context coherence
over generated call histories (compile / re-compile / operator wrappers / nested and sequential contexts / exceptional exits)."""
import random

import torch

import cirkit.pipeline as PL
import cirkit.symbolic.functional as SF
from cirkit.pipeline import PipelineContext
from cirkit.symbolic.circuit import pipeline_topological_ordering
from cirkit.symbolic.registry import OPERATOR_REGISTRY
from native import gen
from native.bounded._common import FLAGS, Checker

BOUND = ("registry: 24 (x4 thorough) generated circuits x flags rotating, operator chains of length <= 3 (integrate, conjugate, multiply(c,c), "
         "differentiate) applied through PipelineContext methods and through the module-level wrappers; context histories: 300 (x5) random well-bracketed "
         "programs of depth <= 4 and length <= 8 over distinct context objects (sequential re-use of an exited context included), each block may raise; "
         "operator chains for the operand-before-derived order, plus triangle pipelines multiply(A, conj(A)) / multiply(conj(A), A) compiled directly in a fresh context")
RULE = "one case = (history or circuit index, clause); distinct by the generated program"


class Boom(Exception):
    pass


def _active():
    return PL._PIPELINE_CONTEXT.get()  # pylint: disable=protected-access


def run_program(rng, ck, depth, case, log):
    """runs a random bracketed program; after every block the active context / operator registry must be the ones before it"""
    for _ in range(rng.randint(1, 3)):
        before_ctx, before_reg = _active(), OPERATOR_REGISTRY.get()
        ctx = PipelineContext(backend="torch", semiring=rng.choice(["sum-product", "lse-sum"]), fold=rng.random() < 0.5, optimize=rng.random() < 0.5)
        boom = rng.random() < 0.3
        reuse = rng.random() < 0.3
        log.append(("enter", depth, boom))
        for attempt in range(2 if reuse else 1):
            try:
                with ctx as c:
                    ck.true("enter_activates", dict(case, at=len(log)), _active() is ctx and c is ctx, "the entered context is not the active one", nontrivial=depth > 0)
                    if depth < 3 and rng.random() < 0.6:
                        run_program(rng, ck, depth + 1, case, log)
                        ck.true("inner_blocks_restore", dict(case, at=len(log)), _active() is ctx, "after inner blocks the active context is not the enclosing one")
                    if boom:
                        raise Boom()
            except Boom:
                pass
            ck.true("exit_restores_context", dict(case, at=len(log), exceptional=boom, attempt=attempt), _active() is before_ctx, "previous context not restored")
            ck.true("exit_restores_operator_registry", dict(case, at=len(log), exceptional=boom, attempt=attempt), OPERATOR_REGISTRY.get() is before_reg,
                    "previous operator registry not restored")


def run(tier, seed):
    ck = Checker("C18", BOUND, RULE, tier, seed)
    th = tier == "thorough"
    rng = random.Random(18_000 + seed)
    for h in range(300 * (5 if th else 1)):
        case = {"history": h, "seed": seed}
        log = []
        root_ctx, root_reg = _active(), OPERATOR_REGISTRY.get()
        ck.guarded("context_history", case, lambda: run_program(rng, ck, 0, case, log))
        ck.true("history_restores_root", dict(case, blocks=len(log)), _active() is root_ctx and OPERATOR_REGISTRY.get() is root_reg, "root context not restored")
    # ---------------- registry
    items = gen.gen_circuits(181 + 1000 * seed, 24 * (4 if th else 1), input_kinds=("categorical", "gaussian", "embedding", "polynomial"), budget=4)
    for n, it in enumerate(items):
        sc, d = it["circuit"], it["desc"]
        fold, opt = FLAGS[n % 4]
        base = {"circuit": d["index"], "seed": d["seed"], "kind": d["kind"], "fold": fold, "optimize": opt}

        def go():
            ctx = PipelineContext(backend="torch", semiring="sum-product", fold=fold, optimize=opt)
            ck.true("not_compiled_before", base, not ctx.is_compiled(sc), "is_compiled before compile", nontrivial=False)
            tc = ctx.compile(sc)
            ck.true("compile_memoised", base, ctx.compile(sc) is tc and ctx[sc] is tc and PL.compile(sc, ctx) is tc, "second compile returned another object")
            ck.true("bijection", base, ctx.is_compiled(sc) and ctx.has_symbolic(tc) and ctx.get_compiled_circuit(sc) is tc and ctx.get_symbolic_circuit(tc) is sc,
                    "symbolic/compiled association not queryable in both directions")
            ops = []
            if d["kind"] != "polynomial":
                ops.append(("integrate", lambda c: ctx.integrate(c), lambda c: PL.integrate(c, ctx=ctx)))
            ops.append(("conjugate", lambda c: ctx.conjugate(c), lambda c: PL.conjugate(c, ctx=ctx)))
            if d["kind"] == "polynomial":
                ops.append(("differentiate", lambda c: ctx.differentiate(c), lambda c: PL.differentiate(c, ctx=ctx)))
            if sc.is_structured_decomposable and len(sc.layers) <= 10:
                ops.append(("multiply", lambda c: ctx.multiply(c, c), lambda c: PL.multiply(c, c, ctx=ctx)))
            cur, compiled = tc, [tc]
            for name, meth, wrap in ops[: 3]:
                case = dict(base, op=name)
                try:
                    r = meth(cur) if (n + len(compiled)) % 2 else wrap(cur)
                except (NotImplementedError, AssertionError, Exception) as e:  # refusal of the symbolic operator
                    ck.res.count(f"{name} refused ({type(e).__name__})")
                    continue
                rs = ctx.get_symbolic_circuit(r)
                opd = rs.operation
                ck.true("wrapper_returns_compilation_of_symbolic_result", case,
                        opd is not None and all(o is ctx.get_symbolic_circuit(cur) for o in opd.operands) and ctx.get_compiled_circuit(rs) is r and ctx.compile(rs) is r,
                        "result is not the registered compilation of the symbolic operator result")
                compiled.append(r)
                if name in ("conjugate",):
                    cur = r
            symb = [ctx.get_symbolic_circuit(c) for c in compiled]
            ck.true("association_is_injective", base, len({id(s) for s in symb}) == len(symb) == len({id(c) for c in compiled}), "two compiled circuits share a symbolic circuit")
            # a fresh context compiling only the last derived circuit compiles each operand exactly once, operands first
            ctx2 = PipelineContext(backend="torch", semiring="sum-product", fold=fold, optimize=opt)
            last = symb[-1]
            order = list(pipeline_topological_ordering([last]))
            pos = {id(s): i for i, s in enumerate(order)}
            ck.true("operands_before_derived", base, len(pos) == len(order) and all(pos[id(o)] < pos[id(s)] for s in order if s.operation is not None for o in s.operation.operands),
                    "pipeline order lists a derived circuit before an operand or a circuit twice")
            t2 = ctx2.compile(last)
            ck.true("operands_compiled_once", base, all(ctx2.is_compiled(s) for s in order) and ctx2.compile(last) is t2
                    and all(ctx2.compile(s) is ctx2.get_compiled_circuit(s) for s in order), "an operand was not registered / re-compiled")
        ck.guarded("registry", base, go)
    # ---------------- pipelines that are not chains: a circuit that is an operand of the root AND of another operand of the root
    for n, it in enumerate(items[:8]):
        sc, d = it["circuit"], it["desc"]
        if not sc.is_structured_decomposable:
            continue
        fold, opt = FLAGS[n % 4]
        base = {"circuit": d["index"], "seed": d["seed"], "kind": d["kind"], "fold": fold, "optimize": opt, "pipeline": "triangle"}

        def go3():
            try:
                cj = SF.conjugate(sc)
                roots = [SF.multiply(sc, cj), SF.multiply(cj, sc)]
            except Exception as e:  # a refusal of the symbolic operator is not the subject here
                ck.res.count(f"triangle not buildable ({type(e).__name__})")
                return
            for which, root in enumerate(roots):
                case = dict(base, root_operands="A,conj(A)" if which == 0 else "conj(A),A")
                order = list(pipeline_topological_ordering([root]))
                pos = {id(s): i for i, s in enumerate(order)}
                ck.true("operands_before_derived", case, len(pos) == len(order) == 3 and all(pos[id(o)] < pos[id(s)] for s in order if s.operation is not None for o in s.operation.operands),
                        "pipeline order lists a derived circuit before an operand, or a circuit twice")
                ctx3 = PipelineContext(backend="torch", semiring="complex-lse-sum" if d["kind"] in ("embedding", "polynomial") else "sum-product", fold=fold, optimize=opt)
                t3 = ctx3.compile(root)                      # compiled directly: the operands are compiled on the way, operands first
                ck.true("operands_compiled_once", case, all(ctx3.is_compiled(s) for s in order) and ctx3.compile(root) is t3, "an operand was not registered / re-compiled")
        ck.guarded("registry_triangle", base, go3)
    return ck.res
