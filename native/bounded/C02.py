"""C02 bounded stand-in (engine C, labelled bounded - never counted as proved): the four (fold, optimize) compilations agree once every symbolic tensor parameter holds the same values, written through the compiler registry slice of each parameter"""
from native import selftest_refinterp as ST
from native.bounded._common import run_sections

BOUND = "generated smooth+decomposable circuits: <= 3 variables with ids in 0..12 (ids >= 8 frequent), <= 3 units, sum arity <= 3, <= 2 outputs (outputs may feed other layers), Hadamard and Kronecker products, shared sub-circuits, layer budget ~5; 98 circuits (x4 thorough) x (fold, optimize) in sum-product with one parameter store pushed into every variant through retrieve_compiled_parameter; 31 parameter graphs x 4 flags"
RULE = "one case = (circuit index or parameter graph, fold, optimize); each is compared with the flag-independent reference value, so any two flag settings agree; distinct by that tuple"


def run(tier, seed):
    return run_sections("C02", [ST.section_a, ST.section_b], {"A-tied", "B"}, BOUND, RULE, tier, seed)
