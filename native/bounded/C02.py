"""C02 bounded stand-in (engine C, labelled bounded - never counted as proved): the four (fold, optimize) compilations agree once every symbolic tensor parameter holds the same values, written through the compiler registry slice of each parameter"""
from native import selftest_refinterp as ST
from native.bounded._common import run_sections

BOUND = "generated smooth+decomposable circuits: <= 3 variables with ids in 0..12 (ids >= 8 frequent), <= 3 units, sum arity <= 3, <= 2 outputs (outputs may feed other layers), Hadamard and Kronecker products, shared sub-circuits, layer budget ~5; 98 circuits (x4 thorough) x (fold, optimize) in sum-product with one parameter store pushed into every variant through retrieve_compiled_parameter; 31 parameter graphs x 4 flags; pattern prioritisation + graph rewriting: every set of candidate interval matches (length 1..3) on line graphs of <= 4 (5 thorough) modules"
RULE = "one case = (circuit index or parameter graph, fold, optimize); each is compared with the flag-independent reference value, so any two flag settings agree; distinct by that tuple"


def run(tier, seed):
    res = run_sections("C02", [ST.section_a, ST.section_b], {"A-tied", "B"}, BOUND, RULE, tier, seed)
    _prioritisation_section(res, tier, seed)
    return res


def _prioritisation_section(res, tier, seed):
    """match_optimization_patterns / _prioritize_optimization_strategy on line graphs m0 -> m1 -> ... (every interval is an exclusive chain):
    EVERY set of candidate interval matches of length 1..3 over n <= 4 modules (5 thorough), outputs = the top module or the top two;
    the selected matches must be candidates, pairwise disjoint, every entry of a selected match must map to it, no module maps to an
    unselected match, and no inner entry of a selected match is an output; then optimize_graph with single-module replacements must
    return a well-formed line graph whose modules compose to the original function (uninterpreted symbols, structural comparison)."""
    import itertools
    import json
    from cirkit.backend.torch.graph import optimize as GO
    from native.bounded._common import Checker
    ck = Checker("C02", BOUND, RULE, tier, seed)
    ck.res = res
    nmax = 5 if tier == "thorough" else 4
    for n in range(1, nmax + 1):
        mods = [type("M", (), {"__repr__": lambda self, i=i: f"m{i}"})() for i in range(n)]
        inc = lambda m: [mods[mods.index(m) - 1]] if mods.index(m) > 0 else []
        outc = lambda m: [mods[mods.index(m) + 1]] if mods.index(m) + 1 < n else []
        intervals = [(lo, ln) for ln in (1, 2, 3) for lo in range(n - ln + 1)]
        for r in range(0, len(intervals) + 1):
            for cand in itertools.combinations(intervals, r):
                for nouts in ((1, 2) if n >= 2 else (1,)):
                    outputs = mods[n - nouts:][::-1]
                    case = {"section": "prioritisation", "modules": n, "candidates": [list(c) for c in cand], "outputs": nouts}
                    pats = {}
                    for lo, ln in cand:
                        pats[(lo, ln)] = type(f"P{lo}_{ln}", (GO.GraphOptPatternDefn,), {"entries": classmethod(lambda cls: []), "is_output": classmethod(lambda cls: False)})

                    def matcher(m, pattern, *, incomings_fn, outcomings_fn):
                        for (lo, ln), p in pats.items():
                            if p is pattern and mods.index(m) == lo + ln - 1:
                                return GO.GraphOptMatch(pattern, [mods[lo + ln - 1 - j] for j in range(ln)])
                        return None

                    def go():
                        matches, mm = GO.match_optimization_patterns(mods, outputs, list(pats.values()), incomings_fn=inc, outcomings_fn=outc, pattern_matcher_fn=matcher)
                        ok = all(any(m.pattern is p for p in pats.values()) for m in matches)
                        ents = [id(e) for m in matches for e in m.entries]
                        ok = ok and len(ents) == len(set(ents))
                        ok = ok and all(mm.get(e) is m for m in matches for e in m.entries)
                        ok = ok and all(any(v is m for m in matches) for v in mm.values())
                        ok = ok and not any(e is o for m in matches for e in m.entries[1:] for o in outputs)
                        ck.true("prioritised_matches_are_disjoint_consistent_chains", case, ok, f"selected {[[repr(e) for e in m.entries] for m in matches]}")
                        if not ok:
                            return
                        comp = {}

                        def optimizer(match):
                            o = type("O", (), {})()
                            comp[id(o)] = [repr(e) for e in reversed(match.entries)]
                            keep.append(o)
                            return (o,)
                        keep = []
                        out = GO.optimize_graph(mods, outputs, list(pats.values()), incomings_fn=inc, outcomings_fn=outc, pattern_matcher_fn=matcher, match_optimizer_fn=optimizer)
                        if out is None:
                            ck.true("none_only_without_matches", case, not matches)
                            return
                        new_mods, new_in, new_outs = out
                        # denotation as nested tuples of module names; a replacement denotes the composition of its match's entries
                        name = {id(m): repr(m) for m in mods}

                        def den(x):
                            args = tuple(den(i) for i in new_in[x])
                            if id(x) in comp:
                                v = args
                                for nm in comp[id(x)]:
                                    v = ((nm,) + tuple(v)) if not isinstance(v, tuple) or not v or not isinstance(v[0], str) else (nm, v)
                                return v
                            return (name[id(x)],) + args

                        def ref(i):
                            return (repr(mods[i]),) + ((ref(i - 1),) if i > 0 else ())
                        ck.true("rewritten_line_graph_denotes_the_same_composition", case, [den(o) for o in new_outs] == [ref(mods.index(o)) for o in outputs],
                                f"got {[den(o) for o in new_outs]}")
                    ck.guarded("prioritisation", case, go)
