"""C16 bounded stand-in (engine C, labelled bounded - never counted as proved): every region-graph algorithm over its argument
space at small sizes: independent validation, structured-decomposability flag against its set definition, dump/load round trip,
build_circuit with the three layer abstractions and with explicit factories."""
import itertools
import os
import tempfile

import numpy as np
import torch

from cirkit.symbolic.layers import CategoricalLayer, HadamardLayer, KroneckerLayer, SumLayer
from cirkit.templates.region_graph import (ChowLiuTree, FullyFactorized, LinearTree, PoonDomingos, QuadGraph, QuadTree,
                                           RandomBinaryTree, RegionGraph)
from cirkit.templates.region_graph.graph import PartitionNode, RegionNode
from native.bounded import C09
from native.bounded import C08
from native.bounded._common import Checker

BOUND = ("RandomBinaryTree n in 1..7 (9 thorough) x depth in {None, 0..3} x repetitions 1..3 x seeds 0..2; LinearTree n in 1..6 x repetitions 1..2 x "
         "{identity, reversed, randomized} ordering; FullyFactorized n in 1..5 x repetitions 1..3; QuadTree / QuadGraph shapes (c,h,w) with c in 1..2, "
         "h,w in 1..4 (QuadTree splits 2 and 4); PoonDomingos shapes up to (1,4,4) x delta in {1, 2, [1,2]} x max_depth {None, 1}; ChowLiuTree on seeded "
         "categorical data with 3..6 features x roots; build_circuit: {cp, cp-t, tucker} and explicit (SumLayer, Hadamard|Kronecker) factories, "
         "num_input_units 2, num_sum_units 2..3 (2 for cp-t / tucker, which refuse inputs of different sizes), num_classes 1..3")
RULE = "one case = (algorithm, arguments, clause); distinct by that tuple; non-trivial when the graph has at least one partition"


def graphs(tier):
    th = tier == "thorough"
    for n in range(1, 10 if th else 8):
        for depth, reps, seed in itertools.product([None, 0, 1, 2, 3], [1, 2, 3], [0, 1, 2]):
            if depth is not None and 2 ** depth > n:
                continue
            yield ("RandomBinaryTree", {"n": n, "depth": depth, "reps": reps, "seed": seed}, lambda n=n, depth=depth, reps=reps, seed=seed: RandomBinaryTree(n, depth=depth, num_repetitions=reps, seed=seed))
    for n, reps, mode in itertools.product(range(1, 7), [1, 2], ["id", "rev", "rand"]):
        kw = {"ordering": list(range(n))[::-1]} if mode == "rev" else {"randomize": True, "seed": n} if mode == "rand" else {}
        yield ("LinearTree", {"n": n, "reps": reps, "mode": mode}, lambda n=n, reps=reps, kw=kw: LinearTree(n, num_repetitions=reps, **kw))
    for n, reps in itertools.product(range(1, 6), [1, 2, 3]):
        yield ("FullyFactorized", {"n": n, "reps": reps}, lambda n=n, reps=reps: FullyFactorized(n, num_repetitions=reps))
    for c, h, w in itertools.product([1, 2], range(1, 5), range(1, 5)):
        for sp in (2, 4):
            yield ("QuadTree", {"shape": [c, h, w], "splits": sp}, lambda c=c, h=h, w=w, sp=sp: QuadTree((c, h, w), num_patch_splits=sp))
        yield ("QuadGraph", {"shape": [c, h, w]}, lambda c=c, h=h, w=w: QuadGraph((c, h, w)))
    for (c, h, w), delta, md in itertools.product([(1, 1, 1), (1, 2, 2), (1, 2, 3), (1, 4, 4), (2, 2, 2), (1, 3, 1)], [1, 2, [1, 2]], [None, 1]):
        yield ("PoonDomingos", {"shape": [c, h, w], "delta": delta, "max_depth": md}, lambda c=c, h=h, w=w, delta=delta, md=md: PoonDomingos((c, h, w), delta=delta, max_depth=md))
    for nf, root, seed in itertools.product([3, 4, 6], [None, 0, 2], [0, 1]):
        def mk(nf=nf, root=root, seed=seed):
            g = torch.Generator().manual_seed(seed)
            data = torch.randint(0, 3, (40, nf), generator=g)
            data[:, 1] = (data[:, 0] + (torch.rand(40, generator=g) < 0.2).long()) % 3
            return ChowLiuTree(data, input_type="categorical", root=root, num_categories=3)
        yield ("ChowLiuTree", {"features": nf, "root": root, "seed": seed}, mk)


def validate(rg, nvars=None):
    """independent structural validation; returns (ok, message, sd_by_definition)"""
    nodes = list(rg.nodes)
    regions = [n for n in nodes if isinstance(n, RegionNode)]
    parts = [n for n in nodes if isinstance(n, PartitionNode)]
    roots = list(rg.outputs)
    if not roots:
        return False, "no root", None
    allv = frozenset().union(*[frozenset(r.scope) for r in regions])
    for r in roots:
        if frozenset(r.scope) != allv:
            return False, f"root {sorted(r.scope)} does not cover {sorted(allv)}", None
    if nvars is not None and allv != frozenset(range(nvars)):
        return False, f"variables {sorted(allv)} instead of 0..{nvars - 1}", None
    for p in parts:
        ins = list(rg.partition_inputs(p))
        if len(ins) < 1:
            return False, "partition without inputs", None
        ss = [frozenset(i.scope) for i in ins]
        if any(not s for s in ss):
            return False, "empty region in a partition", None
        if sum(len(s) for s in ss) != len(frozenset().union(*ss)):
            return False, f"overlapping regions {list(map(sorted, ss))}", None
        if frozenset().union(*ss) != frozenset(p.scope):
            return False, "partition inputs do not cover its scope", None
        outs = list(rg.partition_outputs(p))
        if len(outs) != 1 or frozenset(outs[0].scope) != frozenset(p.scope):
            return False, "partition without exactly one same-scope parent region", None
    for r in regions:
        for p in rg.region_inputs(r):
            if frozenset(p.scope) != frozenset(r.scope):
                return False, "region with an input partition of another scope", None
    splits = {}
    for p in parts:
        fs = frozenset(frozenset(i.scope) for i in rg.partition_inputs(p))
        splits.setdefault(frozenset(p.scope), set()).add(fs)
    return True, "", all(len(v) == 1 for v in splits.values())


def signature(rg):
    return (sorted(tuple(sorted(r.scope)) for r in rg.nodes if isinstance(r, RegionNode)),
            sorted((tuple(sorted(p.scope)), tuple(tuple(sorted(i.scope)) for i in rg.partition_inputs(p))) for p in rg.nodes if isinstance(p, PartitionNode)))


def run(tier, seed):
    ck = Checker("C16", BOUND, RULE, tier, seed)
    tmpdir = tempfile.mkdtemp(prefix="c16-", dir=os.environ.get("VERIF_WORK") or None)
    k = 0
    for algo, args, mk in graphs(tier):
        k += 1
        base = {"algorithm": algo, "args": args}

        def go():
            rg = mk()
            nparts = sum(1 for n in rg.nodes if isinstance(n, PartitionNode))
            nt = nparts > 0
            nv = args.get("n") or args.get("features") or (int(np.prod(args["shape"])) if "shape" in args else None)
            ok, msg, sd = validate(rg, nv)
            ck.true("valid", base, ok, msg, nontrivial=nt)
            if not ok:
                return
            ck.true("sd_flag==definition", base, bool(rg.is_structured_decomposable) == sd, f"flag {rg.is_structured_decomposable} definition {sd}", nontrivial=nt)
            fn = os.path.join(tmpdir, f"rg{k}.json")
            rg.dump(fn)
            rg2 = RegionGraph.load(fn)
            os.unlink(fn)
            ok2, msg2, sd2 = validate(rg2, nv)
            ck.true("dump_load_preserves", base, ok2 and signature(rg2) == signature(rg) and sd2 == sd
                    and bool(rg2.is_structured_decomposable) == bool(rg.is_structured_decomposable), msg2 or "signature changed", nontrivial=nt)
            if len(list(rg.nodes)) > 60 or (k + seed) % 2:
                return
            ncls = 1 + k % 3
            nsum = 2 + k % 2
            inf = lambda scope, num_units: CategoricalLayer(scope, num_units, num_categories=2)  # noqa: E731
            variants = [("cp", dict(sum_product="cp")), ("cp-t", dict(sum_product="cp-t")), ("tucker", dict(sum_product="tucker")),
                        ("factories-hadamard", dict(sum_factory=lambda i, o: SumLayer(i, o, 1), prod_factory=lambda i, a: HadamardLayer(i, a))),
                        ("factories-kronecker", dict(sum_factory=lambda i, o: SumLayer(i, o, 1), prod_factory=lambda i, a: KroneckerLayer(i, a)))]
            for vname, kw in variants:
                # cp-t / tucker refuse (documented ValueError) partitions whose inputs have different unit counts, which an
                # unbalanced tree with num_input_units != num_sum_units produces: build them with equal unit counts
                nsum_v = 2 if vname in ("cp-t", "tucker") else nsum
                case = dict(base, build=vname, num_classes=ncls, num_sum_units=nsum_v)

                def build():
                    if vname == "factories-kronecker" and (nparts > 6 or max((len(list(rg.partition_inputs(p))) for p in rg.nodes if isinstance(p, PartitionNode)), default=0) > 2):
                        return
                    sc = rg.build_circuit(input_factory=inf, num_input_units=2, num_sum_units=nsum_v, num_classes=ncls, **kw)
                    s, d, sp = C09.circ_flags(sc)
                    ck.true("circuit_smooth_decomposable", case, s and d and sc.is_smooth and sc.is_decomposable, f"smooth={s} dec={d}", nontrivial=nt)
                    ck.true("circuit_scope", case, set(sc.scope) == set(rg.scope), f"scope {sorted(sc.scope)}", nontrivial=nt)
                    outs = list(sc.outputs)
                    ck.true("circuit_output_units", case, len(outs) == len(list(rg.outputs)) and all(o.num_output_units == ncls for o in outs),
                            f"{[o.num_output_units for o in outs]} output units, requested {ncls}", nontrivial=nt)
                    if sd:
                        ck.true("circuit_structured_decomposable", case, C08.same_split_everywhere(sp) and sc.is_structured_decomposable,
                                "region graph is structured-decomposable but the circuit is not", nontrivial=nt)
                ck.guarded("build_circuit", case, build)
        ck.guarded("region_graph", base, go)
    try:
        os.rmdir(tmpdir)
    except OSError:
        pass
    return ck.res
