"""C14 bounded stand-in (engine C, labelled bounded - never counted as proved): every symbolic parameter node, compiled by
its real rule, rebuilt with F folds exactly as the folding pass does (`cls(**config, num_folds=F)`), evaluated by the real
torch `forward` on random inputs, against the numpy definition of the node (native/refinterp.py); plus composite parameter
graphs compiled inside a circuit under fold=True (the path that rebuilds nodes from their configuration)."""
import itertools

import numpy as np
import torch

from native import replay_lib as RL
from native.bounded._common import Checker

NODES = ["ExpParameter", "LogParameter", "SquareParameter", "SoftplusParameter", "SigmoidParameter", "ConjugateParameter",
         "ScaledSigmoidParameter", "ClampParameter", "ReduceSumParameter", "ReduceProductParameter", "ReduceLSEParameter",
         "SoftmaxParameter", "LogSoftmaxParameter", "IndexParameter", "SumParameter", "HadamardParameter", "KroneckerParameter",
         "OuterProductParameter", "OuterSumParameter", "MixingWeightParameter", "GaussianProductMean", "GaussianProductStddev",
         "GaussianProductLogPartition", "PolynomialProduct", "PolynomialDifferential"]

BOUND = ("every parameter node class x input shapes of rank <= 3 with dims <= 3 (every axis, negative too; index lists incl. repeats; "
         "clamp bounds incl. 0) x folds in {1, 2, 3}; at most 60 (240 thorough) constructor argument tuples per class")
RULE = "one case = (node class, constructor arguments, folds); distinct by that tuple; non-trivial when the node has at least one entry"


def _clamp_extra():
    # bounds equal to zero and one-sided bounds (a falsy bound must not be dropped)
    for s in ((2,), (2, 3)):
        for kw in ({"vmin": 0.0, "vmax": 1.0}, {"vmin": -1.0, "vmax": 0.0}, {"vmin": 0.0}, {"vmax": 0.0}, {"vmin": -0.5, "vmax": 0.5}):
            yield (s,), kw


def run(tier, seed):
    ck = Checker("C14", BOUND, RULE, tier, seed)
    rng = np.random.default_rng(1400 + seed)
    cap = 240 if tier == "thorough" else 60
    for name in NODES:
        cands = list(itertools.islice(RL.candidates(name, {}), 4000))
        if name == "ClampParameter":
            cands = list(_clamp_extra()) + cands
        idx = list(range(len(cands)))
        if len(idx) > cap:
            keep = set(idx[:8]) | set(rng.choice(idx, size=cap - 8, replace=False).tolist())
            idx = sorted(keep)
        for i in idx:
            args, kw = cands[i]
            for folds in (1, 2, 3):
                case = {"node": name, "args": [list(a) if isinstance(a, tuple) else a for a in args], "kw": kw, "folds": folds}
                try:
                    msg = RL.check_one(name, args, kw, folds, rng)
                except Exception as e:
                    msg = f"raises {type(e).__name__}: {e}"
                ck.true("forward_equals_definition_per_fold", case, not msg, msg or "")
    return ck.res
