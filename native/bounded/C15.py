"""C15 bounded stand-in (engine C, labelled bounded - never counted as proved; the distributional clause is statistical): samples of
SamplingQuery against the exact probabilities of the same compiled circuit (seeded, 6.5-sigma cell thresholds), support and column checks."""
import itertools

import numpy as np
import torch

from cirkit.backend.torch.queries import SamplingQuery
from cirkit.symbolic import parameters as P
from cirkit.symbolic.circuit import Circuit
from cirkit.symbolic.initializers import NormalInitializer
from cirkit.symbolic.layers import CategoricalLayer, HadamardLayer, KroneckerLayer, SumLayer
from cirkit.utils.scope import Scope
from native import bridge
from native.bounded._common import FLAGS, Checker

BOUND = ("32 (x3 thorough) normalised monotonic circuits: 1..3 variables with ids drawn from 0..6 (non-contiguous scopes included), categorical inputs "
         "with 2..3 states and 1..3 units (softmax probabilities), Hadamard or Kronecker products, sum layers of arity 1..3 with softmax weights (dense or "
         "mixing), optional second sum level, one output unit; four (fold, optimize) settings rotating; plus 6 circuits whose sum weight is a Kronecker product of softmax matrices, compiled with optimize=True (tensor-dot layers), fold off / on, and 2 circuits with a Kronecker product of arity 3 (Tucker layer of arity 3); 20000 samples per circuit (every 8th circuit sampled a second time after all its parameters were perturbed in place), torch seed fixed by "
         "VERIF_SEED; cell threshold |freq - p| <= 6.5 sqrt(p(1-p)/N) + 2/N (false alarm < 1e-8 per run)")
RULE = "one case = (circuit index, fold, optimize, clause); distinct by that tuple"
N = 20000


def _tp(*shape):
    return P.TensorParameter(*shape, initializer=NormalInitializer())


def _softmax_w(shape):
    return P.Parameter.from_unary(P.SoftmaxParameter(shape, axis=1), _tp(*shape))


def _mixing_w(shape):
    return P.mixing_weight_factory(shape, param_factory=lambda s: P.Parameter.from_unary(P.SoftmaxParameter(s, axis=1), _tp(*s)))


def build(rng):
    nv = int(rng.integers(1, 4))
    vs = sorted(rng.choice(7, size=nv, replace=False).tolist())
    dom = {v: int(rng.integers(2, 4)) for v in vs}
    k = int(rng.integers(1, 4))
    layers, in_layers = [], {}
    h = int(rng.integers(1, 4))
    kron = nv > 1 and rng.random() < 0.4 and k <= 2
    prods = []
    for _ in range(h):
        ins = [CategoricalLayer(Scope([v]), k, num_categories=dom[v]) for v in vs]
        layers += ins
        if nv == 1:
            prods.append(ins[0])
        else:
            pl = (KroneckerLayer if kron else HadamardLayer)(k, arity=nv)
            layers.append(pl)
            in_layers[pl] = ins
            prods.append(pl)
    kin = prods[0].num_output_units
    two = rng.random() < 0.5
    kmid = int(rng.integers(1, 3)) if two else 1
    mixing = h > 1 and kin == kmid and rng.random() < 0.5
    s1 = SumLayer(kin, kmid, h, weight=_mixing_w((kmid, h * kin)) if mixing else _softmax_w((kmid, h * kin)))
    layers.append(s1)
    in_layers[s1] = prods
    out = s1
    if two:
        s2 = SumLayer(kmid, 1, 1, weight=_softmax_w((1, kmid)))
        layers.append(s2)
        in_layers[s2] = [s1]
        out = s2
    desc = {"vars": vs, "domains": dom, "units": k, "arity": h, "product": "kronecker" if kron else "hadamard", "mixing": bool(mixing), "two_levels": bool(two)}
    return Circuit(layers, in_layers, [out]), vs, dom, desc


def _kron_weight_circuits():
    """sum layers whose weight is a Kronecker product of two softmax matrices (row-stochastic, so the circuit stays normalised): with
    optimize=True the sum is shattered into two tensor-dot layers, which must sample as well (each config twice: fold off / on)"""
    out = []
    for K, sa, sb, Ko in ((4, (1, 2), (1, 2), 1), (6, (2, 3), (1, 2), 2), (6, (1, 2), (2, 3), 2)):
        for _ in range(2):
            vs, dom = [0, 2], {0: 3, 2: 2}
            ins = [CategoricalLayer(Scope([v]), K, num_categories=dom[v]) for v in vs]
            h = HadamardLayer(K, arity=2)
            w = P.Parameter.from_binary(P.KroneckerParameter(sa, sb), _softmax_w(sa), _softmax_w(sb))
            s1 = SumLayer(K, Ko, 1, weight=w)
            layers, in_layers, o = ins + [h, s1], {h: ins, s1: [h]}, s1
            if Ko > 1:
                s2 = SumLayer(Ko, 1, 1, weight=_softmax_w((1, Ko)))
                layers.append(s2)
                in_layers[s2] = [s1]
                o = s2
            desc = {"vars": vs, "domains": dom, "units": K, "arity": 1, "product": "hadamard", "mixing": False, "two_levels": Ko > 1,
                    "sum_weight": f"kronecker{sa}x{sb}"}
            out.append((Circuit(layers, in_layers, [o]), vs, dom, desc))
    # a Kronecker product of ARITY 3 with two units per input under a dense sum: fused into a Tucker layer of arity 3 by optimize=True
    for _ in range(2):
        vs, dom = [1, 3, 4], {1: 2, 3: 3, 4: 2}
        ins = [CategoricalLayer(Scope([v]), 2, num_categories=dom[v]) for v in vs]
        kl = KroneckerLayer(2, arity=3)
        s1 = SumLayer(8, 1, 1, weight=_softmax_w((1, 8)))
        desc = {"vars": vs, "domains": dom, "units": 2, "arity": 1, "product": "kronecker3", "mixing": False, "two_levels": False, "sum_weight": "softmax"}
        out.append((Circuit(ins + [kl, s1], {kl: ins, s1: [kl]}, [s1]), vs, dom, desc))
    return out


def run(tier, seed):
    ck = Checker("C15", BOUND, RULE, tier, seed)
    rng = np.random.default_rng(15_000 + seed)
    hits = []
    items = [build(rng) for _ in range(32 * (3 if tier == "thorough" else 1))]
    first_kron = len(items)
    items += _kron_weight_circuits()
    for n, (sc, vs, dom, desc) in enumerate(items):
        fold, opt = FLAGS[n % 4] if n < first_kron else ((n - first_kron) % 2 == 1, True)
        base = dict(desc, circuit=n, seed=seed, fold=fold, optimize=opt)

        def go():
            torch.manual_seed(1_000 * seed + n)
            ctx, tc = bridge.compile_circuit(sc, fold=fold, optimize=opt)
            width = max(vs) + 1
            cells = list(itertools.product(*[range(dom[v]) for v in vs]))
            x = np.zeros((len(cells), width), dtype=np.int64)
            x[:, vs] = np.asarray(cells)
            p = bridge.eval_compiled(tc, x, "sum-product")[:, 0, 0]
            ck.eq("normalised", base, np.array([p.sum()]), np.array([1.0]), rtol=1e-9)
            # (a refusal "Sampling not implemented for <optimized layer>" was a recorded finding until TorchTuckerLayer.sample was added by a
            #  fix: commit; it is an ordinary failing input now - the exception is booked by ck.guarded)
            samples, _ = SamplingQuery(tc)(N)
            s = samples.detach().cpu().numpy()
            ck.true("sample_shape", base, s.shape == (N, width), f"samples of shape {s.shape}, expected {(N, width)}", nontrivial=False)
            if s.shape != (N, width):
                return
            s = np.rint(s).astype(np.int64)
            outside = [c for c in range(width) if c not in vs]
            ck.true("columns_outside_scope_untouched", base, not outside or bool(np.all(s[:, outside] == 0)), "a column outside the scope is written", nontrivial=bool(outside))
            ck.true("each_column_in_its_domain", base, all(bool(np.all((s[:, v] >= 0) & (s[:, v] < dom[v]))) for v in vs), "a value outside the variable's domain")
            index = {c: i for i, c in enumerate(cells)}
            counts = np.zeros(len(cells))
            bad = 0
            for row in map(tuple, s[:, vs]):
                i = index.get(row)
                if i is None:
                    bad += 1
                else:
                    counts[i] += 1
            freq = counts / N
            ck.true("samples_have_positive_probability", base, bad == 0 and bool(np.all(p[counts > 0] > 0)), "a sample with zero probability")
            thr = 6.5 * np.sqrt(p * (1 - p) / N) + 2.0 / N
            worst = int(np.argmax(np.abs(freq - p) - thr))
            ck.true("frequencies_match_probabilities", base, bool(np.all(np.abs(freq - p) <= thr)),
                    f"cell {cells[worst]}: frequency {freq[worst]:.5f} vs probability {p[worst]:.5f} (threshold {thr[worst]:.5f})")
            for v in vs:  # each variable column is filled from the input layer of that variable: marginals per column
                pm = np.array([p[[i for i, c in enumerate(cells) if c[vs.index(v)] == a]].sum() for a in range(dom[v])])
                fm = np.array([(s[:, v] == a).mean() for a in range(dom[v])])
                t = 6.5 * np.sqrt(pm * (1 - pm) / N) + 2.0 / N
                ck.true("column_marginal_of_its_variable", dict(base, var=v), bool(np.all(np.abs(fm - pm) <= t)), f"variable {v}: {fm} vs {pm}")
            if n % 8 == 0 and n < first_kron:
                # history: the SAME compiled circuit after its parameters took other values (a training step, load_state_dict): samples follow the
                # distribution the circuit evaluates NOW (nothing derived from the old weights may survive)
                with torch.no_grad():
                    g = torch.Generator().manual_seed(77 + n)
                    for prm in tc.parameters():
                        prm.add_(1.5 * torch.randn(prm.shape, generator=g, dtype=prm.dtype))
                p2 = bridge.eval_compiled(tc, x, "sum-product")[:, 0, 0]
                ck.eq("normalised_after_update", base, np.array([p2.sum()]), np.array([1.0]), rtol=1e-9)
                s2 = np.rint(SamplingQuery(tc)(N)[0].detach().cpu().numpy()).astype(np.int64)
                counts2 = np.zeros(len(cells))
                for row in map(tuple, s2[:, vs]):
                    if row in index:
                        counts2[index[row]] += 1
                f2 = counts2 / N
                thr2 = 6.5 * np.sqrt(p2 * (1 - p2) / N) + 2.0 / N
                w2 = int(np.argmax(np.abs(f2 - p2) - thr2))
                ck.true("frequencies_match_probabilities_after_update", base, bool(np.all(np.abs(f2 - p2) <= thr2)),
                        f"after a parameter update, cell {cells[w2]}: frequency {f2[w2]:.5f} vs probability {p2[w2]:.5f} (threshold {thr2[w2]:.5f})")
        ck.guarded("sampling", base, go)
    return ck.res
