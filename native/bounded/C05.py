"""C05 bounded stand-in (engine C, labelled bounded - never counted as proved): compiled differentiate(c, order) == exact derivatives of the interpolating polynomial of the reference value, outputs in increasing variable id then c"""
from native import selftest_refinterp as ST
from native.bounded._common import run_sections

BOUND = "polynomial circuits: <= 3 variables ids 0..12, <= 2 units, degree <= 3, 24 circuits (x4 thorough) x order in {1, 2}, flags rotating; plus conjugate(differentiate(c, 2)) - a second operator on a derivative circuit - against the second derivative"
RULE = "one case = (circuit index, order, fold, optimize)"


def run(tier, seed):
    return run_sections("C05", [ST.section_e], {"E", "E-operand", "E-symbolic"}, BOUND, RULE, tier, seed)
