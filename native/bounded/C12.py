"""C12 bounded stand-in (engine C, labelled bounded - never counted as proved): circuits built by the templates with normalised
input distributions and softmax (optionally mixing) sum weights have non-negative values and partition function one, for several
values of the unconstrained parameters (fresh, rescaled x3, after optimiser steps)."""
import functools
import itertools

import numpy as np
import torch

import cirkit.symbolic.functional as SF
from cirkit.symbolic.parameters import mixing_weight_factory
from cirkit.templates import data_modalities, pgms, tensor_factorizations
from cirkit.templates.region_graph import (FullyFactorized, LinearTree, PoonDomingos, QuadGraph, QuadTree,
                                           RandomBinaryTree)
from cirkit.templates.utils import Parameterization, name_to_input_layer_factory, parameterization_to_factory
from native import bridge
from native.bounded._common import FLAGS, Checker
from native.refinterp import ParamStore, domains_of, eval_circuit, integral_circuit

BOUND = ("region graphs {RandomBinaryTree(4|5, reps 1..2), LinearTree(4), FullyFactorized(3|1), RandomBinaryTree(3, depth 0), QuadTree((1,2,2),2|4), QuadGraph((1,2,2)), "
         "PoonDomingos((1,2,2),1)} x {cp, cp-t, tucker} x {categorical(3 states), binomial(2), gaussian} x {mixing, dense, n-ary factory left to its default} with 2 input / 2 sum "
         "units, 1..2 classes; templates image_data((1,2,2)) with 256 categories (Z through integrate only), tabular_data(random-binary-tree, 3 "
         "features), hmm(orderings of 3 variables, 1..2 latent states), fully_factorized(3), cp/tucker probabilistic (shape (2,3,2), rank 1..3); "
         "parameters: as initialised, all unconstrained tensors x3 + shift, after 3 SGD steps on the negative log-likelihood; flags rotating; "
         "Z by brute-force sum / quadrature of the reference value (only when <= 1 continuous variable and <= 3000 discrete assignments) AND by the compiled integrate operator (when a symbolic rule exists)")
RULE = "one case = (template, arguments, parameter state, clause); distinct by that tuple"

SOFTMAX = Parameterization(activation="softmax", initialization="normal")


def _rgs():
    yield "RandomBinaryTree(4)", RandomBinaryTree(4, seed=1)
    yield "RandomBinaryTree(5,reps=2)", RandomBinaryTree(5, num_repetitions=2, seed=2)
    yield "LinearTree(4)", LinearTree(4)
    yield "FullyFactorized(3)", FullyFactorized(3)
    yield "RandomBinaryTree(3,depth=0)", RandomBinaryTree(3, depth=0, seed=3)       # the root region is itself an input region
    yield "FullyFactorized(1)", FullyFactorized(1)
    yield "QuadTree((1,2,2),2)", QuadTree((1, 2, 2), num_patch_splits=2)
    yield "QuadTree((1,2,2),4)", QuadTree((1, 2, 2), num_patch_splits=4)
    yield "QuadGraph((1,2,2))", QuadGraph((1, 2, 2))
    yield "PoonDomingos((1,2,2),1)", PoonDomingos((1, 2, 2), delta=1)


INPUTS = {
    "categorical": dict(num_categories=3, probs_factory=parameterization_to_factory(SOFTMAX)),
    "categorical-default": dict(num_categories=3),
    "binomial": dict(total_count=2),
    "gaussian": dict(),
}


def circuits(tier):
    n = 0
    for (rgname, rg), spl, inp, mixing in itertools.product(_rgs(), ("cp", "cp-t", "tucker"), INPUTS, (True, False, None)):
        n += 1
        if tier != "thorough" and n % 3:  # the quick tier takes every third combination
            continue
        wf = parameterization_to_factory(SOFTMAX)
        # mixing None: the n-ary factory is NOT passed, the documented fallback (the dense factory) must normalise the n-ary sums
        nary = functools.partial(mixing_weight_factory, param_factory=wf) if mixing else (wf if mixing is False else None)
        kw = dict(INPUTS[inp])
        factory = name_to_input_layer_factory(inp.split("-")[0], **kw)
        yield ({"template": "RegionGraph.build_circuit", "rg": rgname, "sum_product": spl, "input": inp, "mixing": mixing},
               lambda rg=rg, factory=factory, spl=spl, wf=wf, nary=nary, n=n: rg.build_circuit(
                   input_factory=factory, sum_product=spl, sum_weight_factory=wf, nary_sum_weight_factory=nary,
                   num_input_units=2, num_sum_units=2, num_classes=1 + n % 2, factorize_multivariate=True))
    for rgname, spl, mixing in (("quad-graph", "cp", True), ("quad-tree-2", "tucker", False), ("random-binary-tree", "cp-t", True), ("poon-domingos", "cp", False)):
        yield ({"template": "image_data", "shape": [1, 2, 2], "rg": rgname, "sum_product": spl, "mixing": mixing, "input": "categorical(256)"},
               lambda rgname=rgname, spl=spl, mixing=mixing: data_modalities.image_data(
                   (1, 2, 2), rgname, input_layer="categorical", num_input_units=2, sum_product_layer=spl, num_sum_units=2,
                   input_params={"probs": SOFTMAX}, sum_weight_param=SOFTMAX, use_mixing_weights=mixing))
    for spl, mixing in (("cp", True), ("tucker", False), ("cp-t", True)):
        layers = [{"name": "categorical", "args": {"num_categories": 3}}, {"name": "gaussian", "args": {}}, {"name": "categorical", "args": {"num_categories": 2}}]
        yield ({"template": "tabular_data", "rg": "random-binary-tree", "sum_product": spl, "mixing": mixing},
               lambda spl=spl, mixing=mixing, layers=layers: data_modalities.tabular_data(
                   "random-binary-tree", num_features=3, input_layers=layers, num_input_units=2, sum_product_layer=spl, num_sum_units=2,
                   sum_weight_param=SOFTMAX, use_mixing_weights=mixing))
    for ordering, k in itertools.product(([0, 1, 2], [2, 0, 1], [1, 2, 0]), (1, 2)):
        yield ({"template": "hmm", "ordering": ordering, "latent": k},
               lambda ordering=ordering, k=k: pgms.hmm(ordering, "categorical", num_latent_states=k, input_layer_kwargs={"num_categories": 3},
                                                      input_params={"probs": SOFTMAX}, weight_param=SOFTMAX))
    yield ({"template": "hmm", "ordering": [0, 1, 2], "latent": 2, "input": "gaussian"},
           lambda: pgms.hmm([0, 1, 2], "gaussian", num_latent_states=2, weight_param=SOFTMAX))
    yield ({"template": "fully_factorized", "n": 3}, lambda: pgms.fully_factorized(3, "categorical", input_layer_kwargs={"num_categories": 3}, input_params={"probs": SOFTMAX}))
    for rank in (1, 2, 3):
        yield ({"template": "cp", "shape": [2, 3, 2], "rank": rank},
               lambda rank=rank: tensor_factorizations.cp((2, 3, 2), rank, input_layer="categorical", input_params={"probs": SOFTMAX}, weight_param=SOFTMAX))
        yield ({"template": "tucker", "shape": [2, 3, 2], "rank": rank},
               lambda rank=rank: tensor_factorizations.tucker((2, 3, 2), rank, input_layer="categorical", input_params={"probs": SOFTMAX}, core_param=SOFTMAX))


def run(tier, seed):
    ck = Checker("C12", BOUND, RULE, tier, seed)
    for n, (desc, mk) in enumerate(circuits(tier)):
        fold, opt = FLAGS[n % 4]
        semiring = "lse-sum" if n % 2 else "sum-product"
        base = dict(desc, fold=fold, optimize=opt, semiring=semiring, seed=seed)

        def go():
            sc = mk()
            big = "256" in str(desc.get("input", ""))
            ctx, tc = bridge.compile_circuit(sc, semiring=semiring, fold=fold, optimize=opt)
            try:
                isc = SF.integrate(sc)
            except Exception:  # no symbolic integration rule (binomial): only the brute-force sum is used
                isc = None
            itc = None
            if isc is not None:
                with ctx:
                    itc = ctx.compile(isc)
            doms = domains_of(sc)
            params = [p for p in tc.parameters()]
            rng = np.random.default_rng(seed + n)
            for state in ("initial", "rescaled", "trained"):
                if state == "rescaled":
                    with torch.no_grad():
                        for p in params:
                            p.mul_(3.0).add_(torch.randn_like(p))
                elif state == "trained":
                    opt_ = torch.optim.SGD(params, lr=0.05)
                    xt = torch.tensor(_inputs(sc, doms, 8, rng))
                    xt = xt.double() if bridge._is_continuous(tc) else xt.long()
                    for _ in range(3):
                        opt_.zero_grad()
                        y = tc(xt)
                        loss = -(y if semiring != "sum-product" else torch.log(y)).sum()
                        loss.backward()
                        if all(p.grad is None or bool(torch.isfinite(p.grad).all()) for p in params):
                            opt_.step()
                        else:  # float overflow in the gradient: not a parameter value the property quantifies over
                            ck.res.count("training step skipped (non-finite gradient)")
                case = dict(base, params=state)
                store = ParamStore(0)
                bridge.sync_store_from_compiled(ctx, [sc], store)
                ones = np.ones((1, len(list(sc.outputs)), next(iter(sc.outputs)).num_output_units))
                x1 = _inputs(sc, doms, 1, rng)
                ncont = sum(1 for d in doms.values() if not isinstance(d, list))
                ndisc = int(np.prod([len(d) for d in doms.values() if isinstance(d, list)] or [1]))
                if ncont <= 1 and ndisc <= 3000:  # brute force only where it is cheap (stated in the bound)
                    z = integral_circuit(sc, set(sc.scope), x1, store, doms)
                    ck.eq("Z==1 (brute force of the reference value)", case, z, ones, rtol=2e-6)
                if itc is not None:
                    ck.eq("Z==1 (compiled integrate)", case, bridge.eval_compiled(itc, x1, semiring), ones, rtol=1e-6)
                xs = _inputs(sc, doms, 6, rng)
                vals = bridge.eval_compiled(tc, xs, semiring)
                ok, why = True, ""
                ref = eval_circuit(sc, xs, store)
                ck.true("non-negative and equal to the reference", case, bool(np.all(vals >= 0) and np.all(ref >= 0) and np.allclose(vals, ref, rtol=1e-6, atol=1e-12)),
                        f"min {vals.min()} ref min {ref.min()}")
                if semiring != "sum-product":
                    with torch.no_grad():
                        xt = torch.tensor(xs)
                        lv = tc(xt.double() if bridge._is_continuous(tc) else xt.long())
                    ck.true("finite in log space on in-support inputs", case, bool(torch.isfinite(lv).all()), "non-finite log value")
        ck.guarded("template", base, go)
    return ck.res


def _inputs(sc, doms, B, rng):
    ncols = max(doms) + 1
    cont = any(not isinstance(d, list) for d in doms.values())
    x = np.zeros((B, ncols), dtype=np.float64 if cont else np.int64)
    for v, d in doms.items():
        x[:, v] = rng.choice(np.asarray(d), size=B) if isinstance(d, list) else rng.standard_normal(B)
    return x
