"""C06 bounded stand-in (engine C, labelled bounded - never counted as proved): compiled evidence(c, obs) == reference value
of c with the observed columns overwritten; scope of the result; concatenate stacks the operands' outputs in order."""
import numpy as np

import cirkit.symbolic.functional as SF
from native import bridge, gen
from native import selftest_refinterp as ST
from native.bounded._common import FLAGS, Checker, run_sections
from native.refinterp import ParamStore, eval_circuit

BOUND = ("generated circuits (<= 3 variables ids 0..12, <= 3 units, arity <= 3, <= 2 outputs, every input kind incl. mixed): "
         "49 circuits (x4 thorough), one random non-empty observed subset each (partial and complete), flags rotating; "
         "concatenate: pairs/triples (same input kind, values in {0,1} or reals) from 48 (x4) circuits over variables {0,3,9} of generated circuits with equal unit counts, 4 flag settings rotating")
RULE = "one case = (circuit index, observed variables, fold, optimize) or (concatenate, indices, flags); scope clause checked on every evidence case"


def run(tier, seed):
    res = run_sections("C06", [ST.section_g], {"G", "G-operand", "G-symbolic"}, BOUND, RULE, tier, seed)
    ck = Checker("C06", BOUND, RULE, tier, seed)
    ck.res = res
    n = 49 * (4 if tier == "thorough" else 1)
    items = gen.gen_circuits(ST._s(61), n, input_kinds=gen.INPUT_KINDS + ("mixed",))
    for i, it in enumerate(items):  # scope clause
        sc = it["circuit"]
        rng = np.random.default_rng(100 + i)
        scope = sorted(sc.scope)
        zs = sorted(rng.choice(scope, size=rng.integers(1, len(scope) + 1), replace=False).tolist())
        xo = gen.gen_inputs(sc, 1, 50 + i)
        case = {"evidence_scope": it["desc"]["index"], "seed": it["desc"]["seed"], "obs": zs}

        def go():
            esc = SF.evidence(sc, {v: xo[0, v].item() for v in zs})
            ck.true("G-scope", case, set(esc.scope) == set(scope) - set(zs), f"scope {sorted(esc.scope)}")
            ck.true("G-outputs", case, len(list(esc.outputs)) == len(list(sc.outputs)), "number of outputs changed", nontrivial=False)
        ck.guarded("G-scope", case, go)
    # concatenate
    m = 48 * (4 if tier == "thorough" else 1)
    pool = gen.gen_circuits(ST._s(62), m, input_kinds=("categorical", "embedding", "gaussian", "polynomial"), var_ids=(0, 3, 9), max_vars=3)
    byk = {}
    for it in pool:
        sc = it["circuit"]
        byk.setdefault((it["kind"], next(iter(sc.outputs)).num_output_units, tuple(sorted(sc.scope))), []).append(it)
    groups = []
    for k, its in sorted(byk.items()):
        for j in range(0, len(its) - 1, 2):
            groups.append(its[j:j + (3 if j % 4 == 0 and j + 2 < len(its) else 2)])
    for g, its in enumerate(groups):
        fold, opt = FLAGS[g % 4]
        case = {"concatenate": [it["desc"]["index"] for it in its], "seed": its[0]["desc"]["seed"], "fold": fold, "optimize": opt}

        def go():
            scs = [it["circuit"] for it in its]
            csc = SF.concatenate(scs)
            ctx, ctc = bridge.compile_circuit(csc, fold=fold, optimize=opt)
            store = ParamStore(0)
            bridge.sync_store_from_compiled(ctx, [csc], store)
            rng = np.random.default_rng(9 + g)  # values valid for every operand: states {0, 1} / reals
            x = np.zeros((3, 10), dtype=np.int64 if its[0]["kind"] in ("categorical", "embedding") else np.float64)
            for v in (0, 3, 9):
                x[:, v] = rng.integers(0, 2, size=3) if x.dtype == np.int64 else rng.standard_normal(3)
            ref = np.concatenate([eval_circuit(sc, x, store) for sc in scs], axis=1)
            ck.eq("concatenate", case, bridge.eval_compiled(ctc, x, "sum-product"), ref)
        ck.guarded("concatenate", case, go)
    return res
