"""C19 bounded stand-in (engine C, labelled bounded - never counted as proved): state_dict saved from a compiled circuit and loaded
(strict) into a freshly compiled, freshly initialised instance under the same flags reproduces the outputs, also for derived
circuits compiled in the same context; every learnable tensor is in the dictionary, and no two entries of a base circuit alias."""
import io

import numpy as np
import torch

import cirkit.symbolic.functional as SF
from cirkit.pipeline import PipelineContext
from native import bridge, gen
from native.bounded._common import FLAGS, Checker

BOUND = ("48 (x4 thorough) generated circuits (<= 3 variables ids 0..12, <= 3 units, arity <= 3, <= 2 outputs; every input kind incl. mixed) x "
         "all four (fold, optimize) settings; derived circuits: integrate and conjugate compiled in the same context; serialisation through torch.save / "
         "torch.load of the state_dict into a bytes buffer; 'exactly once' is read per owning tensor node (a derived circuit lists the operand's "
         "tensors again under pointer paths: aliases required by C10); 2 frozen-tensor circuits evaluated before the load; 2 hand-built circuits x 4 flag settings whose "
         "derived circuits (evidence, integrate o evidence, integrate, multiply) are compiled - and explicitly reset - AFTER the load")
RULE = "one case = (circuit index, fold, optimize, base|derived operator, clause); distinct by that tuple"


def _roundtrip(sd):
    buf = io.BytesIO()
    torch.save(sd, buf)
    buf.seek(0)
    return torch.load(buf)


def run(tier, seed):
    ck = Checker("C19", BOUND, RULE, tier, seed)
    items = gen.gen_circuits(191 + 1000 * seed, 48 * (4 if tier == "thorough" else 1), input_kinds=gen.INPUT_KINDS + ("mixed",))
    for n, it in enumerate(items):
        sc, d = it["circuit"], it["desc"]
        for fold, opt in FLAGS:
            base = {"circuit": d["index"], "seed": d["seed"], "kind": d["kind"], "fold": fold, "optimize": opt}

            def go():
                def build():
                    ctx = PipelineContext(backend="torch", semiring="sum-product", fold=fold, optimize=opt)
                    out = {}
                    with ctx:
                        out["base"] = ctx.compile(sc)
                        for name, op in (("integrate", SF.integrate), ("conjugate", SF.conjugate)):
                            try:
                                dsc = op(sc)
                            except Exception:  # no rule for this layer type: refusal
                                continue
                            out[name] = ctx.compile(dsc)
                    return out
                torch.manual_seed(1 + n)
                a = build()
                torch.manual_seed(10_000 + n)
                b = build()
                x = gen.gen_inputs(sc, 3, 3 + n)
                ya = {k: bridge.eval_compiled(t, x, "sum-product") for k, t in a.items()}
                learn = [p for p in a["base"].parameters() if p.requires_grad]
                if learn:
                    yb0 = bridge.eval_compiled(b["base"], x, "sum-product")
                    ck.res.count("fresh instance differs before loading", int(not np.allclose(ya["base"], yb0)))
                sd = a["base"].state_dict()
                ptrs = [v.data_ptr() for v in sd.values() if v.numel() > 0]
                lp = {p.data_ptr() for p in learn}
                ck.true("every_learnable_tensor_in_state_dict", base, lp <= set(ptrs), "a learnable tensor is missing from state_dict")
                ck.true("no_aliased_learnable_entries", base, all(ptrs.count(q) == 1 for q in lp), "a learnable tensor is listed more than once", nontrivial=bool(lp))
                for k in a:
                    b[k].load_state_dict(_roundtrip(a[k].state_dict()), strict=True)
                    case = dict(base, circuit_kind=k)
                    ck.eq("same_outputs_after_reload", case, bridge.eval_compiled(b[k], x, "sum-product"), ya[k], rtol=1e-12, atol=0.0, nontrivial=bool(learn))
                for k in a:  # loading the base dictionary alone must already drive the derived circuits of the same context
                    if k != "base":
                        ck.eq("derived_follow_base_reload", dict(base, circuit_kind=k), bridge.eval_compiled(b[k], x, "sum-product"), ya[k], rtol=1e-12, atol=0.0, nontrivial=bool(learn))
            ck.guarded("reload", base, go)
    _frozen_section(ck, seed)
    _late_derived_section(ck, seed)
    return ck.res


def _frozen_section(ck, seed):
    """circuits with FROZEN random tensors (learnable=False, random initialiser) next to learnable ones: the fresh instance
    and its derived circuits are evaluated once BEFORE load_state_dict (a value remembered from that evaluation would
    survive the load), then must reproduce the saved circuit"""
    from cirkit.symbolic.circuit import Circuit
    from cirkit.symbolic.initializers import NormalInitializer
    from cirkit.symbolic.layers import EmbeddingLayer, HadamardLayer, SumLayer
    from cirkit.symbolic.parameters import Parameter, TensorParameter
    from cirkit.utils.scope import Scope

    def frozen(shape):
        return Parameter.from_input(TensorParameter(*shape, initializer=NormalInitializer(), learnable=False))
    for nvars, K, C in ((2, 2, 3), (3, 3, 2)):
        ins = [EmbeddingLayer(Scope([3 * i + 1]), K, num_states=C, weight_factory=frozen if i % 2 == 0 else None) for i in range(nvars)]
        h = HadamardLayer(K, arity=nvars)
        s = SumLayer(K, 2, arity=1)
        sc = Circuit(ins + [h, s], {h: ins, s: [h]}, [s])
        for fold, opt in FLAGS:
            base = {"section": "frozen", "nvars": nvars, "units": K, "fold": fold, "optimize": opt}

            def go():
                def build():
                    ctx = PipelineContext(backend="torch", semiring="sum-product", fold=fold, optimize=opt)
                    with ctx:
                        return {"base": ctx.compile(sc), "integrate": ctx.compile(SF.integrate(sc))}
                torch.manual_seed(77 + seed)
                a = build()
                torch.manual_seed(78 + seed)
                b = build()
                x = gen.gen_inputs(sc, 4, 5)
                ya = {k: bridge.eval_compiled(t, x, "sum-product") for k, t in a.items()}
                yb0 = {k: bridge.eval_compiled(t, x, "sum-product") for k, t in b.items()}  # evaluated before the load
                ck.res.count("fresh frozen instance differs before loading", int(not np.allclose(ya["base"], yb0["base"])))
                b["base"].load_state_dict(_roundtrip(a["base"].state_dict()), strict=True)
                for k in a:
                    ck.eq("same_outputs_after_reload_of_evaluated_instance", dict(base, circuit_kind=k),
                          bridge.eval_compiled(b[k], x, "sum-product"), ya[k], rtol=1e-12, atol=0.0, nontrivial=True)
            ck.guarded("reload_frozen", base, go)


def _late_derived_section(ck, seed):
    """derived circuits (evidence, integrate o evidence, integrate, multiply) compiled in the fresh context AFTER the state dict was
    loaded into the fresh base circuit: compiling (and so re-initialising) a derived circuit must leave the loaded tensors alone"""
    from cirkit.symbolic.circuit import Circuit
    from cirkit.symbolic.initializers import NormalInitializer
    from cirkit.symbolic.layers import CategoricalLayer, EmbeddingLayer, HadamardLayer, SumLayer
    from cirkit.symbolic.parameters import Parameter, TensorParameter
    from cirkit.utils.scope import Scope

    def normal(shape):
        return Parameter.from_input(TensorParameter(*shape, initializer=NormalInitializer()))
    for kind in ("categorical", "embedding"):
        K, C = 2, 3
        if kind == "categorical":
            ins = [CategoricalLayer(Scope([v]), K, num_categories=C, logits_factory=normal) for v in (0, 4)]
        else:
            ins = [EmbeddingLayer(Scope([v]), K, num_states=C, weight_factory=normal) for v in (0, 4)]
        h = HadamardLayer(K, arity=2)
        s = SumLayer(K, 1, arity=1)
        sc = Circuit(ins + [h, s], {h: ins, s: [h]}, [s])
        derived = {"evidence": lambda: SF.evidence(sc, {0: 1, 4: 2}), "integrate_evidence": lambda: SF.integrate(SF.evidence(sc, {4: 0})),
                   "integrate": lambda: SF.integrate(sc), "multiply": lambda: SF.multiply(sc, sc)}
        for fold, opt in FLAGS:
            base = {"section": "late_derived", "kind": kind, "fold": fold, "optimize": opt}

            def go():
                x = gen.gen_inputs(sc, 4, 6)

                def ev(t, name):
                    xx = None if name in ("evidence", "integrate") else x
                    return bridge.eval_compiled(t, xx, "sum-product") if xx is not None else t().detach().numpy()
                torch.manual_seed(91 + seed)
                ctx_a = PipelineContext(backend="torch", semiring="sum-product", fold=fold, optimize=opt)
                with ctx_a:
                    a = {"base": ctx_a.compile(sc)}
                    a.update({k: ctx_a.compile(f()) for k, f in derived.items()})
                ya = {k: ev(t, k) for k, t in a.items()}
                sd = _roundtrip(a["base"].state_dict())
                torch.manual_seed(92 + seed)
                ctx_b = PipelineContext(backend="torch", semiring="sum-product", fold=fold, optimize=opt)
                with ctx_b:
                    b = {"base": ctx_b.compile(sc)}
                    b["base"].load_state_dict(sd, strict=True)
                    for k, f in derived.items():
                        b[k] = ctx_b.compile(f())                      # compiled after the load
                        ck.eq("loaded_values_survive_compiling_a_derived_circuit", dict(base, circuit_kind="base", after=k), ev(b["base"], "base"), ya["base"],
                              rtol=1e-12, atol=0.0, nontrivial=True)
                        ck.eq("late_derived_circuit_computes_from_the_loaded_values", dict(base, circuit_kind=k), ev(b[k], k), ya[k], rtol=1e-12, atol=0.0, nontrivial=True)
                    for k in derived:
                        b[k].reset_parameters()                        # an explicit reset of a derived circuit owns no tensor of the base
                        ck.eq("loaded_values_survive_resetting_a_derived_circuit", dict(base, circuit_kind="base", after=k), ev(b["base"], "base"), ya["base"],
                              rtol=1e-12, atol=0.0, nontrivial=True)
            ck.guarded("late_derived", base, go)
