"""Engine C: bounded stand-ins (labelled bounded, never counted as proved) and replay harness.

Each module native/bounded/Cxx.py exposes  run(tier: str, seed: int) -> Result.
Run with:  cd /verif && /venv/bin/python -m native.run_bounded Cxx --tier quick --seed 0 --out file.json
"""
from __future__ import annotations

import json
import time


class Result:
    def __init__(self, prop: str, bound: str, rule: str):
        self.prop = prop
        self.bound = bound          # the stated bound of this stand-in, in words
        self.rule = rule            # how cases are generated and what makes one distinct / non-trivial
        self.evaluations = 0        # every comparison / execution performed
        self._distinct = set()      # signatures of distinct non-trivial cases
        self.samples = []           # a few cases written out
        self.failures = []          # [{'case': ..., 'what': ..., 'replay': python source}]
        self.known = []             # [{'id': ..., 'present': bool, 'detail': ...}] probes of recorded findings
        self.sections = {}          # free-form per-section counters
        self.t0 = time.time()

    def case(self, signature, sample=None, nontrivial=True):
        """count one evaluated case; `signature` identifies distinct cases (any hashable / str)"""
        self.evaluations += 1
        if nontrivial:
            self._distinct.add(str(signature))
        if sample is not None and len(self.samples) < 8:
            self.samples.append(sample)

    def count(self, section, n=1):
        self.sections[section] = self.sections.get(section, 0) + n

    def fail(self, case, what, replay=""):
        """record a concrete failing input (json-able case description, message, standalone python
        source that exits with status 1 while the failure is present and 0 otherwise)"""
        if len(self.failures) < 20:
            self.failures.append({"case": case, "what": str(what)[:600], "replay": replay})
        else:
            self.failures[-1]["more"] = self.failures[-1].get("more", 0) + 1

    def known_finding(self, fid, present, detail=""):
        self.known.append({"id": fid, "present": bool(present), "detail": str(detail)[:400]})

    def to_json(self):
        return {"property": self.prop, "bound": self.bound, "rule": self.rule, "evaluations": self.evaluations,
                "distinct_nontrivial": len(self._distinct), "samples": self.samples, "failures": self.failures,
                "known": self.known, "sections": self.sections, "wall_s": round(time.time() - self.t0, 2)}
