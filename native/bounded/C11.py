"""C11 bounded stand-in (engine C, labelled bounded - never counted as proved): IntegrateQuery with per-sample sets of variables
against brute-force marginals of the reference interpreter and against the compiled symbolic integrate operator."""
import numpy as np
import torch

import cirkit.symbolic.functional as SF
from cirkit.backend.torch.queries import IntegrateQuery
from cirkit.symbolic.registry import OperatorSignatureNotFound
from cirkit.utils.scope import Scope
from native import bridge, gen
from native.bounded._common import FLAGS, Checker
from native.refinterp import ParamStore, domains_of, eval_circuit, integral_circuit

KINDS = ("categorical", "categorical-logits", "binomial", "gaussian", "mixed")
BOUND = ("48 (x4 thorough) generated smooth+decomposable circuits with univariate inputs (<= 3 variables with ids 0..12, often non-contiguous; "
         "<= 3 units, arity <= 3, <= 2 outputs; categorical probs/logits (normalised or not), binomial, gaussian, mixed), four flag settings "
         "rotating with semirings sum-product / lse-sum, batch sizes 1..4 rotating (so batch == number of folds occurs), per-sample random "
         "variable sets given in the three input formats; continuous marginals by trapezoid quadrature (rtol 2e-6)")
RULE = "one case = (circuit index, flags, semiring, batch size, format, per-sample sets); non-trivial when at least one variable is marginalised"


def _x(tc, x):
    return torch.tensor(x.real.astype(np.float64)) if bridge._is_continuous(tc) else torch.tensor(x.real.astype(np.int64))


def _lin(y, semiring):
    with torch.no_grad():
        return (torch.exp(y) if semiring != "sum-product" else y).detach().cpu().numpy()


def run(tier, seed):
    ck = Checker("C11", BOUND, RULE, tier, seed)
    items = gen.gen_circuits(111 + 1000 * seed, 48 * (4 if tier == "thorough" else 1), input_kinds=KINDS)
    for n, it in enumerate(items):
        sc, d = it["circuit"], it["desc"]
        fold, opt = FLAGS[n % 4]
        semiring = "lse-sum" if n % 3 == 1 else "sum-product"
        B = 1 + (n // 4) % 4
        rng = np.random.default_rng(1100 + n + seed)
        scope = sorted(sc.scope)
        nv = max(scope) + 1
        sets = [sorted(v for v in scope if rng.random() < 0.5) for _ in range(B)]
        base = {"circuit": d["index"], "seed": d["seed"], "kind": d["kind"], "fold": fold, "optimize": opt, "semiring": semiring, "B": B}

        def go():
            ctx, tc = bridge.compile_circuit(sc, semiring=semiring, fold=fold, optimize=opt)
            store = ParamStore(7, positive=True) if semiring == "lse-sum" else ParamStore(7)
            if semiring == "lse-sum":
                bridge.push_store_to_compiled(ctx, [sc], store)
            else:
                bridge.sync_store_from_compiled(ctx, [sc], store)
            x = gen.gen_inputs(sc, B, 5 + n, num_cols=nv)
            doms = domains_of(sc)
            q = IntegrateQuery(tc)
            xt = _x(tc, x)
            ref = np.concatenate([integral_circuit(sc, set(sets[b]), x[b:b + 1], store, doms) for b in range(B)], axis=0)
            mask = torch.zeros((B, nv), dtype=torch.bool)
            for b in range(B):
                mask[b, sets[b]] = True
            nt = any(sets)
            ck.eq("mask_tensor", dict(base, format="mask", sets=sets), _lin(q(xt, integrate_vars=mask), semiring), ref, rtol=2e-6, nontrivial=nt)
            ck.eq("scope_per_sample", dict(base, format="scopes", sets=sets),
                  _lin(q(xt, integrate_vars=[Scope(s) for s in sets]), semiring), ref, rtol=2e-6, nontrivial=nt)
            one = sets[0]
            ref1 = integral_circuit(sc, set(one), x, store, doms)
            ck.eq("one_scope", dict(base, format="scope", sets=[one]), _lin(q(xt, integrate_vars=Scope(one)), semiring), ref1, rtol=2e-6, nontrivial=bool(one))
            if one:  # agreement with the compiled symbolic operator (same context, shared parameters)
                try:
                    isc = SF.integrate(sc, Scope(one))
                except OperatorSignatureNotFound:  # no symbolic integration rule (binomial): a refusal, nothing to agree with
                    isc = None
                    ck.res.count("symbolic integrate refuses (no rule)")
                if isc is not None:
                    with ctx:
                        itc = ctx.compile(isc)
                    ck.eq("agrees_with_symbolic_integrate", dict(base, Z=one), _lin(q(xt, integrate_vars=Scope(one)), semiring),
                          bridge.eval_compiled(itc, x, semiring), rtol=1e-6)
            # rejection of variables outside the scope, in every format
            outside = next(v for v in range(nv + 1) if v not in scope)
            ck.raises("rejects_outside_scope(scope)", dict(base, outside=outside), lambda: q(xt, integrate_vars=Scope([outside])), (ValueError,))
            ck.raises("rejects_outside_scope(scopes)", dict(base, outside=outside), lambda: q(xt, integrate_vars=[Scope([scope[0], outside])] * B), (ValueError,))
            if outside < nv:
                bad = torch.zeros((B, nv), dtype=torch.bool)
                bad[0, outside] = True
                ck.raises("rejects_outside_scope(mask)", dict(base, outside=outside), lambda: q(xt, integrate_vars=bad), (ValueError,))
            ck.raises("rejects_wrong_mask_width", base, lambda: q(xt, integrate_vars=torch.zeros((B, nv + 1), dtype=torch.bool)), (ValueError,))
        ck.guarded("query", base, go)
    return ck.res
