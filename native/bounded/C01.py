"""C01 bounded stand-in (engine C, labelled bounded - never counted as proved): compiled circuit == numpy reference interpreter of the symbolic circuit"""
from native import selftest_refinterp as ST
from native.bounded._common import run_sections

BOUND = "generated smooth+decomposable circuits: <= 3 variables with ids in 0..12 (ids >= 8 frequent), <= 3 units, sum arity <= 3, <= 2 outputs (outputs may feed other layers), Hadamard and Kronecker products, shared sub-circuits, layer budget ~5; 110 circuits (x4 thorough) x semirings {sum-product, lse-sum, complex-lse-sum} x fold x optimize; batch sizes 4 and 1; input kinds categorical(probs/logits) binomial gaussian embedding polynomial mixed"
RULE = "one case = (circuit index, semiring, fold, optimize[, batch of one]); non-trivial when the reference output is non-zero; distinct by that tuple"


def run(tier, seed):
    return run_sections("C01", [ST.section_a], {"A", "A-b1"}, BOUND, RULE, tier, seed)
