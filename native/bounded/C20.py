"""C20 bounded stand-in (engine C, labelled bounded - never counted as proved): tensor-factorisation templates against explicit numpy
contractions of their factor tensors, PGM templates against products of their per-variable tables with the per-variable arguments,
logic circuits (decision-style deterministic formulas) against truth tables and model counts."""
import itertools

import numpy as np
import torch

import cirkit.symbolic.functional as SF
from cirkit.symbolic.layers import CategoricalLayer, EmbeddingLayer, HadamardLayer, KroneckerLayer, SumLayer
from cirkit.templates import pgms, tensor_factorizations
from cirkit.templates.logic.graph import (BottomNode, ConjunctionNode, DisjunctionNode, LiteralNode, LogicalCircuit,
                                          NegatedLiteralNode, TopNode)
from native import bridge
from native.bounded._common import FLAGS, Checker
from native.refinterp import ParamStore, eval_circuit, eval_parameter

BOUND = ("cp / tucker: shapes in {(2,3), (3,2,2), (2,2,3,2)} x rank 1..3 x {unweighted, weighted} x four flag settings, every index tuple; tensor_train: "
         "same shapes x rank 1..3, every index tuple: agreement with the reference interpreter and TT-rank of every unfolding <= rank; fully_factorized / hmm: "
         "3..4 variables, every ordering of 3 variables (+ 6 of 4), per-variable num_categories all different, latent states 1..2; logic (decision orders: natural, reversed, rotated - variable 0 not always on top): all 256 Boolean functions "
         "of 3 variables and 16 of 2 (thorough: + 200 random of 4) as ordered decision (deterministic, decomposable) formulas, every complete assignment")
RULE = "one case = (template, arguments, flags, clause); distinct by that tuple"


def _full_tensor(tc, shape):
    idx = np.array(list(itertools.product(*[range(s) for s in shape])), dtype=np.int64)
    return bridge.eval_compiled(tc, idx, "sum-product")[:, 0, :], idx


def run(tier, seed):
    ck = Checker("C20", BOUND, RULE, tier, seed)
    shapes = [(2, 3), (3, 2, 2), (2, 2, 3, 2)]
    n = 0
    for shape, rank, weighted in itertools.product(shapes, (1, 2, 3), (False, True)):
        n += 1
        fold, opt = FLAGS[n % 4]
        for name in ("cp", "tucker"):
            if name == "tucker" and rank ** len(shape) > 81:
                continue
            base = {"template": name, "shape": list(shape), "rank": rank, "weighted": weighted, "fold": fold, "optimize": opt}

            def go():
                from cirkit.templates.utils import Parameterization
                if name == "cp":
                    sc = tensor_factorizations.cp(shape, rank, weight_param=Parameterization(initialization="normal") if weighted else None)
                else:
                    if not weighted:
                        return
                    sc = tensor_factorizations.tucker(shape, rank)
                ctx, tc = bridge.compile_circuit(sc, fold=fold, optimize=opt)
                store = ParamStore(0)
                bridge.sync_store_from_compiled(ctx, [sc], store)
                ck.true("scope", base, set(sc.scope) == set(range(len(shape))), f"scope {sorted(sc.scope)}", nontrivial=False)
                fac = {}
                for il in sc.inputs:
                    (v,) = tuple(il.scope)
                    ck.true("factor_dimension_of_variable", dict(base, var=v), isinstance(il, EmbeddingLayer) and il.num_states == shape[v],
                            f"variable {v}: {getattr(il, 'num_states', None)} states, shape says {shape[v]}")
                    fac[v] = eval_parameter(il.weight, store)  # (R, I_v)
                got, idx = _full_tensor(tc, shape)
                sums = list(sc.sum_layers)
                if name == "cp":
                    w = eval_parameter(sums[0].weight, store) if sums else np.ones((1, rank))
                    ref = np.einsum("or,nr->no", w, np.prod([fac[v][:, idx[:, v]].T for v in range(len(shape))], axis=0))
                else:
                    (kl,) = [l for l in sc.layers if isinstance(l, KroneckerLayer)]
                    order = [tuple(sc.layer_scope(i))[0] for i in sc.layer_inputs(kl)]
                    core = eval_parameter(sums[0].weight, store).reshape((-1,) + (rank,) * len(shape))  # first Kronecker input major
                    letters = "abcdefg"[: len(shape)]
                    ops = [fac[v][:, idx[:, v]] for v in order]  # (R, n)
                    ref = np.einsum("o" + letters + "," + ",".join(l + "n" for l in letters) + "->no", core, *ops)
                ck.eq("equals_documented_contraction", base, got, ref, rtol=1e-9)
            ck.guarded("factorization", base, go)
        base = {"template": "tensor_train", "shape": list(shape), "rank": rank, "fold": fold, "optimize": opt}

        def gott():
            sc = tensor_factorizations.tensor_train(shape, rank)
            ctx, tc = bridge.compile_circuit(sc, fold=fold, optimize=opt)
            store = ParamStore(0)
            bridge.sync_store_from_compiled(ctx, [sc], store)
            got, idx = _full_tensor(tc, shape)
            ck.eq("tt_equals_reference", base, got[:, None, :], eval_circuit(sc, idx, store), rtol=1e-9)
            ck.true("tt_single_output", base, got.shape[1] == 1 or len(shape) == 1, f"{got.shape[1]} output units")
            T = got[:, 0].reshape(shape)
            for k in range(1, len(shape)):
                r = np.linalg.matrix_rank(T.reshape(int(np.prod(shape[:k])), -1), tol=1e-9 * max(1.0, np.abs(T).max()))
                ck.true("tt_unfolding_rank<=rank", dict(base, unfolding=k), r <= rank, f"unfolding {k} has rank {r} > {rank}")
        ck.guarded("tensor_train", base, gott)
    # ---------------- PGM templates
    orderings = [list(p) for p in itertools.permutations(range(3))] + [[3, 1, 0, 2], [2, 3, 1, 0], [0, 1, 2, 3], [1, 0, 3, 2], [3, 2, 1, 0], [2, 0, 3, 1]]
    for m, (ordering, latent) in enumerate(itertools.product(orderings, (1, 2))):
        nv = len(ordering)
        cats = [2 + v for v in range(nv)]
        fold, opt = FLAGS[m % 4]
        base = {"template": "hmm", "ordering": ordering, "latent": latent, "num_categories": cats, "fold": fold, "optimize": opt}

        def gohmm():
            sc = pgms.hmm(ordering, "categorical", num_latent_states=latent, input_layer_kwargs=[{"num_categories": c} for c in cats])
            for il in sc.inputs:
                (v,) = tuple(il.scope)
                ck.true("hmm_kwargs_of_variable", dict(base, var=v), isinstance(il, CategoricalLayer) and il.num_categories == cats[v],
                        f"variable {v} got num_categories={il.num_categories}, listed {cats[v]}")
            ck.true("hmm_scope_units", base, set(sc.scope) == set(range(nv)) and [o.num_output_units for o in sc.outputs] == [1], "scope / output units")
            ctx, tc = bridge.compile_circuit(sc, fold=fold, optimize=opt)
            store = ParamStore(0)
            bridge.sync_store_from_compiled(ctx, [sc], store)
            got, idx = _full_tensor(tc, cats)
            ck.eq("hmm_equals_reference_and_normalised", base, np.array([got.sum()]), np.array([1.0]), rtol=1e-9)
            ck.eq("hmm_equals_reference", base, got[:, None, :], eval_circuit(sc, idx, store), rtol=1e-9)
            # chain structure: with one latent state the joint is a product of per-variable tables
            if latent == 1:
                T = got[:, 0].reshape(cats)
                marg = [T.sum(axis=tuple(a for a in range(nv) if a != v)) for v in range(nv)]
                prod = marg[0]
                for v in range(1, nv):
                    prod = np.multiply.outer(prod, marg[v])
                ck.eq("hmm_one_state_factorises", base, T, prod, rtol=1e-9)
        ck.guarded("hmm", base, gohmm)
    for nv in (1, 3, 4):
        cats = [2 + v for v in range(nv)]
        fold, opt = FLAGS[nv % 4]
        base = {"template": "fully_factorized", "n": nv, "num_categories": cats, "fold": fold, "optimize": opt}

        def goff():
            sc = pgms.fully_factorized(nv, "categorical", input_layer_kwargs=[{"num_categories": c} for c in cats])
            ctx, tc = bridge.compile_circuit(sc, fold=fold, optimize=opt)
            store = ParamStore(0)
            bridge.sync_store_from_compiled(ctx, [sc], store)
            tabs = {}
            for il in sc.inputs:
                (v,) = tuple(il.scope)
                ck.true("ff_kwargs_of_variable", dict(base, var=v), il.num_categories == cats[v], f"variable {v} got {il.num_categories}")
                tabs[v] = eval_parameter(il.probs, store)[0]
            got, idx = _full_tensor(tc, cats)
            ref = np.prod([tabs[v][idx[:, v]] for v in range(nv)], axis=0)
            ck.eq("ff_equals_product_of_tables", base, got[:, 0], ref, rtol=1e-9)
        ck.guarded("fully_factorized", base, goff)
    # ---------------- logic circuits
    def decision(tt, nvars, var=0):
        """ordered decision (deterministic + decomposable) formula of the truth table tt over variables var..nvars-1"""
        if all(tt):
            return None if False else "T"
        if not any(tt):
            return "F"
        half = len(tt) // 2
        lo, hi = decision(tt[:half], nvars, var + 1), decision(tt[half:], nvars, var + 1)  # x_var = 0 | 1 (x_var is the most significant bit)
        return ("ite", var, hi, lo)

    def build(form, nodes, in_nodes, perm=None):
        if form == "T":
            nd = TopNode()
        elif form == "F":
            nd = BottomNode()
        else:
            _, v, hi, lo = form
            v = perm[v] if perm is not None else v          # the decision on position v is made on VARIABLE perm[v]
            branches = []
            for lit, sub in ((LiteralNode(v), hi), (NegatedLiteralNode(v), lo)):
                nodes.append(lit)
                if sub == "F":
                    continue
                if sub == "T":
                    branches.append(lit)
                    continue
                c = ConjunctionNode()
                nodes.append(c)
                in_nodes[c] = [lit, build(sub, nodes, in_nodes, perm)]
                branches.append(c)
            if len(branches) == 1:
                return branches[0]
            nd = DisjunctionNode()
            in_nodes[nd] = branches
        nodes.append(nd)
        return nd

    tables = [(2, t) for t in itertools.product([0, 1], repeat=4)] + [(3, t) for t in itertools.product([0, 1], repeat=8)]
    if tier == "thorough":
        rng = np.random.default_rng(20_000 + seed)
        tables += [(4, tuple(int(b) for b in rng.integers(0, 2, 16))) for _ in range(200)]
    cases = []
    for nvars, tt in tables:
        # variable orders: the natural one, and others in which variable 0 is NOT the top decision (so that it has to be smoothed in below)
        perms = [list(range(nvars)), list(range(nvars))[::-1]] + ([[1, 2, 0]] if nvars == 3 else [])
        for perm in perms:
            cases.append((nvars, tt, perm))
    for nvars, tt, perm in cases:
        form = decision(list(tt), nvars)
        if form in ("T", "F"):
            continue
        case = {"template": "logic", "nvars": nvars, "truth_table": "".join(map(str, tt)), "decision_order": perm}

        def gol():
            nodes, in_nodes = [], {}
            root = build(form, nodes, in_nodes, perm)
            used = {id(x) for ins in in_nodes.values() for x in ins} | {id(root)}
            nodes2 = [x for x in nodes if id(x) in used]
            lc = LogicalCircuit(nodes2, in_nodes, [root])
            sc = lc.build_circuit()
            vs = sorted(sc.scope)
            ctx, tc = bridge.compile_circuit(sc)
            bits = np.array(list(itertools.product([0, 1], repeat=nvars)), dtype=np.int64)      # row r: bit p decides position p of the table
            idx = np.zeros_like(bits)
            for pp in range(nvars):
                idx[:, perm[pp]] = bits[:, pp]
            got = bridge.eval_compiled(tc, idx, "sum-product")[:, 0, 0]
            # enforce_smoothness extends the circuit to the variables of the formula; variables the formula does not mention stay out of scope
            ck.eq("logic_truth_value", case, got, np.array(tt, dtype=float), rtol=0, atol=1e-12)
            with ctx:
                z = ctx.compile(SF.integrate(sc))
            zc = bridge.eval_compiled(z, idx[:1], "sum-product")[0, 0, 0]
            free = nvars - len(vs)
            ck.eq("logic_model_count", dict(case, scope=vs), np.array([zc * 2 ** free]), np.array([float(sum(tt))]), rtol=0, atol=1e-9)
        ck.guarded("logic", case, gol)
    return ck.res
