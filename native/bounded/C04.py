"""C04 bounded stand-in (engine C, labelled bounded - never counted as proved): compiled multiply(c1, c2) == Kronecker-ordered product of the reference values of the operands, or multiply raises"""
from native import selftest_refinterp as ST
from native.bounded._common import run_sections

BOUND = "compatible pairs from a shared scope-partition template with independent units/arity/outputs (<= 3 variables, <= 3 units, arity <= 3, <= 2 outputs each, <= 300 layer pairs), 50 pairs + squares of structured-decomposable generated circuits up to 80 (x4 thorough); kinds categorical(probs/logits) gaussian embedding polynomial; flags rotating; sum-product and lse-sum"
RULE = "one case = (pair index, fold, optimize, semiring, square?); refusals of squares are counted separately as skipped"


def run(tier, seed):
    return run_sections("C04", [ST.section_d], {"D", "D-operands", "D-symbolic"}, BOUND, RULE, tier, seed)
