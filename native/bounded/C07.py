"""C07 bounded stand-in (engine C, labelled bounded - never counted as proved): compiled conjugate(c) == complex conjugate of the reference value"""
from native import selftest_refinterp as ST
from native.bounded._common import run_sections

BOUND = "20 complex embedding/polynomial circuits in complex-lse-sum + 6 real circuits (x4 thorough), flags rotating; conjugates of products of a real- and a complex-parameter circuit (both orders, and complex x complex; 2 unit pairs x 4 flag settings)"
RULE = "one case = (circuit index, semiring, fold, optimize)"


def run(tier, seed):
    res = run_sections("C07", [ST.section_f], {"F", "F-operand", "F-symbolic"}, BOUND, RULE, tier, seed)
    _mixed_products(res, tier, seed)
    return res


def _mixed_products(res, tier, seed):
    """conjugate of a PRODUCT of a real-parameter and a complex-parameter circuit (both orders) and of two complex ones: the parameters of the
    product mix real and complex tensors, and the conjugation must still be applied"""
    import numpy as np
    import cirkit.symbolic.functional as SF
    from cirkit.symbolic.circuit import Circuit
    from cirkit.symbolic.dtypes import DataType
    from cirkit.symbolic.initializers import NormalInitializer
    from cirkit.symbolic.layers import EmbeddingLayer, HadamardLayer, SumLayer
    from cirkit.symbolic.parameters import Parameter, TensorParameter
    from cirkit.utils.scope import Scope
    from native import bridge, gen
    from native.bounded._common import Checker, FLAGS
    from native.refinterp import ParamStore, eval_circuit
    ck = Checker("C07", BOUND, RULE, tier, seed)
    ck.res = res

    def circ(K, dtype):
        f = lambda shape: Parameter.from_input(TensorParameter(*shape, initializer=NormalInitializer(), dtype=dtype))
        ins = [EmbeddingLayer(Scope([v]), K, num_states=3, weight_factory=f) for v in (0, 2)]
        h = HadamardLayer(K, arity=2)
        s = SumLayer(K, 1, arity=1, weight_factory=f)
        return Circuit(ins + [h, s], {h: ins, s: [h]}, [s])
    n = 0
    for K1, K2 in ((2, 3), (1, 2)):
        for d1, d2 in ((DataType.REAL, DataType.COMPLEX), (DataType.COMPLEX, DataType.REAL), (DataType.COMPLEX, DataType.COMPLEX)):
            for fold, opt in FLAGS:
                n += 1
                case = {"section": "mixed_product", "units": [K1, K2], "dtypes": [d1.name, d2.name], "fold": fold, "optimize": opt}

                def go():
                    m = SF.multiply(circ(K1, d1), circ(K2, d2))
                    cm = SF.conjugate(m)
                    ctx, tc = bridge.compile_circuit(cm, semiring="complex-lse-sum", fold=fold, optimize=opt)
                    store = ParamStore(0)
                    bridge.sync_store_from_compiled(ctx, [cm], store)
                    x = gen.gen_inputs(m, 4, 60 + n)
                    ref = np.conj(eval_circuit(m, x, store))
                    ck.true("reference_is_genuinely_complex", case, bool(np.any(np.abs(ref.imag) > 1e-9)), "the product evaluates to a real number", nontrivial=False)
                    ck.eq("conjugate_of_a_mixed_product", case, bridge.eval_compiled(tc, x, "complex-lse-sum"), ref, rtol=1e-7)
                ck.guarded("mixed_product", case, go)
