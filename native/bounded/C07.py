"""C07 bounded stand-in (engine C, labelled bounded - never counted as proved): compiled conjugate(c) == complex conjugate of the reference value"""
from native import selftest_refinterp as ST
from native.bounded._common import run_sections

BOUND = "20 complex embedding/polynomial circuits in complex-lse-sum + 6 real circuits (x4 thorough), flags rotating"
RULE = "one case = (circuit index, semiring, fold, optimize)"


def run(tier, seed):
    return run_sections("C07", [ST.section_f], {"F", "F-operand", "F-symbolic"}, BOUND, RULE, tier, seed)
