"""C08 bounded stand-in (engine C, labelled bounded - never counted as proved): structural predicates against an independent
set-based oracle, with the 2-safety clauses (input-order permutation, injective variable renaming, operand symmetry)."""
import itertools
import random

from cirkit.symbolic.circuit import Circuit, are_compatible
from cirkit.symbolic.layers import EmbeddingLayer, HadamardLayer, SumLayer
from cirkit.utils.scope import Scope
from native.bounded._common import Checker

BOUND = ("random layered DAG specs with 1-unit layers: 2..4 variables drawn from ids 0..12, 2..5 input layers (1..2 variables each), "
         "1..5 inner layers (sum or Hadamard product of arity 1..3 (products 2..3) over earlier layers, NOT constrained to be smooth or decomposable); "
         "600 specs (x5 thorough); every 4th spec is a random hierarchical-partition (vtree) circuit over {1,4,9[,12]} so that compatible and incompatible pairs both occur; per spec: 2 random input-order permutations, 2 injective renamings into 0..40, and pairs (spec_i, spec_j) "
         "over the same variables for compatibility, plus every spec with itself")
RULE = ("one case = (spec index, clause); distinct by the spec's canonical structure and clause; non-trivial when the circuit has at least one "
        "sum and one product layer")


def gen_spec(rng, vs=None):
    vs = vs or sorted(rng.sample(range(13), rng.randint(2, 4)))
    nodes = []
    for _ in range(rng.randint(2, 5)):
        nodes.append(("in", tuple(sorted(rng.sample(vs, rng.randint(1, min(2, len(vs))))))))
    structured = rng.random() < 0.5  # bias towards smooth / decomposable shapes
    for _ in range(rng.randint(1, 5)):
        kind = rng.choice(["sum", "prod"])
        k = rng.randint(2 if kind == "prod" else 1, 3)  # HadamardLayer requires arity >= 2
        if structured:
            scopes = {}
            for i in range(len(nodes)):
                scopes[i] = scope_of(nodes, i)
            if kind == "sum":
                i0 = rng.randrange(len(nodes))
                same = [i for i in scopes if scopes[i] == scopes[i0]]
                ins = [rng.choice(same) for _ in range(k)]
            else:
                ins, used = [], set()
                for i in rng.sample(range(len(nodes)), len(nodes)):
                    if not (scopes[i] & used) and len(ins) < max(2, k):
                        ins.append(i)
                        used |= scopes[i]
                if len(ins) < 2:
                    ins = [rng.randrange(len(nodes)) for _ in range(k)]
        else:
            ins = [rng.randrange(len(nodes)) for _ in range(k)]
        nodes.append((kind, tuple(ins)))
    return nodes


def vtree_spec(rng, vs):
    """a smooth and decomposable spec following a random hierarchical partition of vs (sums of arity 1..2 interleaved)"""
    nodes = []

    def rec(sub):
        if len(sub) == 1:
            nodes.append(("in", (sub[0],)))
        else:
            sub = list(sub)
            rng.shuffle(sub)
            k = rng.randint(2, min(3, len(sub)))
            cuts = sorted(rng.sample(range(1, len(sub)), k - 1))
            parts = [sorted(sub[a:b]) for a, b in zip([0] + cuts, cuts + [len(sub)])]
            ids = [rec(p) for p in parts]
            rng.shuffle(ids)
            nodes.append(("prod", tuple(ids)))
        if rng.random() < 0.4:
            nodes.append(("sum", (len(nodes) - 1,) * rng.randint(1, 2)))
        return len(nodes) - 1
    rec(sorted(vs))
    return nodes


def scope_of(nodes, i):
    kind, arg = nodes[i]
    if kind == "in":
        return frozenset(arg)
    return frozenset().union(*[scope_of(nodes, j) for j in arg])


def build(nodes, rename=None):
    rename = rename or (lambda v: v)
    layers, in_layers = [], {}
    for kind, arg in nodes:
        if kind == "in":
            sl = EmbeddingLayer(Scope([rename(v) for v in arg]), 1, num_states=2) if len(arg) == 1 else None
            if sl is None:  # multivariate input: a Hadamard of univariate embeddings would change the structure, so use
                # an EmbeddingLayer over the first variable only when multivariate layers are not supported
                from cirkit.symbolic.layers import ConstantValueLayer  # noqa: F401
                sl = _multi_input(Scope([rename(v) for v in arg]))
        elif kind == "sum":
            sl = SumLayer(1, 1, arity=len(arg))
        else:
            sl = HadamardLayer(1, arity=len(arg))
        layers.append(sl)
        if kind != "in":
            in_layers[sl] = [layers[j] for j in arg]
    used = {j for kind, arg in nodes if kind != "in" for j in arg}
    outputs = [layers[i] for i in range(len(nodes)) if i not in used]
    return Circuit(layers, in_layers, outputs)


def _multi_input(scope):
    from cirkit.symbolic.layers import InputLayer

    class _MV(InputLayer):  # a minimal multivariate input layer (no parameters): only its scope matters here
        def __init__(self, scope):
            super().__init__(scope, 1)

        @property
        def config(self):
            return {"scope": self.scope}

    return _MV(scope)


# ---- oracle (set-based, written from the definitions)
def oracle(nodes):
    sc = [scope_of(nodes, i) for i in range(len(nodes))]
    smooth = all(sc[j] == sc[i] for i, (k, a) in enumerate(nodes) if k == "sum" for j in a)
    dec = all(not (sc[a[x]] & sc[a[y]]) for i, (k, a) in enumerate(nodes) if k == "prod"
              for x, y in itertools.combinations(range(len(a)), 2))
    return smooth, dec, splits(nodes)


def splits(nodes):
    """scope -> set of splits (frozenset of non-empty sub-scopes, only those with >= 2 parts)"""
    sc = [scope_of(nodes, i) for i in range(len(nodes))]
    out = {}
    for i, (k, a) in enumerate(nodes):
        if k == "prod":
            fs = frozenset(sc[j] for j in a if sc[j])
            if len(fs) > 1:
                out.setdefault(sc[i], set()).add(fs)
    return out


def same_split_everywhere(*split_maps):
    merged = {}
    for m in split_maps:
        for s, fss in m.items():
            merged.setdefault(s, set()).update(fss)
    return all(len(fss) == 1 for fss in merged.values())


def permute(rng, nodes):
    out = []
    for kind, arg in nodes:
        if kind == "in":
            out.append((kind, arg))
        else:
            a = list(arg)
            rng.shuffle(a)
            out.append((kind, tuple(a)))
    return out


def flags(c):
    return (bool(c.is_smooth), bool(c.is_decomposable), bool(c.is_structured_decomposable), bool(c.is_omni_compatible))


def run(tier, seed):
    ck = Checker("C08", BOUND, RULE, tier, seed)
    n = 600 * (5 if tier == "thorough" else 1)
    rng = random.Random(8_000 + seed)
    specs = []
    for i in range(n):
        vs = sorted(rng.sample(range(13), rng.randint(2, 4))) if i % 3 else [1, 4, 9][: rng.randint(2, 3)]
        specs.append(gen_spec(rng, vs) if i % 4 else vtree_spec(rng, [1, 4, 9, 12][: rng.randint(3, 4)]))
    for i, nodes in enumerate(specs):
        case = {"spec": i, "seed": seed, "nodes": nodes}
        kinds = {k for k, _ in nodes}
        nt = {"sum", "prod"} <= kinds

        def go():
            c = build(nodes)
            smooth, dec, sp = oracle(nodes)
            f = flags(c)
            for name, v in zip(("reported_smooth", "reported_decomposable", "reported_structured_decomposable", "reported_omni_compatible"), f):
                ck.res.count(name, int(v))
            ck.true("smooth==def", case, f[0] == smooth, f"is_smooth={f[0]} definition={smooth}", nontrivial=nt)
            ck.true("decomposable==def", case, f[1] == dec, f"is_decomposable={f[1]} definition={dec}", nontrivial=nt)
            ck.true("sd_sound", case, (not f[2]) or (smooth and dec and same_split_everywhere(sp)),
                    f"reported structured-decomposable; smooth={smooth} dec={dec} splits={sp}", nontrivial=nt)
            for t in range(2):
                pn = permute(rng, nodes)
                fp = flags(build(pn))
                ck.true("perm_invariant", dict(case, perm=pn), fp == f, f"flags {f} became {fp} after permuting inputs", nontrivial=nt)
                ids = rng.sample(range(41), 13)
                fr = flags(build(nodes, rename=lambda v: ids[v]))
                ck.true("rename_invariant", dict(case, rename=ids), fr == f, f"flags {f} became {fr} after renaming {ids}", nontrivial=nt)
            ck.true("self_compatible", case, are_compatible(c, build(nodes)) == f[2] or not (smooth and dec),
                    "are_compatible(c, copy of c) differs from is_structured_decomposable", nontrivial=nt)
        ck.guarded("predicates", case, go)
    # pairs
    byvars = {}
    for i, nodes in enumerate(specs):
        allv = frozenset().union(*[scope_of(nodes, j) for j in range(len(nodes))])
        byvars.setdefault(allv, []).append(i)
    npairs = 0
    for allv, idxs in sorted(byvars.items(), key=lambda kv: sorted(kv[0])):
        for i, j in itertools.islice(itertools.combinations(idxs, 2), 40):
            npairs += 1
            a, b = specs[i], specs[j]
            case = {"pair": [i, j], "seed": seed, "a": a, "b": b}

            def go():
                ca, cb = build(a), build(b)
                r1, r2 = bool(are_compatible(ca, cb)), bool(are_compatible(cb, ca))
                ck.res.count("reported_compatible", int(r1))
                ck.true("compat_symmetric", case, r1 == r2, f"are_compatible(a,b)={r1} but (b,a)={r2}")
                sa, da, spa = oracle(a)
                sb, db, spb = oracle(b)
                ck.true("compat_sound", case, (not r1) or (sa and da and sb and db and same_split_everywhere(spa, spb)),
                        f"reported compatible; splits a={spa} b={spb}")
                rp = bool(are_compatible(build(permute(rng, a)), build(permute(rng, b))))
                ck.true("compat_perm_invariant", case, rp == r1, f"are_compatible {r1} became {rp} after permuting inputs")
                ids = rng.sample(range(41), 13)
                rr = bool(are_compatible(build(a, rename=lambda v: ids[v]), build(b, rename=lambda v: ids[v])))
                ck.true("compat_rename_invariant", dict(case, rename=ids), rr == r1, f"are_compatible {r1} became {rr} after renaming")
            ck.guarded("compat", case, go)
    ck.res.count("pairs", npairs)
    return ck.res
