"""C10 bounded stand-in (engine C, labelled bounded - never counted as proved): circuits derived through operator chains
introduce no new learnable tensors and keep their defining relation to the operand after any in-place update of the operand's
parameters (perturbation, reset_parameters, load_state_dict), without recompilation."""
import numpy as np
import torch

import cirkit.symbolic.functional as SF
from cirkit.pipeline import PipelineContext
from cirkit.utils.scope import Scope
from native import bridge, gen
from native.bounded._common import FLAGS, Checker
from native.refinterp import ParamStore, eval_circuit, integral_circuit, domains_of
from native.selftest_refinterp import kron_reference

BOUND = ("40 (x4 thorough) generated circuits (<= 3 variables ids 0..12, <= 3 units, arity <= 3, <= 2 outputs; kinds categorical, categorical-logits, "
         "gaussian, embedding, polynomial), every (fold, optimize) setting rotating; derived in one PipelineContext: integrate (whole scope and a "
         "subset), multiply(c, c) when supported, conjugate, evidence, differentiate (polynomial), integrate(multiply(c, c)), concatenate([c, conjugate(c)]); "
         "histories: [perturb in place, reset_parameters, load_state_dict(perturbed copy), perturb] with the relation re-checked after every step")
RULE = "one case = (circuit index, flags, derived operator chain, history step); distinct by that tuple"


def _learnable_ptrs(tc):
    return {p.data_ptr() for p in tc.parameters() if p.requires_grad}


def run(tier, seed):
    ck = Checker("C10", BOUND, RULE, tier, seed)
    kinds = ("categorical", "categorical-logits", "gaussian", "embedding", "polynomial")
    items = gen.gen_circuits(101 + 1000 * seed, 40 * (4 if tier == "thorough" else 1), input_kinds=kinds, budget=4)
    for n, it in enumerate(items):
        sc, d = it["circuit"], it["desc"]
        fold, opt = FLAGS[n % 4]
        base = {"circuit": d["index"], "seed": d["seed"], "kind": d["kind"], "fold": fold, "optimize": opt}

        def go():
            ctx = PipelineContext(backend="torch", semiring="sum-product", fold=fold, optimize=opt)
            scope = sorted(sc.scope)
            derived = {}  # name -> (symbolic circuit, reference function of (x, store))
            discrete = d["kind"] in ("categorical", "categorical-logits", "embedding")
            if d["kind"] != "polynomial":  # (no symbolic integration rule for polynomial layers: a refusal)
                isc_all = SF.integrate(sc)
                # discrete: the relation is the brute-force sum of the updated operand; continuous: the reference value of the
                # integral circuit under the updated operand parameters (its correctness is C03's matter, here: it tracks the updates)
                derived["integrate(all)"] = (isc_all, (lambda x, st: integral_circuit(sc, set(scope), x, st, domains_of(sc))) if discrete
                                             else (lambda x, st: eval_circuit(isc_all, x, st)))
                if len(scope) > 1:
                    zs = scope[:1]
                    isc_z = SF.integrate(sc, Scope(zs))
                    derived[f"integrate({zs})"] = (isc_z, (lambda x, st: integral_circuit(sc, set(zs), x, st, domains_of(sc))) if discrete
                                                   else (lambda x, st: eval_circuit(isc_z, x, st)))
            derived["conjugate"] = (SF.conjugate(sc), lambda x, st: np.conj(eval_circuit(sc, x, st)))
            xo = gen.gen_inputs(sc, 1, 77 + n)
            if d["kind"] != "polynomial":  # (evidence of polynomial layers evaluates a batch of one: covered by C06)
                obs = {scope[-1]: xo[0, scope[-1]].item()}

                def ev_ref(x, st):
                    xe = x.copy()
                    xe[:, scope[-1]] = xo[0, scope[-1]]
                    return eval_circuit(sc, xe, st)
                derived["evidence"] = (SF.evidence(sc, obs), ev_ref)
            if d["kind"] == "polynomial":
                dsc = SF.differentiate(sc)
                derived["differentiate"] = (dsc, lambda x, st: eval_circuit(dsc, x, st))  # values are C05's matter; here: tracks the updates
            if sc.is_structured_decomposable and len(sc.layers) <= 12:
                try:
                    msc = SF.multiply(sc, sc)
                    derived["multiply(c,c)"] = (msc, lambda x, st: kron_reference(eval_circuit(sc, x, st), eval_circuit(sc, x, st)))
                    if d["kind"] in ("categorical", "categorical-logits", "embedding"):
                        imsc = SF.integrate(msc)
                        derived["integrate(multiply(c,c))"] = (imsc, lambda x, st: eval_circuit(imsc, x, st))
                except Exception as e:  # refusal
                    ck.res.count(f"multiply refused ({type(e).__name__})")
            with ctx:
                tc = ctx.compile(sc)
                dtc = {k: ctx.compile(v[0]) for k, v in derived.items()}
            own = _learnable_ptrs(tc)
            for k, t in dtc.items():
                extra = _learnable_ptrs(t) - own
                ck.true("no_new_learnable_tensor", dict(base, derived=k), not extra, f"{len(extra)} learnable tensors not owned by the operand")
            x = gen.gen_inputs(sc, 3, 5 + n)
            history = ["initial", "perturb", "reset_parameters", "load_state_dict", "perturb2"]
            for step in history:
                with torch.no_grad():
                    if step.startswith("perturb"):
                        for p in tc.parameters():
                            if p.requires_grad:
                                p.add_(0.3 * torch.randn_like(p))
                    elif step == "reset_parameters":
                        tc.reset_parameters()
                    elif step == "load_state_dict":
                        sd = {k_: (v + 0.2 * torch.randn_like(v) if v.dtype.is_floating_point or v.dtype.is_complex else v) for k_, v in tc.state_dict().items()}
                        tc.load_state_dict(sd, strict=True)
                store = ParamStore(0)
                bridge.sync_store_from_compiled(ctx, [sc], store)
                for k, (dsc_, ref) in derived.items():
                    case = dict(base, derived=k, step=step)
                    ck.guarded("relation_after_update", case, lambda: ck.eq("relation_after_update", case, bridge.eval_compiled(dtc[k], x, "sum-product"), ref(x, store), rtol=2e-6))
        ck.guarded("pipeline", base, go)
    return ck.res
