"""Shared helpers of the bounded stand-ins (engine C): adapter from the sections of
native.selftest_refinterp to a native.bounded.Result, numeric comparison and replay scripts."""
from __future__ import annotations

import json
import traceback

import numpy as np
import torch

from native import selftest_refinterp as ST
from native.bounded import Result

FLAGS = ST.FLAGS


def replay_script(prop, seed, tier, needle):
    """Standalone source (run under /venv/bin/python with cwd=/verif): re-runs the bounded stand-in of the
    property on the current tree with the same seed and exits 1 while the recorded case still fails."""
    return (
        "import sys, importlib\n"
        f"mod = importlib.import_module('native.bounded.{prop}')\n"
        f"res = mod.run({tier!r}, {seed}).to_json()\n"
        f"needle = {needle!r}\n"
        "hits = [f for f in res['failures'] if needle in str(f['case'])]\n"
        "for f in hits:\n    print('STILL FAILS', f['case'], '::', f['what'])\n"
        "sys.exit(1 if hits else 0)\n"
    )


class Rep(ST.Report):
    """A selftest Report that books every comparison into a Result (only the sections in `keep`)."""

    def __init__(self, res: Result, prop, seed, tier, keep=None):
        super().__init__()
        self.res, self.prop, self.seed, self.tier, self.keep = res, prop, seed, tier, keep

    def _kept(self, section):
        return self.keep is None or section in self.keep

    def ok(self, section):
        super().ok(section)

    def check(self, section, what, got, ref, rtol=ST.RTOL, atol=ST.ATOL):
        if not self._kept(section):
            return True
        r = super().check(section, what, got, ref, rtol, atol)
        if r:
            ref = np.asarray(ref)
            self.res.count(section)
            self.res.case(f"{section}|{what}",
                          sample={"section": section, "case": _loads(what), "reference_shape": list(ref.shape),
                                  "reference_head": [str(v) for v in ref.ravel()[:3]]},
                          nontrivial=ref.size > 0 and bool(np.any(ref != 0)))
        return r

    def fail(self, section, what, detail):
        if not self._kept(section):
            return
        super().fail(section, what, detail)
        case = {"section": section, "case": _loads(what)}
        self.res.fail(case, detail, replay_script(self.prop, self.seed, self.tier, json.dumps(_loads(what), default=str)[:80]))

    def skip(self, section, why):
        super().skip(section, why)
        self.res.count(f"skipped[{section}] {why}")


def _loads(what):
    try:
        return json.loads(what)
    except Exception:
        return what


def run_sections(prop, sections, keep, bound, rule, tier, seed, scale_thorough=4):
    """sections: list of selftest section functions; keep: section labels that count for this property"""
    torch.manual_seed(20260922 + seed)
    ST.SEED, ST.SCALE = seed, (scale_thorough if tier == "thorough" else 1)
    res = Result(prop, bound, rule)
    rep = Rep(res, prop, seed, tier, keep)
    for fn in sections:
        fn(rep)
    return res


def close(got, ref, rtol=1e-7, atol=1e-9):
    got, ref = np.asarray(got), np.asarray(ref)
    if got.shape != ref.shape:
        return False, f"shape {got.shape} vs reference {ref.shape}"
    if not (np.all(np.isfinite(ref)) and np.all(np.isfinite(got))):
        return False, "non-finite values"
    if not np.allclose(got, ref, rtol=rtol, atol=atol * max(1.0, float(np.max(np.abs(ref))) if ref.size else 1.0)):
        err = float(np.max(np.abs(got - ref) / (np.abs(ref) + atol)))
        return False, f"max rel err {err:.3e}; got {got.ravel()[:4]} ref {ref.ravel()[:4]}"
    return True, ""


class Checker:
    """Tiny helper for hand-written bounded modules: guarded comparisons booked into a Result."""

    def __init__(self, prop, bound, rule, tier, seed):
        torch.manual_seed(20260922 + seed)
        self.res, self.prop, self.tier, self.seed = Result(prop, bound, rule), prop, tier, seed

    def _fail(self, section, case, detail):
        c = {"section": section, "case": case}
        self.res.fail(c, detail, replay_script(self.prop, self.seed, self.tier, json.dumps(case, default=str)[:80]))

    def eq(self, section, case, got, ref, rtol=1e-7, atol=1e-9, nontrivial=True):
        ok, why = close(got, ref, rtol, atol)
        if ok:
            self.res.count(section)
            self.res.case(f"{section}|{json.dumps(case, default=str, sort_keys=True)}",
                          sample={"section": section, "case": case}, nontrivial=nontrivial)
        else:
            self._fail(section, case, why)
        return ok

    def true(self, section, case, cond, detail="", nontrivial=True):
        if cond:
            self.res.count(section)
            self.res.case(f"{section}|{json.dumps(case, default=str, sort_keys=True)}",
                          sample={"section": section, "case": case}, nontrivial=nontrivial)
        else:
            self._fail(section, case, detail or "condition is false")
        return bool(cond)

    def guarded(self, section, case, fn):
        try:
            fn()
        except Exception as e:  # an unexpected exception of the code under check is a failing input
            tb = traceback.extract_tb(e.__traceback__)[-1]
            self._fail(section, case, f"{type(e).__name__}: {e} ({tb.filename}:{tb.lineno})")

    def raises(self, section, case, fn, excs=(Exception,)):
        """the call must be refused with one of `excs`"""
        try:
            fn()
        except excs:
            self.res.count(section)
            self.res.case(f"{section}|{json.dumps(case, default=str, sort_keys=True)}", sample={"section": section, "case": case})
            return True
        except Exception as e:
            self._fail(section, case, f"raised {type(e).__name__}: {e} instead of {[x.__name__ for x in excs]}")
            return False
        self._fail(section, case, "accepted (no exception)")
        return False
