"""C03 bounded stand-in (engine C, labelled bounded - never counted as proved): compiled integrate(c, Z) == brute-force sum / quadrature of the reference interpreter"""
from native import selftest_refinterp as ST
from native.bounded._common import run_sections

BOUND = "generated smooth+decomposable circuits: <= 3 variables with ids in 0..12 (ids >= 8 frequent), <= 3 units, sum arity <= 3, <= 2 outputs (outputs may feed other layers), Hadamard and Kronecker products, shared sub-circuits, layer budget ~5; 60 circuits (x4 thorough), Z = whole scope and one random proper subset, plus a NESTED integration (Z1 then Z2) compared with the marginal over their union, flags rotating, semirings sum-product / lse-sum; continuous variables by trapezoid quadrature on a truncated interval (rtol 2e-6)"
RULE = "one case = (circuit index, Z, fold, optimize, semiring); non-trivial when the marginal is non-zero"


def run(tier, seed):
    return run_sections("C03", [ST.section_c], {"C", "C-symbolic", "C-brute"}, BOUND, RULE, tier, seed)
