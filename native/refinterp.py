"""Independent numpy reference interpreter for *symbolic* cirkit circuits.

Written from the mathematical definitions of the layers / parameter nodes, in plain numpy
(float64 / complex128).  It only *reads* the symbolic objects (cirkit.symbolic.*,
cirkit.utils.scope); it never imports cirkit.backend.* nor cirkit.pipeline (nor torch).

Conventions
-----------
* every layer output is a (B, K) array in LINEAR space;
* the input batch ``x`` has shape (B, D) and column ``v`` holds the value of VARIABLE ID ``v``;
* flattened pairs of indices are always "first operand major":  (i, j) -> i * K2 + j.
"""

import itertools
import math
import warnings

import numpy as np

from cirkit.symbolic import layers as L
from cirkit.symbolic import parameters as P
from cirkit.symbolic.circuit import Circuit
from cirkit.symbolic.dtypes import DataType

REAL, CPLX = np.float64, np.complex128


def _canon(a):
    """Cast to float64, or complex128 if complex."""
    a = np.asarray(a)
    return a.astype(CPLX) if np.iscomplexobj(a) else a.astype(REAL)


# ------------------------------------------------------------------------------------ store


class ParamStore:
    """Maps each symbolic TensorParameter object (by identity) to a numpy array of its shape.

    A TensorParameter that is not yet present gets a value lazily drawn from a seeded RNG:
    standard normal (complex standard normal if its dtype is COMPLEX, or for every parameter if
    ``complex_`` is True); the absolute value of that if ``positive`` is True.
    A ConstantParameter gets its constant ``.value`` (scalar broadcast to shape, or the ndarray).
    Values are cached: the same object always yields the same array.
    """

    def __init__(self, seed=0, complex_=False, positive=False):
        self.seed, self.complex_, self.positive = seed, complex_, positive
        self._rng = np.random.default_rng(seed)
        self._vals = {}  # id(param) -> (param, array); the param is kept alive on purpose

    def __contains__(self, tensor_param):
        return id(tensor_param) in self._vals

    def __len__(self):
        return len(self._vals)

    def items(self):
        return list(self._vals.values())

    def get(self, tensor_param) -> np.ndarray:
        entry = self._vals.get(id(tensor_param))
        if entry is not None:
            return entry[1]
        if not isinstance(tensor_param, P.TensorParameter):
            raise TypeError(f"expected a TensorParameter, found {type(tensor_param)}")
        shape = tuple(tensor_param.shape)
        if isinstance(tensor_param, P.ConstantParameter):
            arr = _canon(np.broadcast_to(np.asarray(tensor_param.value), shape)).copy()
        else:
            arr = self._rng.standard_normal(shape)
            if self.complex_ or tensor_param.dtype == DataType.COMPLEX:
                arr = (arr + 1j * self._rng.standard_normal(shape)) / math.sqrt(2.0)
            if self.positive:
                arr = _canon(np.abs(arr)).astype(arr.dtype)
        self._vals[id(tensor_param)] = (tensor_param, arr)
        return arr

    def set(self, tensor_param, array):
        arr = _canon(array).copy()
        if arr.shape != tuple(tensor_param.shape):
            raise ValueError(f"shape {arr.shape} does not match {tuple(tensor_param.shape)}")
        self._vals[id(tensor_param)] = (tensor_param, arr)

    def clone(self):
        other = ParamStore(self.seed, self.complex_, self.positive)
        other._vals = {k: (p, a.copy()) for k, (p, a) in self._vals.items()}
        return other


# ------------------------------------------------------------------------------- parameters


def _sigmoid(a):
    return 1.0 / (1.0 + np.exp(-a))


def _lse(a, axis, keepdims=False):
    m = np.max(a.real, axis=axis, keepdims=True)
    r = np.log(np.sum(np.exp(a - m), axis=axis, keepdims=True)) + m
    return r if keepdims else np.squeeze(r, axis=axis)


def _outer(a, b, axis, op):
    """out[..., i*K2+j, ...] = op(a[..., i, ...], b[..., j, ...]) along ``axis``."""
    r = op(np.expand_dims(a, axis + 1), np.expand_dims(b, axis))
    return r.reshape(a.shape[:axis] + (a.shape[axis] * b.shape[axis],) + a.shape[axis + 1 :])


def _pair(fn, a, b):
    """out[i*K2+j] = fn(a[i], b[j]) for vectors a (K1,), b (K2,)."""
    return fn(a[:, None], b[None, :]).reshape(-1)


def _eval_pnode(n, ins, store):
    # --- inputs
    if isinstance(n, P.TensorParameter):  # includes ConstantParameter
        return store.get(n)
    if isinstance(n, P.ReferenceParameter):
        return store.get(n.deref())
    # --- structural
    if isinstance(n, P.IndexParameter):
        return np.take(ins[0], list(n.indices), axis=n.axis)
    if isinstance(n, P.SumParameter):
        return ins[0] + ins[1]
    if isinstance(n, P.HadamardParameter):
        return ins[0] * ins[1]
    if isinstance(n, P.KroneckerParameter):
        return np.kron(ins[0], ins[1])
    if isinstance(n, P.OuterProductParameter):
        return _outer(ins[0], ins[1], n.axis, np.multiply)
    if isinstance(n, P.OuterSumParameter):
        return _outer(ins[0], ins[1], n.axis, np.add)
    # --- entrywise
    if isinstance(n, P.ExpParameter):
        return np.exp(ins[0])
    if isinstance(n, P.LogParameter):
        return np.log(ins[0])
    if isinstance(n, P.SquareParameter):
        return ins[0] * ins[0]
    if isinstance(n, P.SoftplusParameter):
        return np.logaddexp(0.0, ins[0])
    if isinstance(n, P.SigmoidParameter):
        return _sigmoid(ins[0])
    if isinstance(n, P.ScaledSigmoidParameter):
        return n.vmin + (n.vmax - n.vmin) * _sigmoid(ins[0])
    if isinstance(n, P.ClampParameter):
        return np.clip(ins[0], n.vmin, n.vmax)
    if isinstance(n, P.ConjugateParameter):
        return np.conj(ins[0])
    # --- reductions
    if isinstance(n, P.ReduceSumParameter):
        return np.sum(ins[0], axis=n.axis)
    if isinstance(n, P.ReduceProductParameter):
        return np.prod(ins[0], axis=n.axis)
    if isinstance(n, P.ReduceLSEParameter):
        return _lse(ins[0], n.axis)
    if isinstance(n, P.SoftmaxParameter):
        return np.exp(ins[0] - _lse(ins[0], n.axis, keepdims=True))
    if isinstance(n, P.LogSoftmaxParameter):
        return ins[0] - _lse(ins[0], n.axis, keepdims=True)
    # --- special
    if isinstance(n, P.MixingWeightParameter):
        (v,) = ins  # (K, H)
        k, h = v.shape
        out = np.zeros((k, h * k), dtype=v.dtype)
        for hi in range(h):
            out[np.arange(k), hi * k + np.arange(k)] = v[:, hi]
        return out
    if isinstance(n, P.GaussianProductMean):
        m1, s1, m2, s2 = ins
        v1, v2 = s1 * s1, s2 * s2
        num = m1[:, None] * v2[None, :] + m2[None, :] * v1[:, None]
        return (num / (v1[:, None] + v2[None, :])).reshape(-1)
    if isinstance(n, P.GaussianProductStddev):
        return _pair(lambda s1, s2: np.sqrt(1.0 / (1.0 / (s1 * s1) + 1.0 / (s2 * s2))), *ins)
    if isinstance(n, P.GaussianProductLogPartition):
        m1, s1, m2, s2 = ins
        v12 = (s1 * s1)[:, None] + (s2 * s2)[None, :]
        d = m1[:, None] - m2[None, :]
        return (-0.5 * (math.log(2.0 * math.pi) + np.log(v12) + d * d / v12)).reshape(-1)
    if isinstance(n, P.PolynomialProduct):
        a, b = ins
        rows = [np.convolve(a[i], b[j]) for i in range(a.shape[0]) for j in range(b.shape[0])]
        return np.stack(rows, axis=0)
    if isinstance(n, P.PolynomialDifferential):
        (c,) = ins
        if c.shape[-1] <= n.order:
            return np.zeros(c.shape[:-1] + (1,), dtype=c.dtype)
        for _ in range(n.order):
            c = c[..., 1:] * np.arange(1, c.shape[-1])
        return c
    raise NotImplementedError(f"no reference semantics for parameter node {type(n).__name__}")


def eval_parameter(p: P.Parameter, store: ParamStore) -> np.ndarray:
    """Evaluate a symbolic parameter computational graph to a float64/complex128 array."""
    vals = {}
    for n in p.topological_ordering():
        out = _canon(_eval_pnode(n, [vals[id(m)] for m in p.node_inputs(n)], store))
        if out.shape != tuple(n.shape):
            raise AssertionError(
                f"{type(n).__name__}: computed shape {out.shape}, declared shape {tuple(n.shape)}"
            )
        vals[id(n)] = out
    return vals[id(p.output)]


# ----------------------------------------------------------------------------------- layers


def _as_index(col, size, what):
    idx = np.asarray(col).real.astype(np.int64)
    if idx.size and (idx.min() < 0 or idx.max() >= size):
        raise ValueError(f"{what}: value outside of the domain 0..{size - 1}")
    return idx


def _eval_input(layer, vals, store):
    """vals: (B, |scope|), the values of the layer variables in increasing id order -> (B, K)."""
    nb, k = vals.shape[0], layer.num_output_units
    if isinstance(layer, L.EvidenceLayer):
        obs = eval_parameter(layer.observation, store)  # (num_variables,)
        return np.broadcast_to(_eval_input(layer.layer, obs[None, :], store), (nb, k))
    if isinstance(layer, L.ConstantValueLayer):
        v = eval_parameter(layer.value, store)
        return np.broadcast_to(np.exp(v) if layer.log_space else v, (nb, k))
    if isinstance(layer, L.CategoricalLayer):
        idx = _as_index(vals[:, 0], layer.num_categories, "Categorical")
        if layer.logits is None:
            table = eval_parameter(layer.probs, store)
        else:
            table = np.exp(eval_parameter(layer.logits, store))
        return table[:, idx].T
    if isinstance(layer, L.EmbeddingLayer):
        idx = _as_index(vals[:, 0], layer.num_states, "Embedding")
        return eval_parameter(layer.weight, store)[:, idx].T
    if isinstance(layer, L.BinomialLayer):
        n = layer.total_count
        cnt = _as_index(vals[:, 0], n + 1, "Binomial")[:, None]  # (B, 1)
        if layer.logits is None:
            pr = eval_parameter(layer.probs, store)
        else:
            pr = _sigmoid(eval_parameter(layer.logits, store))
        binom = np.array([math.comb(n, int(c)) for c in cnt[:, 0]], dtype=REAL)[:, None]
        return binom * pr[None, :] ** cnt * (1.0 - pr[None, :]) ** (n - cnt)
    if isinstance(layer, L.GaussianLayer):
        m = eval_parameter(layer.mean, store)[None, :]
        s = eval_parameter(layer.stddev, store)[None, :]
        z = (vals[:, :1] - m) / s
        out = np.exp(-0.5 * z * z) / (s * math.sqrt(2.0 * math.pi))
        if layer.log_partition is not None:
            out = out * np.exp(eval_parameter(layer.log_partition, store))[None, :]
        return out
    if isinstance(layer, L.PolynomialLayer):
        c = eval_parameter(layer.coeff, store)  # (K, degree + 1), c[k, n] multiplies x^n
        out = np.zeros((nb, k), dtype=np.result_type(c.dtype, vals.dtype))
        for nn in range(c.shape[1]):
            out = out + c[None, :, nn] * vals[:, :1] ** nn
        return out
    raise NotImplementedError(f"no reference semantics for input layer {type(layer).__name__}")


def eval_layer(layer, inputs, x, store) -> np.ndarray:
    """Evaluate one symbolic layer; returns a (B, K_out) array in LINEAR space."""
    x = np.asarray(x)
    if isinstance(layer, L.InputLayer):
        if len(inputs):
            raise AssertionError("an input layer has no layer inputs")
        out = _eval_input(layer, _canon(x[:, sorted(layer.scope)]), store)
    else:
        if len(inputs) != layer.arity:
            raise AssertionError(f"{type(layer).__name__}: arity {layer.arity}, {len(inputs)} inputs")
        if any(a.shape[1] != layer.num_input_units for a in inputs):
            raise AssertionError(f"{type(layer).__name__}: wrong number of input units")
        if isinstance(layer, L.SumLayer):
            w = eval_parameter(layer.weight, store)  # (Ko, H * Ki), column h * Ki + i
            out = np.concatenate(inputs, axis=1) @ w.T
        elif isinstance(layer, L.HadamardLayer):
            out = inputs[0]
            for a in inputs[1:]:
                out = out * a
        elif isinstance(layer, L.KroneckerLayer):
            out = inputs[0]
            for a in inputs[1:]:
                out = (out[:, :, None] * a[:, None, :]).reshape(out.shape[0], -1)
        else:
            raise NotImplementedError(f"no reference semantics for layer {type(layer).__name__}")
    out = _canon(out)
    if out.shape != (x.shape[0], layer.num_output_units):
        raise AssertionError(f"{type(layer).__name__}: output shape {out.shape}")
    return out


def eval_circuit(sc: Circuit, x, store: ParamStore) -> np.ndarray:
    """Evaluate a symbolic circuit bottom-up; returns (B, num_outputs, K) in LINEAR space."""
    x = np.asarray(x)
    if x.ndim != 2:
        raise ValueError("x must have shape (B, D)")
    if len(sc.scope) and x.shape[1] <= max(sc.scope):
        raise ValueError(f"x has {x.shape[1]} columns, but the scope is {sorted(sc.scope)}")
    outs = {}
    for sl in sc.topological_ordering():
        outs[sl] = eval_layer(sl, [outs[i] for i in sc.layer_inputs(sl)], x, store)
    return np.stack([outs[o] for o in sc.outputs], axis=1)


# -------------------------------------------------------------------------------- integrals


def domains_of(sc: Circuit) -> dict:
    """Variable id -> list of values (discrete) or 'real' (continuous), from the input layers."""
    dom = {}

    def put(v, d):
        if v in dom and dom[v] != d:
            raise ValueError(f"variable {v} has inconsistent domains {dom[v]} and {d}")
        dom[v] = d

    for sl in sc.input_layers:
        if isinstance(sl, L.CategoricalLayer):
            d = list(range(sl.num_categories))
        elif isinstance(sl, L.EmbeddingLayer):
            d = list(range(sl.num_states))
        elif isinstance(sl, L.BinomialLayer):
            d = list(range(sl.total_count + 1))
        elif isinstance(sl, (L.GaussianLayer, L.PolynomialLayer)):
            d = "real"
        else:  # constant / evidence layers: empty scope
            continue
        for v in sl.scope:
            put(v, d)
    return dom


def _real_interval(sc, v, store, spec):
    """(lo, hi, n) of the trapezoid rule for variable v.  ``spec`` is 'real' or (lo, hi, n).

    For 'real' the interval and the step are adapted to the Gaussian input layers over v: a
    uniform trapezoid rule with step h has relative error ~ exp(-2 pi^2 sigma^2 / h^2) on a
    Gaussian, so h = sigma_min / 1.75 gives ~1e-26; the tails beyond 8.5 sigma are ~1e-17."""
    if isinstance(spec, tuple):
        return float(spec[0]), float(spec[1]), int(spec[2])
    ms, ss = [], []
    for sl in sc.input_layers:
        if isinstance(sl, L.GaussianLayer) and v in sl.scope:
            ms.append(eval_parameter(sl.mean, store).real)
            ss.append(np.abs(eval_parameter(sl.stddev, store)))
    if not ms:
        return -12.0, 12.0, 4801
    ms, ss = np.concatenate(ms), np.concatenate(ss)
    lo, hi = float(np.min(ms - 8.5 * ss)), float(np.max(ms + 8.5 * ss))
    return lo, hi, max(33, int(math.ceil((hi - lo) / (float(np.min(ss)) / 1.75))) + 1)


def _trapezoid(lo, hi, n):
    w = np.full(n, (hi - lo) / (n - 1))
    w[0] = w[-1] = w[0] / 2.0
    return np.linspace(lo, hi, n), w


def integral_circuit(sc, Z, x, store, domains, *, max_chunk=400_000, max_points=8_000_000):
    """Brute-force marginal of the circuit over the variables Z; returns (B, O, K).

    Discrete variables (domains[v] is a list of values) are summed over; continuous variables
    (domains[v] == 'real', or an explicit tuple (lo, hi, n)) are integrated with a fine trapezoid
    rule over the tensor grid (accurate to ~1e-10 for Gaussian inputs; a warning is emitted if the
    grid had to be coarsened to stay below ``max_points`` joint assignments).  The other columns
    of x are kept."""
    Z = sorted(int(v) for v in Z)
    x = _canon(x)
    if not Z:
        return eval_circuit(sc, x, store)
    real = {v: _real_interval(sc, v, store, domains[v]) for v in Z if not isinstance(domains[v], list)}
    n_disc = math.prod(len(domains[v]) for v in Z if v not in real)
    wanted = n_disc * math.prod(n for _, _, n in real.values())
    if real and wanted > max_points:
        shrink = (max_points / wanted) ** (1.0 / len(real))
        warnings.warn(
            f"integral_circuit: {wanted} grid points wanted, coarsening each real axis by {shrink:.2f}"
        )
        real = {v: (lo, hi, max(33, int(n * shrink))) for v, (lo, hi, n) in real.items()}
    axes = []
    for v in Z:
        if v in real:
            axes.append((v, *_trapezoid(*real[v])))
        else:
            axes.append((v, np.asarray(domains[v], dtype=REAL), np.ones(len(domains[v]))))
    # the trailing axes are vectorised (as long as the chunk stays small), the others are looped
    nb, split, size = x.shape[0], len(axes) - 1, len(axes[-1][1])
    while split > 0 and size * len(axes[split - 1][1]) * nb <= max_chunk:
        split -= 1
        size *= len(axes[split][1])
    outer, inner = axes[:split], axes[split:]
    grids = np.meshgrid(*[a[1] for a in inner], indexing="ij")
    wgrid = np.ones(())
    for a in inner:
        wgrid = np.multiply.outer(wgrid, a[2])
    wflat, m = wgrid.reshape(-1), wgrid.size
    total = None
    for combo in itertools.product(*[range(len(a[1])) for a in outer]):
        xo, wo = x.copy(), 1.0
        for (v, nodes, ws), i in zip(outer, combo):
            xo[:, v] = nodes[i]
            wo *= ws[i]
        big = np.repeat(xo[:, None, :], m, axis=1)  # (B, M, D)
        for (v, _, _), g in zip(inner, grids):
            big[:, :, v] = g.reshape(-1)[None, :]
        y = eval_circuit(sc, big.reshape(nb * m, -1), store)
        y = y.reshape(nb, m, *y.shape[1:])
        part = wo * np.einsum("m,bmok->bok", wflat, y)
        total = part if total is None else total + part
    return total
