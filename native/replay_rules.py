"""Native replay of counter-models of the operator-rule obligations (C03/C04/C05/C07/C10 `*.rule.*`, `copyref`, `ref`)
on the real code of the tree under test.

replay_rule(obligation_id, model) rebuilds the operands natively with the sizes of the verifier's counter-model (then
with every size combination <= 3), applies the REAL rule, and compares the resulting symbolic layer with the clause's
mathematical statement, numerically, through the numpy reference interpreter (native/refinterp.py) on random parameter
values.  Returns 1 when a failing input is found (printing it), 0 otherwise.
"""
from __future__ import annotations

import itertools
import sys

import numpy as np

from cirkit.symbolic import layers as L
from cirkit.symbolic import operators as O
from cirkit.symbolic import parameters as P
from cirkit.symbolic.dtypes import DataType
from cirkit.symbolic.initializers import NormalInitializer
from cirkit.utils.scope import Scope

from native import refinterp as R


def _tp(shape, kind, cplx=False, unary=None):
    dt = DataType.COMPLEX if cplx else DataType.REAL
    t = P.TensorParameter(*shape, initializer=NormalInitializer(), dtype=dt)
    if kind == "reference":
        return P.Parameter.from_input(P.ReferenceParameter(t))
    if kind == "unary":
        return P.Parameter.from_unary((unary or P.ExpParameter)(tuple(shape)), t)
    return P.Parameter.from_input(t)


def _sizes(model, names, lo):
    """first the counter-model (clamped), then all small combinations"""
    inp = (model or {}).get("inputs", {}) if isinstance(model, dict) else {}
    first = []
    for n, l in zip(names, lo):
        v = inp.get(n)
        first.append(max(l, min(5, v)) if isinstance(v, int) else l)
    yield tuple(first)
    for c in itertools.product(*[range(l, l + 3) for l in lo]):
        yield c


def _single(block):
    (layer,) = block.layers
    return layer


def _close(a, b):
    a, b = np.asarray(a), np.asarray(b)
    return a.shape == b.shape and np.allclose(a, b, rtol=1e-7, atol=1e-9, equal_nan=False)


def _grid(C, var):
    x = np.zeros((C, var + 1))
    x[:, var] = np.arange(C)
    return x


def _report(what, **kw):
    print("FAILING INPUT:", what, kw)
    return 1


def replay_rule(oid, model):
    parts = oid.split(".")
    kinds = [k for k in parts if k in ("tensor", "unary", "reference")] or ["tensor"]
    var = 3
    sc = Scope([var])
    for seed in range(2):
        st = lambda **kw: R.ParamStore(seed=seed, **kw)
        if "integrate_embedding_layer" in oid or "integrate_categorical_layer" in oid:
            for K, C in _sizes(model, ["K", "C"], [1, 2]):
                store = st()
                if "embedding" in oid:
                    sl = L.EmbeddingLayer(sc, K, num_states=C, weight=_tp((K, C), kinds[0]))
                    out = _single(O.integrate_embedding_layer(sl, scope=Scope([var, var + 4])))
                elif ".probs." in oid:
                    sl = L.CategoricalLayer(sc, K, num_categories=C, probs=_tp((K, C), "unary", unary=P.SoftmaxParameter))
                    out = _single(O.integrate_categorical_layer(sl, scope=sc))
                else:
                    sl = L.CategoricalLayer(sc, K, num_categories=C, logits=_tp((K, C), kinds[0]))
                    out = _single(O.integrate_categorical_layer(sl, scope=sc))
                ref = R.eval_layer(sl, [], _grid(C, var), store).sum(axis=0)
                got = R.eval_layer(out, [], np.zeros((1, var + 1)), store)[0] if isinstance(out, L.ConstantValueLayer) else None
                if got is None or not _close(got, ref):
                    return _report(oid, K=K, C=C, got=None if got is None else got.tolist(), expected=ref.tolist())
        elif "integrate_gaussian_layer" in oid:
            for (K,) in _sizes(model, ["K"], [1]):
                store = st(positive=True)
                lp = _tp((K,), kinds[0]) if ".lp." in oid else None
                sl = L.GaussianLayer(sc, K, mean=_tp((K,), "tensor"), stddev=_tp((K,), "tensor"), log_partition=lp)
                out = _single(O.integrate_gaussian_layer(sl, scope=sc))
                ref = np.exp(R.eval_parameter(lp, store)) if lp is not None else np.ones(K)
                got = R.eval_layer(out, [], np.zeros((1, var + 1)), store)[0] if isinstance(out, L.ConstantValueLayer) else None
                if got is None or not _close(got, ref):
                    return _report(oid, K=K, got=None if got is None else got.tolist(), expected=ref.tolist())
        elif "multiply_embedding_layers" in oid or "multiply_categorical_layers" in oid or "multiply_gaussian_layers" in oid \
                or "multiply_polynomial_layers" in oid:
            for K1, K2, C in _sizes(model, ["K1", "K2", "C"], [1, 1, 2]):
                store = st(positive="gaussian" in oid)
                k1, k2 = (kinds + kinds)[:2]
                if "embedding" in oid:
                    a = L.EmbeddingLayer(sc, K1, num_states=C, weight=_tp((K1, C), k1))
                    b = L.EmbeddingLayer(sc, K2, num_states=C, weight=_tp((K2, C), k2))
                    out, x = _single(O.multiply_embedding_layers(a, b)), _grid(C, var)
                elif "categorical" in oid:
                    mk = lambda K, which: L.CategoricalLayer(sc, K, num_categories=C, **{which: _tp((K, C), "unary", unary=P.SoftmaxParameter) if which == "probs" else _tp((K, C), k1)})
                    w = [p for p in parts if p in ("logits", "probs")] + ["logits", "logits"]
                    a, b = mk(K1, w[0]), mk(K2, w[1])
                    out, x = _single(O.multiply_categorical_layers(a, b)), _grid(C, var)
                elif "gaussian" in oid:
                    lp = parts[-1] if parts[-1].startswith("lp") else "lp00"
                    a = L.GaussianLayer(sc, K1, mean=_tp((K1,), "tensor"), stddev=_tp((K1,), "tensor"), log_partition=_tp((K1,), "tensor") if lp[2] == "1" else None)
                    b = L.GaussianLayer(sc, K2, mean=_tp((K2,), "reference"), stddev=_tp((K2,), "tensor"), log_partition=_tp((K2,), "reference") if lp[3] == "1" else None)
                    out = _single(O.multiply_gaussian_layers(a, b))
                    x = np.zeros((5, var + 1))
                    x[:, var] = np.linspace(-1.5, 1.5, 5)
                else:
                    a = L.PolynomialLayer(sc, K1, degree=C - 1, coeff=_tp((K1, C), k1))
                    b = L.PolynomialLayer(sc, K2, degree=C, coeff=_tp((K2, C + 1), k2))
                    out = _single(O.multiply_polynomial_layers(a, b))
                    x = np.zeros((5, var + 1))
                    x[:, var] = np.linspace(-1.5, 1.5, 5)
                fa, fb = R.eval_layer(a, [], x, store), R.eval_layer(b, [], x, store)
                ref = (fa[:, :, None] * fb[:, None, :]).reshape(x.shape[0], -1)
                got = R.eval_layer(out, [], x, store)
                if not _close(got, ref):
                    return _report(oid, K1=K1, K2=K2, C=C, max_abs_err=float(np.abs(got - ref).max()) if got.shape == ref.shape else "shape")
        elif "multiply_sum_layers" in oid:
            for Ko1, Ko2, Ki1, Ki2, H1, H2 in _sizes(model, ["Ko1", "Ko2", "Ki1", "Ki2", "H1", "H2"], [1] * 6):
                store = st()
                rng = np.random.default_rng(seed)
                a = L.SumLayer(Ki1, Ko1, arity=H1, weight=_tp((Ko1, H1 * Ki1), kinds[0]))
                b = L.SumLayer(Ki2, Ko2, arity=H2, weight=_tp((Ko2, H2 * Ki2), "tensor"))
                out = _single(O.multiply_sum_layers(a, b))
                u = [rng.standard_normal((2, Ki1)) for _ in range(H1)]
                v = [rng.standard_normal((2, Ki2)) for _ in range(H2)]
                x = np.zeros((2, 1))
                ins = [(p[:, :, None] * q[:, None, :]).reshape(2, -1) for p, q in itertools.product(u, v)]
                fa, fb = R.eval_layer(a, u, x, store), R.eval_layer(b, v, x, store)
                ref = (fa[:, :, None] * fb[:, None, :]).reshape(2, -1)
                got = R.eval_layer(out, ins, x, store)
                if not _close(got, ref):
                    return _report(oid, Ko1=Ko1, Ko2=Ko2, Ki1=Ki1, Ki2=Ki2, H1=H1, H2=H2, max_abs_err=float(np.abs(got - ref).max()))
        elif "conjugate_" in oid:
            for K, C, H in _sizes(model, ["K", "C", "H"], [1, 2, 1]):
                store = st(complex_=True) if ("embedding" in oid or "polynomial" in oid or "sum" in oid) else st(positive=True)
                cplx = True
                if "embedding" in oid:
                    sl = L.EmbeddingLayer(sc, K, num_states=C, weight=_tp((K, C), kinds[0], cplx))
                    out, ins, x = _single(O.conjugate_embedding_layer(sl)), [], _grid(C, var)
                elif "polynomial" in oid:
                    sl = L.PolynomialLayer(sc, K, degree=C, coeff=_tp((K, C + 1), kinds[0], cplx))
                    out, ins = _single(O.conjugate_polynomial_layer(sl)), []
                    x = np.zeros((4, var + 1))
                    x[:, var] = np.linspace(-1, 1, 4)
                elif "sum" in oid:
                    sl = L.SumLayer(C, K, arity=H, weight=_tp((K, H * C), kinds[0], cplx))
                    out = _single(O.conjugate_sum_layer(sl))
                    rng = np.random.default_rng(seed)
                    ins, x = [rng.standard_normal((2, C)) for _ in range(H)], np.zeros((2, 1))
                elif "categorical" in oid:
                    which = "probs" if ".probs." in oid else "logits"
                    sl = L.CategoricalLayer(sc, K, num_categories=C, **{which: _tp((K, C), "unary", unary=P.SoftmaxParameter) if which == "probs" else _tp((K, C), kinds[0])})
                    out, ins, x = _single(O.conjugate_categorical_layer(sl)), [], _grid(C, var)
                else:
                    lp = _tp((K,), kinds[0]) if ".lp1." in oid else None
                    sl = L.GaussianLayer(sc, K, mean=_tp((K,), kinds[0]), stddev=_tp((K,), "tensor"), log_partition=lp)
                    out, ins = _single(O.conjugate_gaussian_layer(sl)), []
                    x = np.zeros((4, var + 1))
                    x[:, var] = np.linspace(-1, 1, 4)
                ref = np.conj(R.eval_layer(sl, ins, x, store))
                got = R.eval_layer(out, ins, x, store)
                if type(out) is not type(sl) or not _close(got, ref):
                    return _report(oid, K=K, C=C, H=H, max_abs_err=float(np.abs(got - ref).max()) if got.shape == ref.shape else "shape")
        elif "differentiate_polynomial_layer" in oid:
            order = int([p for p in parts if p.startswith("order")][0][5:]) if any(p.startswith("order") for p in parts) else 1
            for K, d in _sizes(model, ["K", "d"], [1, 0]):
                store = st()
                sl = L.PolynomialLayer(sc, K, degree=d, coeff=_tp((K, d + 1), kinds[0]))
                out = _single(O.differentiate_polynomial_layer(sl, var_idx=0, order=order))
                c = R.eval_parameter(sl.coeff, store)
                x = np.zeros((4, var + 1))
                x[:, var] = np.linspace(-1, 1, 4)
                ref = np.stack([np.polynomial.polynomial.polyval(x[:, var], np.polynomial.polynomial.polyder(c[k], order)) for k in range(K)], axis=1)
                got = R.eval_layer(out, [], x, store)
                if not _close(got, ref):
                    return _report(oid, K=K, d=d, order=order)
        else:
            print("no native replay for", oid)
            return 0
    print("no failing input found natively for", oid)
    return 0


if __name__ == "__main__":
    import json
    sys.exit(replay_rule(sys.argv[1], json.loads(sys.argv[2]) if len(sys.argv) > 2 else {}))
