"""cd /verif && /venv/bin/python -m native.run_bounded C01 --tier quick --seed 0 --out out.json"""
import argparse
import importlib
import json
import sys
import traceback


def main():
    ap = argparse.ArgumentParser()
    ap.add_argument("prop")
    ap.add_argument("--tier", default="quick")
    ap.add_argument("--seed", type=int, default=0)
    ap.add_argument("--out")
    a = ap.parse_args()
    try:
        mod = importlib.import_module(f"native.bounded.{a.prop}")
        res = mod.run(a.tier, a.seed).to_json()
        res["crash"] = None
    except Exception:  # a crash of the harness is never a violation
        res = {"property": a.prop, "crash": traceback.format_exc()[-3000:], "failures": [], "evaluations": 0,
               "distinct_nontrivial": 0, "samples": [], "known": [], "bound": "", "rule": "", "sections": {}}
    if a.out:
        with open(a.out, "w") as f:
            json.dump(res, f, indent=1, default=str)
    print(json.dumps({k: res[k] for k in ("property", "evaluations", "distinct_nontrivial", "sections")}, default=str))
    for fl in res["failures"]:
        print("FAIL", json.dumps(fl["case"], default=str)[:300], "::", fl["what"][:300])
    for k in res["known"]:
        print("KNOWN", k)
    if res["crash"]:
        print(res["crash"])
        sys.exit(3)
    sys.exit(1 if res["failures"] else 0)


if __name__ == "__main__":
    main()
