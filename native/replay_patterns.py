"""Native replay for the pattern-matcher obligations (C02.opt.match_*): the counter-model (in/out-degrees, class membership, config
values, sub-pattern outcomes) is realised with plain Python objects and the REAL matcher of the tree under test is called on it."""


def fail(msg):
    print("FAILING INPUT:", msg)
    return 1


def _b(v):
    return v is True or str(v).lower() == "true"


def replay(kind, variant, N, model):
    import cirkit.backend.torch.compiler as TC
    import cirkit.backend.torch.graph.optimize as GO
    classes = [type(f"Entry{i}", (), {}) for i in range(N)]
    Other = type("Other", (), {})
    models = [model]
    # neighbourhood: one shared entry / one extra input at each position
    for j in range(N):
        for key in ("indeg", "outdeg"):
            m = {f"indeg{i}": 1 for i in range(N)} | {f"outdeg{i}": 1 for i in range(N)} | {f"isinstance_n{i}_Entry{i}": True for i in range(N)}
            m |= {f"weight{i}_matches": True for i in range(N)} | {f"pattern_arity{i}": 1 for i in range(N)} | {f"layer_arity{i}": 1 for i in range(N)}
            m[f"{key}{j}"] = 2
            models.append(m)
    for m in models:
        inst = [_b(m.get(f"isinstance_n{i}_Entry{i}", False)) for i in range(N)]
        nodes = [(classes[i] if inst[i] else Other)() for i in range(N)]
        extra = [Other() for _ in range(8)]
        L = [int(m.get(f"indeg{i}", 0)) for i in range(N)]
        E = [int(m.get(f"outdeg{i}", 0)) for i in range(N)]
        ins = {id(n): ([nodes[i + 1]] if i + 1 < N else [extra[0]]) + extra[1:4] for i, n in enumerate(nodes)}
        outs = {id(n): ([nodes[i - 1]] if i else [extra[4]]) + extra[5:8] for i, n in enumerate(nodes)}
        inc = lambda n: ins[id(n)][:L[nodes.index(n)]]
        outc = lambda n: outs[id(n)][:E[nodes.index(n)]]
        found = [_b(m.get(f"weight{i}_matches", True)) for i in range(N)]
        want = [int(m.get(f"pattern_arity{i}", 0)) for i in range(N)]
        have = [int(m.get(f"layer_arity{i}", 0)) for i in range(N)]

        class PGraph:
            def __init__(self, i): self.i = i
            def topological_ordering(self): return []
            outputs = []
            def node_inputs(self, n): return []
            def node_outputs(self, n): return []
        subs = [type(f"PPattern{i}", (), {"idx": i}) for i in range(N)]
        for i, n in enumerate(nodes):
            n.config = {"arity": have[i]}
            n.params = {"weight": PGraph(i)}

        class Pattern:
            @classmethod
            def entries(cls): return list(classes)
            @classmethod
            def config_patterns(cls): return [({"arity": want[i]} if variant == "config" else {}) for i in range(N)]
            @classmethod
            def sub_patterns(cls): return [({"weight": subs[i]} if variant == "params" else {}) for i in range(N)]
        orig = TC.match_optimization_patterns
        TC.match_optimization_patterns = lambda o, outs_, pats, **k: (([("pmatch", pats[0].idx)] if found[pats[0].idx] else []), {})
        try:
            fn = TC._match_parameter_nodes_pattern if kind == "parameter" else TC._match_layer_pattern
            try:
                res = fn(nodes[0], Pattern, incomings_fn=inc, outcomings_fn=outc)
            except ValueError:
                continue                      # a leaf at a non-last pattern entry: outside the stated precondition
        finally:
            TC.match_optimization_patterns = orig
        if res is None:
            continue
        desc = f"{kind} pattern of {N} entries, in-degrees {L}, out-degrees {E}, instance-of-entry {inst}"
        if list(res.entries) != nodes or not all(inst):
            return fail(desc + ": a match whose entries are not the chain of instances from the root")
        if any(L[i] != 1 for i in range(N - 1)):
            return fail(desc + ": matched although an inner entry has several inputs")
        if any(E[i] != 1 for i in range(1, N)):
            return fail(desc + ": matched although an entry other than the root has another consumer (fusing it changes what that consumer reads)")
        if kind == "layer" and variant == "config" and want != have:
            return fail(desc + f": matched although the config pattern {want} differs from the layers' config {have}")
        if kind == "layer" and variant == "params" and not all(found):
            return fail(desc + f": matched although a parameter sub-pattern did not match ({found})")
    return 0
