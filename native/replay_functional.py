"""Native replays for the whole-function obligations on cirkit.symbolic.functional: the counter-model (variable ids, unit
counts) is rebuilt with the real constructors of the tree under test and the refuted clause is re-evaluated with plain
frozensets; exit 1 with the failing input when the real code violates it."""
import itertools


def fail(msg):
    print("FAILING INPUT:", msg)
    return 1


def _input(kind, v, K, C):
    import numpy as np
    from cirkit.symbolic import layers as L
    from cirkit.symbolic.parameters import Parameter, TensorParameter
    from cirkit.symbolic.initializers import NormalInitializer
    from cirkit.utils.scope import Scope
    if kind == "embedding":
        return L.EmbeddingLayer(Scope([v]), K, num_states=C)
    if kind.startswith("categorical"):
        return L.CategoricalLayer(Scope([v]), K, num_categories=C)
    return L.GaussianLayer(Scope([v]), K)


def _scopes(circuit):
    sc = {}
    for l in circuit.topological_ordering():
        ins = circuit.layer_inputs(l)
        sc[l] = frozenset(l.scope) if not ins else frozenset().union(*(sc[i] for i in ins))
    return sc


def structural(circuit):
    """(smooth, decomposable) recomputed from the raw layer graph"""
    from cirkit.symbolic import layers as L
    sc = _scopes(circuit)
    smooth = dec = True
    for l in circuit.topological_ordering():
        ins = circuit.layer_inputs(l)
        if isinstance(l, L.SumLayer):
            smooth = smooth and all(sc[i] == sc[l] for i in ins)
        elif isinstance(l, L.ProductLayer):
            dec = dec and all(not (sc[a] & sc[b]) for a, b in itertools.combinations(ins, 2))
    return smooth, dec


def multiply_permuted(hk, kind, model, perm=(1, 0)):
    from cirkit.symbolic import layers as L
    from cirkit.symbolic.circuit import Circuit
    import cirkit.symbolic.functional as SF
    n = len(perm)
    cands = [model] + [dict(K1=k, K2=k, C=c, **{f"v{j}": vs[j] for j in range(n)}) for k in (1, 2) for c in (2, 3) for vs in ((0, 1, 2), (3, 7, 5))]
    for m in cands:
        try:
            K1, K2, C = (int(m[k]) for k in ("K1", "K2", "C"))
            vs = [int(m[f"v{j}"]) for j in range(n)]
        except (KeyError, TypeError, ValueError):
            continue
        if len(set(vs)) != n:
            continue
        ops = []
        for K, order in ((K1, vs), (K2, [vs[j] for j in perm])):
            ins = [_input(kind, v, K, C) for v in order]
            h = getattr(L, hk)(K, arity=n)
            ops.append(Circuit(ins + [h], {h: ins}, [h]))
        try:
            res = SF.multiply(ops[0], ops[1])
        except (NotImplementedError, ValueError):
            continue
        except Exception as e:
            if type(e).__name__ == "StructuralPropertyError":
                continue
            return fail(f"multiply of product layers with permuted inputs {m}: {type(e).__name__}: {e}")
        smooth, dec = structural(res)
        if not (smooth and dec):
            return fail(f"multiply returned a circuit with smooth={smooth} decomposable={dec} for two {hk} circuits over variables "
                        f"{vs} / {[vs[j] for j in perm]} with {K1} / {K2} units, {kind} inputs")
    return 0
