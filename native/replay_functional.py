"""Native replays for the whole-function obligations on cirkit.symbolic.functional: the counter-model (variable ids, unit
counts) is rebuilt with the real constructors of the tree under test and the refuted clause is re-evaluated with plain
frozensets; exit 1 with the failing input when the real code violates it."""
import itertools


def fail(msg):
    print("FAILING INPUT:", msg)
    return 1


def _input(kind, v, K, C):
    import numpy as np
    from cirkit.symbolic import layers as L
    from cirkit.symbolic.parameters import Parameter, TensorParameter
    from cirkit.symbolic.initializers import NormalInitializer
    from cirkit.utils.scope import Scope
    if kind == "embedding":
        return L.EmbeddingLayer(Scope([v]), K, num_states=C)
    if kind.startswith("categorical"):
        return L.CategoricalLayer(Scope([v]), K, num_categories=C)
    return L.GaussianLayer(Scope([v]), K)


def _scopes(circuit):
    sc = {}
    for l in circuit.topological_ordering():
        ins = circuit.layer_inputs(l)
        sc[l] = frozenset(l.scope) if not ins else frozenset().union(*(sc[i] for i in ins))
    return sc


def structural(circuit):
    """(smooth, decomposable) recomputed from the raw layer graph"""
    from cirkit.symbolic import layers as L
    sc = _scopes(circuit)
    smooth = dec = True
    for l in circuit.topological_ordering():
        ins = circuit.layer_inputs(l)
        if isinstance(l, L.SumLayer):
            smooth = smooth and all(sc[i] == sc[l] for i in ins)
        elif isinstance(l, L.ProductLayer):
            dec = dec and all(not (sc[a] & sc[b]) for a, b in itertools.combinations(ins, 2))
    return smooth, dec


def multiply_permuted(hk, kind, model):
    from cirkit.symbolic import layers as L
    from cirkit.symbolic.circuit import Circuit
    import cirkit.symbolic.functional as SF
    cands = [model] + [dict(K1=k, K2=k, C=c, v0=a, v1=b) for k in (1, 2) for c in (2, 3) for a, b in ((0, 1), (3, 7))]
    for m in cands:
        try:
            K1, K2, C, v0, v1 = (int(m[k]) for k in ("K1", "K2", "C", "v0", "v1"))
        except (KeyError, TypeError, ValueError):
            continue
        ops = []
        for K, vs in ((K1, [v0, v1]), (K2, [v1, v0])):
            a, b = (_input(kind, v, K, C) for v in vs)
            h = getattr(L, hk)(K, arity=2)
            ops.append(Circuit([a, b, h], {h: [a, b]}, [h]))
        try:
            res = SF.multiply(ops[0], ops[1])
        except (NotImplementedError, ValueError) as e:
            continue
        except Exception as e:
            if type(e).__name__ == "StructuralPropertyError":
                continue
            return fail(f"multiply of product layers with permuted inputs {m}: {type(e).__name__}: {e}")
        smooth, dec = structural(res)
        if not (smooth and dec):
            return fail(f"multiply returned a circuit with smooth={smooth} decomposable={dec} for two {hk} circuits over variables "
                        f"({v0},{v1}) / ({v1},{v0}) with {K1} / {K2} units, {kind} inputs")
    return 0
