"""Self test of the numpy reference interpreter against compiled torch circuits.

Run with:  cd /verif && /venv/bin/python -m native.selftest_refinterp [-v] [--known-ok] [A B ...]
  -v          print every mismatch           A B ...  run only these sections
  --known-ok  exit 0 if the only failures match KNOWN_CIRKIT_DEFECTS (defects of cirkit itself,
              with minimal reproducers in native/cirkit_findings.py)

Sections
  A  generated circuits x semirings x (fold, optimize): eval_compiled == eval_circuit
     (store read FROM the compiled parameters; for lse-sum a positive store is pushed INTO them;
     A-tied: one store pushed into all the flag variants; A-b1: a batch of size one)
  B  exotic parameter graphs (every parameter node type) compiled vs eval_parameter
  C  SF.integrate compiled == eval_circuit(integral circuit) == brute-force integral_circuit
  D  SF.multiply == Kronecker product of the operands outputs
  E  SF.differentiate == derivative of the interpolating polynomial of eval_circuit
  F  SF.conjugate == conj(eval_circuit)
  G  SF.evidence == eval_circuit at the observed values
Exit status is non-zero on any mismatch.
"""

import itertools
import json
import sys
import time
import traceback

import numpy as np

import cirkit.symbolic.functional as SF
from cirkit.symbolic import parameters as P
from cirkit.symbolic.circuit import Circuit
from cirkit.symbolic.layers import CategoricalLayer, GaussianLayer, HadamardLayer, SumLayer
from cirkit.symbolic.registry import OperatorSignatureNotFound
from cirkit.utils.scope import Scope

from native import bridge, gen
from native.refinterp import (
    ParamStore,
    domains_of,
    eval_circuit,
    eval_parameter,
    integral_circuit,
)

FLAGS = list(itertools.product([False, True], repeat=2))  # (fold, optimize)
RTOL, ATOL = 1e-7, 1e-9
VERBOSE = "-v" in sys.argv
SEED, SCALE = 0, 1  # set by native.bounded: VERIF_SEED shifts every generator seed, the thorough tier scales the counts


def _s(base):
    return base + 1000 * SEED


def _n(count):
    return count * SCALE



# Signatures of failures that were investigated and attributed to cirkit itself (minimal
# reproducers: native/cirkit_findings.py).  They still count as failures,
# unless --known-ok is given.
KNOWN_CIRKIT_DEFECTS = [
    ("view size is not compatible", "R3 TorchTensorDotLayer.forward uses .view on a non-contiguous tensor"),
    ("for 'coeff', found", "R2 TorchPolynomialDifferential loses 'order' when folded"),
    ("poly-diff fold=True", "R2 TorchPolynomialDifferential loses 'order' when folded"),
    ("The expanded size of the tensor", "R1 TorchPolynomialLayer._polyval squeezes a batch of size 1"),
    (" poly-b1", "R1 TorchPolynomialLayer._polyval squeezes a batch of size 1"),
    (" polydiff-fold", "R2 TorchPolynomialDifferential loses 'order' when folded"),
]


def known_defect(what, detail):
    for needle, label in KNOWN_CIRKIT_DEFECTS:
        if needle in detail or needle in what:
            return label
    return None


class Report:
    def __init__(self):
        self.counts, self.failures, self.skipped = {}, [], {}

    def skip(self, section, why):
        self.skipped[(section, why)] = self.skipped.get((section, why), 0) + 1

    def ok(self, section):
        c = self.counts.setdefault(section, [0, 0])
        c[0] += 1

    def fail(self, section, what, detail):
        c = self.counts.setdefault(section, [0, 0])
        c[1] += 1
        self.failures.append((section, what, detail))
        if VERBOSE or len(self.failures) <= 15:
            print(f"  MISMATCH [{section}] {what}\n      {detail}", flush=True)

    def check(self, section, what, got, ref, rtol=RTOL, atol=ATOL):
        got, ref = np.asarray(got), np.asarray(ref)
        if got.shape != ref.shape:
            self.fail(section, what, f"shape {got.shape} vs reference {ref.shape}")
            return False
        if not (np.all(np.isfinite(ref)) and np.all(np.isfinite(got))):
            self.fail(section, what, "non-finite values")
            return False
        if not np.allclose(got, ref, rtol=rtol, atol=atol * max(1.0, float(np.max(np.abs(ref))))):
            err = float(np.max(np.abs(got - ref) / (np.abs(ref) + atol)))
            self.fail(section, what, f"max rel err {err:.3e}; got {got.ravel()[:4]} ref {ref.ravel()[:4]}")
            return False
        self.ok(section)
        return True

    def guarded(self, section, what, fn):
        try:
            fn()
        except Exception as e:  # pylint: disable=broad-except
            tb = traceback.extract_tb(e.__traceback__)[-1]
            self.fail(section, what, f"{type(e).__name__}: {e} ({tb.filename}:{tb.lineno})")


def tag(desc, **kw):
    d = {k: desc[k] for k in ("kind", "seed", "index") if k in desc}
    d.update(kw)
    return json.dumps(d, sort_keys=True)


def prepared_store(ctx, scs, semiring, seed):
    """sum-product / complex-lse-sum: read the store FROM the compiled parameters;
    lse-sum: draw positive values and push them INTO the compiled parameters."""
    if semiring == "lse-sum":
        store = ParamStore(seed, positive=True)
        bridge.push_store_to_compiled(ctx, scs, store)
    else:
        store = ParamStore(seed)
        bridge.sync_store_from_compiled(ctx, scs, store)
    return store


# ----------------------------------------------------------------------------- section A


def section_a(rep):
    items = gen.gen_circuits(_s(11), _n(98), input_kinds=gen.INPUT_KINDS + ("mixed",))
    items += gen.gen_circuits(_s(12), _n(12), input_kinds=gen.COMPLEX_KINDS, complex_params=True)
    for it in items:
        sc, kind, cplx = it["circuit"], it["kind"], it["desc"]["seed"] == _s(12)
        vkinds = {l["type"] for l in it["desc"]["layers"]}
        semirings = ["complex-lse-sum"] if cplx else ["sum-product", "lse-sum"]
        if not cplx and vkinds.isdisjoint({"CategoricalLayer", "BinomialLayer", "GaussianLayer"}):
            semirings.append("complex-lse-sum")
        tied = ParamStore(1000 + it["desc"]["index"])  # shared by the 4 sum-product compilations
        for semiring, (fold, opt) in itertools.product(semirings, FLAGS):
            what = tag(it["desc"], semiring=semiring, fold=fold, optimize=opt)

            def run():
                ctx, tc = bridge.compile_circuit(sc, semiring=semiring, fold=fold, optimize=opt)
                store = prepared_store(ctx, [sc], semiring, 7)
                nonneg = semiring == "lse-sum" and "PolynomialLayer" in vkinds
                x = gen.gen_inputs(sc, 4, 3, nonneg=nonneg)
                rep.check("A", what, bridge.eval_compiled(tc, x, semiring), eval_circuit(sc, x, store))
                poly = " poly-b1" if "PolynomialLayer" in vkinds and fold else ""
                rep.guarded(  # a batch of size 1
                    "A-b1", what + poly,
                    lambda: rep.check("A-b1", what + poly, bridge.eval_compiled(tc, x[:1], semiring),
                                      eval_circuit(sc, x[:1], store)),
                )
                if semiring == "sum-product":  # tie all flag variants to the same parameter values
                    bridge.push_store_to_compiled(ctx, [sc], tied)
                    rep.check(
                        "A-tied", what, bridge.eval_compiled(tc, x, semiring), eval_circuit(sc, x, tied)
                    )

            rep.guarded("A", what, run)


# ----------------------------------------------------------------------------- section B


def _exotic_parameters():
    """(name, Parameter of shape (2, 6)) covering the parameter nodes not reached by the operators."""
    tp = gen._tp  # pylint: disable=protected-access
    un, bi, seq = P.Parameter.from_unary, P.Parameter.from_binary, P.Parameter.from_sequence
    out = []
    out.append(("index-axis1", un(P.IndexParameter((2, 8), indices=[7, 0, 3, 3, 5, 1], axis=1), tp(2, 8))))
    out.append(("index-axis0", un(P.IndexParameter((4, 6), indices=[3, 1], axis=0), tp(4, 6))))
    out.append(("sum-hadamard", bi(P.SumParameter((2, 6), (2, 6)), tp(2, 6),
                                   bi(P.HadamardParameter((2, 6), (2, 6)), tp(2, 6), tp(2, 6)))))
    out.append(("kronecker", bi(P.KroneckerParameter((2, 2), (1, 3)), tp(2, 2), tp(1, 3))))
    out.append(("kronecker-2", bi(P.KroneckerParameter((1, 3), (2, 2)), tp(1, 3), tp(2, 2))))
    out.append(("outer-prod-0", bi(P.OuterProductParameter((2, 6), (1, 6), axis=0), tp(2, 6), tp(1, 6))))
    out.append(("outer-prod-1", bi(P.OuterProductParameter((2, 2), (2, 3), axis=1), tp(2, 2), tp(2, 3))))
    out.append(("outer-sum-1", bi(P.OuterSumParameter((2, 3), (2, 2), axis=-1), tp(2, 3), tp(2, 2))))
    out.append(("outer-sum-0", bi(P.OuterSumParameter((1, 6), (2, 6), axis=0), tp(1, 6), tp(2, 6))))
    out.append(("exp-square-log", seq(tp(2, 6), P.SquareParameter((2, 6)), P.ExpParameter((2, 6)),
                                      P.LogParameter((2, 6)))))
    out.append(("softplus", un(P.SoftplusParameter((2, 6)), tp(2, 6))))
    out.append(("sigmoid", un(P.SigmoidParameter((2, 6)), tp(2, 6))))
    out.append(("scaled-sigmoid", un(P.ScaledSigmoidParameter((2, 6), vmin=0.5, vmax=3.0), tp(2, 6))))
    out.append(("clamp-both", un(P.ClampParameter((2, 6), vmin=-0.3, vmax=0.4), tp(2, 6))))
    out.append(("clamp-min", un(P.ClampParameter((2, 6), vmin=0.1), tp(2, 6))))
    out.append(("clamp-max", un(P.ClampParameter((2, 6), vmax=0.1), tp(2, 6))))
    out.append(("reduce-sum-0", un(P.ReduceSumParameter((3, 2, 6), axis=0), tp(3, 2, 6))))
    out.append(("reduce-sum-1", un(P.ReduceSumParameter((2, 3, 6), axis=1), tp(2, 3, 6))))
    out.append(("reduce-prod-2", un(P.ReduceProductParameter((2, 6, 3), axis=-1), tp(2, 6, 3))))
    out.append(("reduce-lse-1", un(P.ReduceLSEParameter((2, 4, 6), axis=1), tp(2, 4, 6))))
    out.append(("softmax-0", un(P.SoftmaxParameter((2, 6), axis=0), tp(2, 6))))
    out.append(("softmax-1", un(P.SoftmaxParameter((2, 6), axis=1), tp(2, 6))))
    out.append(("log-softmax-0", seq(tp(2, 6), P.LogSoftmaxParameter((2, 6), axis=0), P.ExpParameter((2, 6)))))
    out.append(("log-of-softmax", seq(tp(2, 6), P.SoftmaxParameter((2, 6), axis=1), P.LogParameter((2, 6)),
                                      P.ExpParameter((2, 6)))))
    out.append(("mixing", un(P.MixingWeightParameter((2, 3)), tp(2, 3))))
    out.append(("constant-scalar", P.Parameter.from_input(P.ConstantParameter(2, 6, value=0.75))))
    arr = np.arange(12, dtype=np.float64).reshape(2, 6) / 7.0
    out.append(("constant-array", P.Parameter.from_input(P.ConstantParameter(2, 6, value=arr))))
    out.append(("poly-product", bi(P.PolynomialProduct((2, 3), (1, 4)), tp(2, 3), tp(1, 4))))
    out.append(("poly-diff", un(P.PolynomialDifferential((2, 8), order=2), tp(2, 8))))
    return out


def section_b(rep):
    for name, weight in _exotic_parameters():
        assert weight.shape == (2, 6), (name, weight.shape)
        # weight of a sum layer of arity 2 over two Categorical layers (3 units each), var id 9
        ins = [CategoricalLayer(Scope([9]), 3, num_categories=3) for _ in range(2)]
        sl = SumLayer(3, 2, 2, weight=weight)
        sc = Circuit([*ins, sl], {sl: ins}, [sl])
        for fold, opt in FLAGS:
            what = f"{name} fold={fold} optimize={opt}"

            def run():
                ctx, tc = bridge.compile_circuit(sc, fold=fold, optimize=opt)
                store = ParamStore(0)
                bridge.sync_store_from_compiled(ctx, [sc], store)
                x = np.array([[0] * 9 + [v] for v in range(3)])
                rep.check("B", what, bridge.eval_compiled(tc, x, "sum-product"), eval_circuit(sc, x, store))

            rep.guarded("B", what, run)
    # Gaussian product parameters: as parameters of a Gaussian layer
    tp = gen._tp  # pylint: disable=protected-access
    pos = lambda k: P.Parameter.from_unary(P.SoftplusParameter((k,)), tp(k))  # noqa: E731
    mean = lambda k: P.Parameter.from_input(tp(k))  # noqa: E731
    shapes = ((2,), (2,), (3,), (3,))
    # (independent tensors in the three graphs: references inside one circuit do not fold, see R4)
    gl = GaussianLayer(
        Scope([4]), 6,
        mean=P.Parameter.from_nary(P.GaussianProductMean(*shapes), mean(2), pos(2), mean(3), pos(3)),
        stddev=P.Parameter.from_binary(P.GaussianProductStddev((2,), (3,)), pos(2), pos(3)),
        log_partition=P.Parameter.from_nary(
            P.GaussianProductLogPartition(*shapes), mean(2), pos(2), mean(3), pos(3)
        ),
    )
    sc = Circuit([gl], {}, [gl])
    for fold, opt in FLAGS:
        what = f"gaussian-product fold={fold} optimize={opt}"

        def run():
            ctx, tc = bridge.compile_circuit(sc, fold=fold, optimize=opt)
            store = ParamStore(0)
            bridge.sync_store_from_compiled(ctx, [sc], store)
            x = gen.gen_inputs(sc, 5, 1)
            rep.check("B", what, bridge.eval_compiled(tc, x, "sum-product"), eval_circuit(sc, x, store))

        rep.guarded("B", what, run)
    # pure numpy spot checks of the index conventions (no torch involved)
    st = ParamStore(0)
    a, b = tp(2, 3), tp(4, 3)
    st.set(a, np.arange(6).reshape(2, 3))
    st.set(b, 10 + np.arange(12).reshape(4, 3))
    o = eval_parameter(P.Parameter.from_binary(P.OuterSumParameter((2, 3), (4, 3), axis=0), a, b), st)
    rep.check("B", "outer-sum convention", o[1 * 4 + 2], np.arange(3, 6) + 10 + np.arange(6, 9))
    v = tp(2, 3)
    st.set(v, np.array([[1.0, 2, 3], [4, 5, 6]]))
    w = eval_parameter(P.Parameter.from_unary(P.MixingWeightParameter((2, 3)), v), st)
    rep.check("B", "mixing convention", w, np.array([[1, 0, 2, 0, 3, 0], [0, 4, 0, 5, 0, 6.0]]))


# ----------------------------------------------------------------------------- section C


def section_c(rep):
    kinds = ("categorical", "categorical-logits", "gaussian", "embedding", "mixed")
    items = gen.gen_circuits(_s(21), _n(60), input_kinds=kinds)
    for n, it in enumerate(items):
        sc = it["circuit"]
        rng = np.random.default_rng(n)
        scope = sorted(sc.scope)
        subsets = [scope]
        if len(scope) > 1:
            subsets.append(sorted(rng.choice(scope, size=rng.integers(1, len(scope)), replace=False).tolist()))
        for zs, (fold, opt) in zip(subsets, [FLAGS[n % 4], FLAGS[(n + 1) % 4]]):
            semiring = "lse-sum" if n % 3 == 2 else "sum-product"
            what = tag(it["desc"], Z=zs, fold=fold, optimize=opt, semiring=semiring)

            def run():
                isc = SF.integrate(sc, Scope(zs))
                ctx, itc = bridge.compile_circuit(isc, semiring=semiring, fold=fold, optimize=opt)
                store = prepared_store(ctx, [isc], semiring, 0)
                x = gen.gen_inputs(sc, 2, 5)
                got = bridge.eval_compiled(itc, x, semiring)
                rep.check("C-symbolic", what, got, eval_circuit(isc, x, store))
                brute = integral_circuit(sc, set(zs), x, store, domains_of(sc))
                rep.check("C-brute", what, got, brute, rtol=2e-6)

            rep.guarded("C", what, run)
        if len(scope) > 1:
            # nested integration: integrate(integrate(c, Z1), Z2) is the marginal over Z1 | Z2 (a second operator applied to an integrated circuit)
            z1 = subsets[1]
            rest = [v for v in scope if v not in z1]
            z2 = rest[: max(1, len(rest) // 2)]
            fold, opt = FLAGS[(n + 2) % 4]
            semiring = "lse-sum" if n % 3 == 1 else "sum-product"
            what = tag(it["desc"], Z=[z1, z2], nested=True, fold=fold, optimize=opt, semiring=semiring)

            def run_nested():
                isc = SF.integrate(SF.integrate(sc, Scope(z1)), Scope(z2))
                ctx, itc = bridge.compile_circuit(isc, semiring=semiring, fold=fold, optimize=opt)
                store = prepared_store(ctx, [isc], semiring, 0)
                x = gen.gen_inputs(sc, 2, 5)
                got = bridge.eval_compiled(itc, x, semiring)
                brute = integral_circuit(sc, set(z1) | set(z2), x, store, domains_of(sc))
                rep.check("C-brute", what, got, brute, rtol=2e-6)

            rep.guarded("C", what, run_nested)


# ----------------------------------------------------------------------------- section D


def kron_reference(y1, y2):
    """(B,O1,K1), (B,O2,K2) -> (B, O1*O2, K1*K2), first operand major on both axes."""
    b = y1.shape[0]
    return (y1[:, :, None, :, None] * y2[:, None, :, None, :]).reshape(
        b, y1.shape[1] * y2.shape[1], y1.shape[2] * y2.shape[2]
    )


def section_d(rep):
    pairs = [(c1, c2, d) for c1, c2, d in gen.structured_pairs(_s(31), _n(80))
             if len(c1.layers) * len(c2.layers) <= 300][:_n(50)]
    # squares of structured-decomposable generated circuits
    for it in gen.gen_circuits(_s(32), _n(60), input_kinds=gen.MULTIPLY_KINDS):
        sc = it["circuit"]
        if sc.is_structured_decomposable and len(sc.layers) <= 14 and len(pairs) < _n(80):
            pairs.append((sc, sc, dict(it["desc"], square=True)))
    stats = {"sum-arity>1 both": 0, "kronecker": 0, "hadamard": 0}
    for n, (c1, c2, desc) in enumerate(pairs):
        a1 = max([l.arity for l in c1.sum_layers] + [0])
        a2 = max([l.arity for l in c2.sum_layers] + [0])
        stats["sum-arity>1 both"] += a1 > 1 and a2 > 1
        stats["kronecker"] += any(type(l).__name__ == "KroneckerLayer" for l in c1.layers)
        stats["hadamard"] += any(isinstance(l, HadamardLayer) for l in c1.layers)
        fold, opt = FLAGS[n % 4]
        semiring = "lse-sum" if n % 5 == 4 else "sum-product"
        what = tag(desc, pair=n, fold=fold, optimize=opt, square=bool(desc.get("square")), semiring=semiring)

        def run():
            try:
                psc = SF.multiply(c1, c2)
            except (NotImplementedError, AssertionError, OperatorSignatureNotFound) as e:
                if not desc.get("square"):
                    raise
                rep.skip("D", f"square not supported by multiply ({type(e).__name__})")
                return
            ctx, ptc = bridge.compile_circuit(psc, semiring=semiring, fold=fold, optimize=opt)
            store = prepared_store(ctx, [psc], semiring, 0)
            x = gen.gen_inputs(c1, 3, 2, nonneg=semiring == "lse-sum")
            ref = kron_reference(eval_circuit(c1, x, store), eval_circuit(c2, x, store))
            rep.check("D-operands", what, bridge.eval_compiled(ptc, x, semiring), ref, rtol=1e-6)
            rep.check("D-symbolic", what, eval_circuit(psc, x, store), ref, rtol=1e-6)

        rep.guarded("D", what, run)
    print(f"     multiply coverage: {len(pairs)} pairs, {stats}")


# ----------------------------------------------------------------------------- section E


def derivative_reference(sc, x, store, order):
    """Differentiate w.r.t. each variable the polynomial interpolating eval_circuit (exact: in
    each variable the circuit is a polynomial of degree <= 3 per input layer, <= 8 overall)."""
    y0 = eval_circuit(sc, x, store)  # (B, O, K)
    blocks, deg = [], 9
    nodes = np.cos(np.pi * (np.arange(deg + 1) + 0.5) / (deg + 1)) * 2.0
    for oi, out in enumerate(sc.outputs):
        for v in sorted(sc.layer_scope(out)):
            ys = []
            for t in nodes:
                xt = x.copy()
                xt[:, v] = t
                ys.append(eval_circuit(sc, xt, store)[:, oi, :])
            ys = np.stack(ys, axis=0)  # (deg+1, B, K)
            coef = np.polynomial.polynomial.polyfit(nodes, ys.reshape(deg + 1, -1), deg)
            dcoef = np.polynomial.polynomial.polyder(coef, order, axis=0)
            d = np.empty(ys.shape[1:])
            for b in range(x.shape[0]):
                cb = dcoef.reshape(dcoef.shape[0], x.shape[0], -1)[:, b, :]
                d[b] = np.polynomial.polynomial.polyval(x[b, v], cb)
            blocks.append(d)
        blocks.append(y0[:, oi, :])
    return np.stack(blocks, axis=1)


def section_e(rep):
    items = gen.gen_circuits(_s(41), _n(24), input_kinds=("polynomial",), max_units=2)
    for n, it in enumerate(items):
        sc = it["circuit"]
        for order in (1, 2):
            fold, opt = FLAGS[(n + order) % 4]
            what = tag(it["desc"], order=order, fold=fold, optimize=opt)
            if fold and order > 1:
                what += " polydiff-fold"  # R2: compile error, or silently the first derivative

            def run():
                dsc = SF.differentiate(sc, order=order)
                ctx, dtc = bridge.compile_circuit(dsc, fold=fold, optimize=opt)
                store = ParamStore(0)
                bridge.sync_store_from_compiled(ctx, [dsc], store)
                x = gen.gen_inputs(sc, 3, 4)
                ref = derivative_reference(sc, x, store, order)
                rep.check("E-operand", what, bridge.eval_compiled(dtc, x, "sum-product"), ref, rtol=1e-6, atol=1e-8)
                rep.check("E-symbolic", what, eval_circuit(dsc, x, store), ref, rtol=1e-6, atol=1e-8)

            rep.guarded("E", what, run)
        # a SECOND operator applied to a derivative circuit of order 2 (its layers are copied by reference): conjugation of a real circuit is
        # the identity, so the result must still be the second derivative
        fold, opt = FLAGS[n % 4]
        what = tag(it["desc"], order=2, then="conjugate", fold=fold, optimize=opt)

        def run_then():
            dsc = SF.conjugate(SF.differentiate(sc, order=2))
            ctx, dtc = bridge.compile_circuit(dsc, fold=fold, optimize=opt)
            store = ParamStore(0)
            bridge.sync_store_from_compiled(ctx, [dsc], store)
            x = gen.gen_inputs(sc, 3, 4)
            ref = derivative_reference(sc, x, store, 2)
            rep.check("E-operand", what, bridge.eval_compiled(dtc, x, "sum-product"), ref, rtol=1e-6, atol=1e-8)

        rep.guarded("E", what, run_then)


# ----------------------------------------------------------------------------- section F


def section_f(rep):
    items = gen.gen_circuits(_s(51), _n(20), input_kinds=gen.COMPLEX_KINDS, complex_params=True)
    items += gen.gen_circuits(_s(52), _n(6), input_kinds=("categorical", "gaussian", "categorical-logits"))
    for n, it in enumerate(items):
        sc, cplx = it["circuit"], it["desc"]["seed"] == _s(51)
        semiring = "complex-lse-sum" if cplx else "sum-product"
        fold, opt = FLAGS[n % 4]
        what = tag(it["desc"], semiring=semiring, fold=fold, optimize=opt)

        def run():
            csc = SF.conjugate(sc)
            ctx, ctc = bridge.compile_circuit(csc, semiring=semiring, fold=fold, optimize=opt)
            store = ParamStore(0)
            bridge.sync_store_from_compiled(ctx, [csc], store)
            x = gen.gen_inputs(sc, 3, 6)
            ref = np.conj(eval_circuit(sc, x, store))
            if cplx and not np.iscomplexobj(ref):
                rep.fail("F", what, "expected complex parameters")
            rep.check("F-operand", what, bridge.eval_compiled(ctc, x, semiring), ref)
            rep.check("F-symbolic", what, eval_circuit(csc, x, store), ref)

        rep.guarded("F", what, run)


# ----------------------------------------------------------------------------- section G


def section_g(rep):
    items = gen.gen_circuits(_s(61), _n(49), input_kinds=gen.INPUT_KINDS + ("mixed",))
    for n, it in enumerate(items):
        sc = it["circuit"]
        rng = np.random.default_rng(100 + n)
        scope = sorted(sc.scope)
        zs = sorted(rng.choice(scope, size=rng.integers(1, len(scope) + 1), replace=False).tolist())
        fold, opt = FLAGS[n % 4]
        what = tag(it["desc"], obs=zs, fold=fold, optimize=opt)

        def run():
            xo = gen.gen_inputs(sc, 1, 50 + n)
            obs = {v: (xo[0, v].item()) for v in zs}
            esc = SF.evidence(sc, obs)
            ctx, etc_ = bridge.compile_circuit(esc, fold=fold, optimize=opt)
            store = ParamStore(0)
            bridge.sync_store_from_compiled(ctx, [esc], store)
            x = gen.gen_inputs(sc, 3, 8)
            xe = x.copy()
            xe[:, zs] = xo[0, zs]
            ref = eval_circuit(sc, xe, store)
            rep.check("G-operand", what, bridge.eval_compiled(etc_, x, "sum-product"), ref)
            rep.check("G-symbolic", what, eval_circuit(esc, x, store), ref)

        rep.guarded("G", what, run)


def main():
    import torch  # pylint: disable=import-outside-toplevel

    torch.manual_seed(20260922)  # the compiled parameters are drawn by torch at compile time
    rep = Report()
    t0 = time.time()
    sections = [("A", section_a), ("B", section_b), ("C", section_c), ("D", section_d),
                ("E", section_e), ("F", section_f), ("G", section_g)]
    only = [a for a in sys.argv[1:] if not a.startswith("-")]
    for name, fn in sections:
        if only and name not in only:
            continue
        t = time.time()
        print(f"section {name} ...", flush=True)
        fn(rep)
        print(f"     done in {time.time() - t:.1f}s", flush=True)
    print("\nsummary (checks passed / failed)")
    for k in sorted(rep.counts):
        print(f"  {k:12s} {rep.counts[k][0]:5d} / {rep.counts[k][1]}")
    for (section, why), cnt in sorted(rep.skipped.items()):
        print(f"  skipped [{section}] {cnt} x {why}")
    known, unknown = {}, []
    for section, what, detail in rep.failures:
        label = known_defect(what, detail)
        if label is None:
            unknown.append((section, what, detail))
        else:
            known.setdefault(label, []).append((section, what))
    print(f"total time {time.time() - t0:.1f}s, failures: {len(rep.failures)} "
          f"({len(rep.failures) - len(unknown)} attributed to known cirkit defects)")
    for label, lst in sorted(known.items()):
        print(f"  known cirkit defect {label}: {len(lst)} failures, e.g. [{lst[0][0]}] {lst[0][1]}")
    for section, what, detail in unknown[:40]:
        print(f"  UNEXPLAINED [{section}] {what}: {detail}")
    if unknown or (rep.failures and "--known-ok" not in sys.argv):
        print("FAILED")
        return 1
    print("OK")
    return 0


if __name__ == "__main__":
    sys.exit(main())
