"""Native replay for the C18 obligations: the scenario behind the refuted obligation is executed on the real code of the
tree under test (real contextvars, real dicts); exit 1 with the failing step when the clause is violated natively."""
import sys


def fail(msg):
    print("FAILING INPUT:", msg)
    return 1


def contexts(depth, with_exc):
    import cirkit.pipeline as PL
    from cirkit.symbolic import registry as RG
    ctxs = [PL.PipelineContext(backend="torch", semiring="sum-product", fold=False, optimize=False) for _ in range(depth)]
    regs = [c._op_registry for c in ctxs] + [RG.OPERATOR_REGISTRY.get()]
    if len({id(r) for r in regs}) != len(regs):
        return fail("two pipeline contexts (or a context and the default) share one OperatorRegistry object")
    start = (PL._PIPELINE_CONTEXT.get(), RG.OPERATOR_REGISTRY.get())
    stack = [start]
    try:
        for i, c in enumerate(ctxs):
            c.__enter__()
            act = (PL._PIPELINE_CONTEXT.get(), RG.OPERATOR_REGISTRY.get())
            if act[0] is not c or act[1] is not c._op_registry:
                return fail(f"after entering context {i} of {depth} it is not the active one")
            stack.append(act)
        for i, c in reversed(list(enumerate(ctxs))):
            args = (ValueError, ValueError("x"), None) if with_exc else (None, None, None)
            ret = c.__exit__(*args)
            stack.pop()
            if ret:
                return fail("__exit__ swallows the exception")
            act = (PL._PIPELINE_CONTEXT.get(), RG.OPERATOR_REGISTRY.get())
            if act[0] is not stack[-1][0] or act[1] is not stack[-1][1]:
                return fail(f"after leaving context {i} of {depth} (exception={with_exc}) the previously active context / registry is not restored")
    except Exception as e:  # an exception of the context machinery itself
        return fail(f"nesting depth {depth}, exception={with_exc}: {type(e).__name__}: {e}")
    return 0


def bimap():
    from cirkit.utils.algorithms import BiMap
    bm = BiMap()
    objs = [object() for _ in range(6)]
    for i in range(3):
        bm.add(objs[i], objs[3 + i])
    for i in range(3):
        if not (bm.has_left(objs[i]) and bm.has_right(objs[3 + i]) and bm.get_left(objs[i]) is objs[3 + i] and bm.get_right(objs[3 + i]) is objs[i]):
            return fail(f"BiMap association {i} is not mutual after three adds")
    for l, r in ((objs[0], object()), (object(), objs[3])):
        try:
            bm.add(l, r)
            return fail("BiMap.add accepts an end that is already associated")
        except AssertionError:
            pass
    return 0


def memo():
    from cirkit.backend.torch.compiler import TorchCompiler
    from cirkit.templates import tensor_factorizations as TF
    import cirkit.symbolic.functional as SF
    sc = TF.cp((2, 3), 2)
    comp = TorchCompiler(semiring="sum-product", fold=False, optimize=False)
    cc = comp.compile(sc)
    if comp.compile(sc) is not cc:
        return fail("compile() of an already compiled circuit returns a different object")
    isc = SF.integrate(sc)
    icc = comp.compile(isc)
    if comp.get_compiled_circuit(sc) is not cc or comp.get_symbolic_circuit(icc) is not isc or comp.get_symbolic_circuit(cc) is not sc:
        return fail("registry incoherent after compiling a derived circuit")
    comp2 = TorchCompiler(semiring="sum-product", fold=True, optimize=True)
    m = SF.multiply(sc, sc)
    comp2.compile(SF.integrate(m))
    if not (comp2.is_compiled(sc) and comp2.is_compiled(m)):
        return fail("compile_pipeline did not compile the operands of a derived circuit")
    return 0


def main(oid):
    rc = 0
    if "contexts" in oid or "owns_its" in oid or "module_level" in oid:
        for d in (1, 2, 3):
            for e in (False, True):
                rc = rc or contexts(d, e)
    elif "BiMap" in oid:
        rc = bimap()
    else:
        rc = memo() or bimap()
    if rc == 0:
        print("no failing input found natively for", oid)
    return rc


if __name__ == "__main__":
    sys.exit(main(sys.argv[1]))
