import sys, json
from native.replay_lib import replay_param_node
sys.exit(replay_param_node('OuterProductParameter', json.loads("{\"F\": 1, \"in_shape1\": [2, 3, 2], \"K2\": 2}")))
