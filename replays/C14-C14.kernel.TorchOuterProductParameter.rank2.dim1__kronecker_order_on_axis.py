import sys, json
from native.replay_lib import replay_param_node
sys.exit(replay_param_node('OuterProductParameter', json.loads("{\"F\": 3, \"in_shape1\": [3, 3], \"K2\": 3}")))
