import sys, json
from native.replay_lib import replay_param_node
sys.exit(replay_param_node('ReduceSumParameter', json.loads("{\"F\": 1, \"in_shape\": [2]}")))
