"""CPython cross-check of the symbolic executor, part 2: the symbolic layer of cirkit (imports numpy only, so it loads under python3-vt).

Random small concrete circuits are built twice from one specification - natively with the real classes, and inside the engine with the same
constructor calls - and the real operators (integrate, conjugate, evidence, differentiate, multiply, concatenate) are run on both.  The results are
reduced to a canonical form (layers in topological order with class, scope, unit counts, arity, positions of their inputs; output positions;
structural flags; shapes of every parameter graph's nodes) and must be identical; an exception must be of the same class.
"""
import os
import random
import sys

ROOT = os.path.dirname(os.path.dirname(os.path.abspath(__file__)))
sys.path.insert(0, ROOT)

from engine.repo import REPO  # noqa: E402

sys.path.insert(0, REPO)

from engine import vc as V  # noqa: E402
from engine.repo import Repo  # noqa: E402
from engine.interp import RaiseEx, Unsupported, Path  # noqa: E402
from engine.values import Obj  # noqa: E402
from engine.builtins_ import SymKeyDict  # noqa: E402

SL = "cirkit/symbolic/layers.py"
SCI = "cirkit/symbolic/circuit.py"
SC = "cirkit/utils/scope.py"
SF = "cirkit/symbolic/functional.py"


# ------------------------------------------------------------------------------------------------ specifications
def gen_spec(rng, kind=None):
    nv = rng.randint(1, 3)
    vs = sorted(rng.sample(range(7), nv))
    K = rng.randint(1, 3)
    kind = kind or rng.choice(["categorical", "embedding", "gaussian", "polynomial"])
    layers, ins = [], {}
    reps = rng.randint(1, 2)
    prods = []
    for _ in range(reps):
        inp = []
        for v in vs:
            layers.append(("input", kind, v, K))
            inp.append(len(layers) - 1)
        if nv == 1:
            prods.append(inp[0])
        else:
            pk = rng.choice(["hadamard", "kronecker"]) if nv == 2 and K <= 2 else "hadamard"
            order = inp[:]
            rng.shuffle(order)
            layers.append(("prod", pk, K, nv))
            ins[len(layers) - 1] = order
            prods.append(len(layers) - 1)
    kin = K if layers[prods[0]][0] == "input" or layers[prods[0]][1] == "hadamard" else K ** nv
    if any((layers[p][1] if layers[p][0] == "prod" else "hadamard") != (layers[prods[0]][1] if layers[prods[0]][0] == "prod" else "hadamard") for p in prods):
        kin = None
    Ko = rng.randint(1, 2)
    if kin is None:                                   # mixed product kinds: one sum per product
        outs = []
        for p in prods:
            ku = K if layers[p][0] == "input" or layers[p][1] == "hadamard" else K ** nv
            layers.append(("sum", ku, Ko, 1))
            ins[len(layers) - 1] = [p]
            outs.append(len(layers) - 1)
    else:
        layers.append(("sum", kin, Ko, len(prods)))
        ins[len(layers) - 1] = prods
        outs = [len(layers) - 1]
        if rng.random() < 0.3 and layers[prods[0]][0] == "prod":
            outs.append(prods[0])
    return {"layers": layers, "ins": ins, "outs": outs, "vars": vs, "kind": kind}


def build_native(spec):
    from cirkit.symbolic import layers as L
    from cirkit.symbolic.circuit import Circuit
    from cirkit.utils.scope import Scope
    objs = []
    for l in spec["layers"]:
        if l[0] == "input":
            _, kind, v, K = l
            if kind == "categorical":
                o = L.CategoricalLayer(Scope([v]), K, num_categories=3)
            elif kind == "embedding":
                o = L.EmbeddingLayer(Scope([v]), K, num_states=3)
            elif kind == "gaussian":
                o = L.GaussianLayer(Scope([v]), K)
            else:
                o = L.PolynomialLayer(Scope([v]), K, degree=2)
        elif l[0] == "prod":
            o = (L.HadamardLayer if l[1] == "hadamard" else L.KroneckerLayer)(l[2], arity=l[3])
        else:
            o = L.SumLayer(l[1], l[2], arity=l[3])
        objs.append(o)
    return Circuit(objs, {objs[k]: [objs[i] for i in v] for k, v in spec["ins"].items()}, [objs[i] for i in spec["outs"]])


def build_engine(vc, spec):
    objs = []
    for l in spec["layers"]:
        if l[0] == "input":
            _, kind, v, K = l
            sc = vc.new(f"{SC}:Scope", [v])
            if kind == "categorical":
                o = vc.new(f"{SL}:CategoricalLayer", sc, K, num_categories=3)
            elif kind == "embedding":
                o = vc.new(f"{SL}:EmbeddingLayer", sc, K, num_states=3)
            elif kind == "gaussian":
                o = vc.new(f"{SL}:GaussianLayer", sc, K)
            else:
                o = vc.new(f"{SL}:PolynomialLayer", sc, K, degree=2)
        elif l[0] == "prod":
            o = vc.new(f"{SL}:{'HadamardLayer' if l[1] == 'hadamard' else 'KroneckerLayer'}", l[2], arity=l[3])
        else:
            o = vc.new(f"{SL}:SumLayer", l[1], l[2], arity=l[3])
        objs.append(o)
    return vc.new(f"{SCI}:Circuit", list(objs), {objs[k]: [objs[i] for i in v] for k, v in spec["ins"].items()}, [objs[i] for i in spec["outs"]])


# ------------------------------------------------------------------------------------------------ canonical forms
def canon_native(c):
    order = list(c.topological_ordering())
    pos = {id(l): i for i, l in enumerate(order)}
    rows = []
    for l in order:
        cls = type(l).__name__
        inner = getattr(l, "layer", None)
        params = {n: [tuple(int(x) for x in nd.shape) for nd in p.topological_ordering()] for n, p in l.params.items()}
        rows.append((cls, tuple(sorted(c.layer_scope(l))), int(l.num_input_units), int(l.num_output_units), int(l.arity), tuple(pos[id(i)] for i in c.layer_inputs(l)),
                     type(inner).__name__ if inner is not None else None, sorted((n, tuple(s)) for n, s in params.items())))
    flags = (bool(c.is_smooth), bool(c.is_decomposable), bool(c.is_structured_decomposable), bool(c.is_omni_compatible))
    return rows, tuple(pos[id(o)] for o in c.outputs), tuple(sorted(c.scope)), flags


def canon_engine(vc, c):
    I = vc.I
    it = lambda v: list(I.B.iterate(I, v))
    order = it(vc.call((c, "topological_ordering")))
    pos = {id(l): i for i, l in enumerate(order)}
    rows = []

    def num(v):
        v = I.path.model_free_int(v) if hasattr(I.path, "model_free_int") else v
        return int(str(v)) if not isinstance(v, int) else v
    for l in order:
        inner = l.fields.get("layer") if isinstance(l, Obj) else None
        params = {}
        for n, p in vc.attr(l, "params").items():
            params[n] = [tuple(num(x) for x in it(vc.attr(nd, "shape"))) for nd in it(vc.call((p, "topological_ordering")))]
        rows.append((l.cls.name, tuple(sorted(num(x) for x in it(vc.call((c, "layer_scope"), l)))), num(vc.attr(l, "num_input_units")), num(vc.attr(l, "num_output_units")),
                     num(vc.attr(l, "arity")), tuple(pos[id(i)] for i in it(vc.call((c, "layer_inputs"), l))), inner.cls.name if inner is not None else None,
                     sorted((n, tuple(s)) for n, s in params.items())))
    flags = tuple(bool(I.truth(vc.attr(c, f))) for f in ("is_smooth", "is_decomposable", "is_structured_decomposable", "is_omni_compatible"))
    return rows, tuple(pos[id(o)] for o in it(vc.attr(c, "outputs"))), tuple(sorted(num(x) for x in it(vc.attr(c, "scope")))), flags


def new_vc():
    obl = V.Obl("crosscheck", "C00", lambda vc: None, [], None, "")
    return V.VC(Repo(), Path([]), obl)


def both(label, nat, eng):
    try:
        want = ("ok", canon_native(nat()))
    except Exception as e:  # noqa: BLE001
        want = ("raises", type(e).__name__)
    vc = new_vc()
    try:
        got = ("ok", canon_engine(vc, eng(vc)))
    except RaiseEx as e:
        got = ("raises", e.name)
    return want, got


def main():
    import cirkit.symbolic.functional as NF
    from cirkit.utils.scope import Scope
    from contracts.functional_lib import make_registry
    rng = random.Random(11)
    total = bad = unsupported = 0
    reasons = {}
    for t in range(70):
        kind = "polynomial" if t % 5 == 4 else None
        spec = gen_spec(rng, kind)
        spec2 = dict(spec)                                      # same structure, other unit counts are not needed for a square
        z = sorted(rng.sample(spec["vars"], rng.randint(1, len(spec["vars"]))))
        obs = {v: rng.randint(0, 2) for v in z}
        cases = [
            ("circuit", lambda: build_native(spec), lambda vc: build_engine(vc, spec)),
            ("conjugate", lambda: NF.conjugate(build_native(spec)), lambda vc: vc.call(f"{SF}:conjugate", build_engine(vc, spec), registry=make_registry(vc))),
            ("concatenate", lambda: NF.concatenate([build_native(spec), build_native(spec2)]),
             lambda vc: vc.call(f"{SF}:concatenate", [build_engine(vc, spec), build_engine(vc, spec2)], registry=make_registry(vc))),
        ]
        if spec["kind"] != "polynomial":
            cases.append((f"integrate{z}", lambda: NF.integrate(build_native(spec), scope=Scope(z)),
                          lambda vc: vc.call(f"{SF}:integrate", build_engine(vc, spec), scope=vc.new(f"{SC}:Scope", list(z)), registry=make_registry(vc))))
        if spec["kind"] in ("categorical", "gaussian"):
            cases.append((f"evidence{obs}", lambda: NF.evidence(build_native(spec), dict(obs)),
                          lambda vc: vc.call(f"{SF}:evidence", build_engine(vc, spec), SymKeyDict(list(obs.items())), registry=make_registry(vc))))
        if spec["kind"] == "polynomial":
            o = rng.randint(1, 2)
            cases.append((f"differentiate{o}", lambda: NF.differentiate(build_native(spec), order=o),
                          lambda vc: vc.call(f"{SF}:differentiate", build_engine(vc, spec), order=o, registry=make_registry(vc))))
        if spec["kind"] in ("embedding", "gaussian", "categorical"):
            def nat_sq():
                c = build_native(spec)
                return NF.multiply(c, build_native(spec))
            cases.append(("multiply", nat_sq, lambda vc: vc.call(f"{SF}:multiply", build_engine(vc, spec), build_engine(vc, spec), registry=make_registry(vc))))
        for label, nat, eng in cases:
            total += 1
            try:
                want, got = both(label, nat, eng)
            except Unsupported as e:
                unsupported += 1
                reasons[f"{label.rstrip('0123456789[]{}:, ')}: {e}"] = reasons.get(f"{label.rstrip('0123456789[]{}:, ')}: {e}", 0) + 1
                continue
            if want != got:
                bad += 1
                print(f"MISMATCH {label} spec={spec}\n   CPython {str(want)[:600]}\n   engine  {str(got)[:600]}")
    print(f"engine cross-check (symbolic layer): {total} operator runs on random circuits, {bad} mismatches, {unsupported} outside the engine's subset")
    # ---- templates: tensor factorisations, graphical models, region graphs + build_circuit (a stub `torch` module lets the package import:
    #      only chow_liu.py / data_modalities.py mention torch, and neither is exercised here)
    import types
    if "torch" not in sys.modules:
        t = types.ModuleType("torch")
        t.Tensor = type("Tensor", (), {})
        sys.modules["torch"] = t
    import functools
    import cirkit.templates.tensor_factorizations as NTF
    import cirkit.templates.pgms as NPG
    from cirkit.templates.region_graph import FullyFactorized as NFF, LinearTree as NLT
    from cirkit.templates.utils import Parameterization as NParam, parameterization_to_factory as np2f, name_to_input_layer_factory as nn2f
    from cirkit.symbolic.parameters import mixing_weight_factory as nmix
    from engine.values import PartialVal, ClassVal
    TF, PG, TU = "cirkit/templates/tensor_factorizations.py", "cirkit/templates/pgms.py", "cirkit/templates/utils.py"
    FA, LA = "cirkit/templates/region_graph/algorithms/factorized.py", "cirkit/templates/region_graph/algorithms/linear.py"
    SPp = "cirkit/symbolic/parameters.py"
    tcases = []
    for shape, rank in (((2, 3), 1), ((2, 3), 2), ((3, 2, 2), 2), ((2, 2, 3, 2), 3)):
        for name in ("cp", "tucker", "tensor_train"):
            tcases.append((f"{name}{shape}r{rank}", lambda name=name, shape=shape, rank=rank: getattr(NTF, name)(shape, rank),
                           lambda vc, name=name, shape=shape, rank=rank: vc.call(f"{TF}:{name}", tuple(shape), rank)))
    for order in ([0, 1, 2], [2, 0, 1], [1, 2, 0, 3], [0]):
        kw = {"input_layer": "categorical", "num_latent_states": 2, "input_layer_kwargs": [{"num_categories": 2 + i} for i in range(len(order))]}
        tcases.append((f"hmm{order}", lambda order=order, kw=kw: NPG.hmm(list(order), **kw), lambda vc, order=order, kw=kw: vc.call(f"{PG}:hmm", list(order), **kw)))
    for n in (1, 2, 3):
        kw = {"input_layer": "categorical", "input_layer_kwargs": [{"num_categories": 2 + i} for i in range(n)]}
        tcases.append((f"fully_factorized{n}", lambda n=n, kw=kw: NPG.fully_factorized(n, **kw), lambda vc, n=n, kw=kw: vc.call(f"{PG}:fully_factorized", n, **kw)))
    for alg, n, reps in (("ff", 3, 2), ("ff", 1, 1), ("lt", 3, 1), ("lt", 4, 2), ("lt", 2, 1)):
        for sp in ("cp", "cp-t", "tucker"):
            def nat(alg=alg, n=n, reps=reps, sp=sp):
                rg = (NFF if alg == "ff" else NLT)(n, num_repetitions=reps)
                wf = np2f(NParam(activation="softmax", initialization="normal"))
                return rg.build_circuit(input_factory=nn2f("categorical", num_categories=3), sum_product=sp, sum_weight_factory=wf,
                                        nary_sum_weight_factory=functools.partial(nmix, param_factory=wf), num_input_units=2, num_sum_units=2, num_classes=1)

            def eng(vc, alg=alg, n=n, reps=reps, sp=sp):
                rg = vc.call(f"{FA}:FullyFactorized" if alg == "ff" else f"{LA}:LinearTree", n, num_repetitions=reps)
                wf = vc.call(f"{TU}:parameterization_to_factory", vc.new(f"{TU}:Parameterization", activation="softmax", initialization="normal"))
                nary = PartialVal(vc.I.wrap_resolved(vc.repo.resolve_name(vc.repo.module_by_path(SPp), "mixing_weight_factory")), [], {"param_factory": wf})
                inp = vc.call(f"{TU}:name_to_input_layer_factory", "categorical", num_categories=3)
                return vc.call((rg, "build_circuit"), input_factory=inp, sum_product=sp, sum_weight_factory=wf, nary_sum_weight_factory=nary,
                               num_input_units=2, num_sum_units=2, num_classes=1)
            tcases.append((f"build_circuit.{alg}{n}x{reps}.{sp}", nat, eng))
    tbad = tuns = 0
    for label, nat, eng in tcases:
        try:
            want, got = both(label, nat, eng)
        except Unsupported as e:
            tuns += 1
            reasons[f"{label}: {e}"] = 1
            continue
        if want != got:
            tbad += 1
            print(f"MISMATCH template {label}\n   CPython {str(want)[:700]}\n   engine  {str(got)[:700]}")
    print(f"engine cross-check (templates): {len(tcases)} template circuits, {tbad} mismatches, {tuns} outside the engine's subset")
    bad += tbad
    for r, n in sorted(reasons.items(), key=lambda kv: -kv[1])[:6]:
        print(f"   outside the subset x{n}: {r[:150]}")
    return 1 if bad else 0


if __name__ == "__main__":
    sys.exit(main())
