#!/bin/sh
# runs every quick command of MANIFEST.json in sequence (cwd=/verif), validating the evidence; prints a summary line per check
cd "$(dirname "$0")/.." || exit 3
python3-vt - "$@" <<'PY'
import json, subprocess, sys, time, os
import jsonschema
man = json.load(open("MANIFEST.json"))
jsonschema.validate(man, json.load(open("/root/.vp/MANIFEST.schema.json")))
es = json.load(open("/root/.vp/EVIDENCE.schema.json"))
tier = sys.argv[1] if len(sys.argv) > 1 else "quick"
only = sys.argv[2:]
bad = 0
for c in man["checks"]:
    if only and c["property_id"] not in only:
        continue
    ev = c["evidence_file"]
    if os.path.exists(ev):
        os.unlink(ev)
    t0 = time.time()
    p = subprocess.run(c["quick_cmd" if tier == "quick" else "thorough_cmd"], shell=True, capture_output=True, text=True)
    ok = p.returncode == 0 and "VIOLATION" not in p.stdout
    try:
        e = json.load(open(ev)); jsonschema.validate(e, es); evok = e["level"] == c["level_claimed"]["category"]
    except Exception as ex:
        evok = False; print("   evidence problem:", str(ex)[:300])
    print(f"{c['property_id']} exit={p.returncode} evidence_ok={evok} {time.time()-t0:.1f}s :: {p.stdout.strip().splitlines()[-1][:200] if p.stdout.strip() else p.stderr[-300:]}")
    if not ok or not evok:
        bad += 1; print(p.stdout[-1500:], p.stderr[-1500:])
sys.exit(1 if bad else 0)
PY
