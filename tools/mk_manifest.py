"""Regenerates /verif/MANIFEST.json from the table below:  python3 tools/mk_manifest.py"""
import json
import os

ROOT = os.path.dirname(os.path.dirname(os.path.abspath(__file__)))

BOUNDED_NOTE = ("bounded stand-in only (never counted as proved): trusted are the numpy reference interpreter native/refinterp.py "
                "(the oracle, written from the mathematical definitions, reads only the symbolic circuit), the circuit generator "
                "native/gen.py, float64 comparison tolerances (rtol 1e-7 .. 2e-6), and the stated bound on sizes")
PROOF_NOTE = ("trusted: the self-written VC generator (engine/*.py, symbolic execution of the function bodies re-read from /repo on "
              "every run), z3/cvc5, assumed contracts of Python builtins and of the torch primitives (engine/tensor.py), floats "
              "treated as reals, int64 overflow ignored; rank of parameter tensors enumerated up to 3 (quick) / 4 (thorough)")

# property -> (category, text, level_note, technique, design_ref)
CHECKS = {
    "C14": ("proof",
            "every symbolic parameter node's shape/axis arithmetic (all ranks, all axes), every compilation rule (torch node gets the "
            "same shapes, axis and integers), every torch parameter kernel's forward (declared shape, element-wise equality with the "
            "mathematical definition along the declared axis, fold-pointwise) and the folding step of parameter nodes (equal fold settings imply "
            "equal configuration; a node rebuilt from its configuration with F folds is the same node), the evaluation of composite parameter graphs "
            "(ParameterAddressBook.lookup per entry by the loop rule, evaluate, per-operand address-book entries), the parameter-graph pattern matcher (exclusive "
            "chains only) and the Log o Softmax fusion are discharged as SMT obligations generated "
            "from the real function bodies; complete in dimension sizes and folds, rank-enumerated for kernels; a labelled bounded stand-in "
            "(node classes x small shapes x folds vs the numpy definition) runs beside it and is not counted",
            PROOF_NOTE, "contracts + self-written VC generation (AST symbolic execution) discharged by z3/cvc5", "4/C14"),
}


def bounded(text, extra_note=""):
    return ("exploration", "BOUNDED STAND-IN, not a proof: " + text, BOUNDED_NOTE + extra_note,
            "bounded native check of the real functions against an independent reference (engine C)", "2.7")


def mixed(text, extra_note=""):
    return ("other", text, PROOF_NOTE + " || for the bounded part: " + BOUNDED_NOTE + extra_note,
            "contract obligations (z3/cvc5) on the functions within reach + labelled bounded stand-in for the rest", "4")


CHECKS.update({
    "C01": mixed("contract obligations: wiring of _compile_circuit / compile_parameter on templates (each layer / node compiled once in topological order, "
                 "inputs mirrored in order, outputs in declared order, registration); every layer compilation rule (kind, integers, compiler's semiring, scope "
                 "index = variable id, same-named parameters); the compiled layers' kernels (sum: column h*Ki+i <-> unit i of input h; hadamard; kronecker "
                 "first-input-major; embedding / categorical / gaussian / binomial / constant / evidence; shape (F, B, K); fold- and batch-pointwise, also for "
                 "batch == folds) in the linear semiring; the address-book entry (decode through prefix sums of fold counts, shortcuts only for the identity) for "
                 "F x H <= 4 and every module pattern, per-operand entries of parameter graphs, from_index_info of both address books, build_unfold_index_info; "
                 "LayerAddressBook.lookup by the loop rule (ONE entry from an arbitrary list of earlier outputs: indexed / concatenated / shortcut gathers, input "
                 "batch columns by scope index, constant layers) and TorchDiAcyclicGraph.evaluate (entry i applied after exactly i outputs, module_fn honoured); "
                 "frame: evaluation never updates a possibly aliased tensor in place; the log-space semirings' max-shift and the end-to-end statement on "
                 "arbitrary DAGs are covered only by the bounded stand-in (compiled circuits vs the reference interpreter on "
                 "generated circuits x semirings x flags x batch sizes)"),
    "C02": mixed("contract obligations: fold_settings 2-safety (equal fold settings imply equal configuration) and rebuild-from-config for every "
                 "parameter node and for tensor parameters (shape, requires_grad, dtype); the einsum optimisation rule equals ReduceSum o OuterProduct "
                 "for every rank <= 4 and dim pair; fold-pointwise kernels (shared with C14); 2-safety of fold_settings for EVERY concrete layer class (classes read "
                 "from the tree: equal fold settings imply equal config, parameter names / shapes, number of variables) and _fold_layers_group (config of the group, "
                 "scope_idx / parameters / wrapped layers in group order, folds summed); build_unfold_index_info and build_folded_graph on templates and by the loop rule (list of symbolic length, symbolic fold ids, groups of 1-3 modules of arity 0-3; "
                 "suffix for 1-3 outputs), address-book entries on templates; the pattern "
                 "matchers _match_parameter_nodes_pattern / _match_layer_pattern return only exclusive chains (symbolic in/out-degrees, free class membership, "
                 "pattern length <= 4, config and parameter sub-patterns); apply_tucker / apply_candecomp / apply_sum_collapse and the fused kernels in the "
                 "compiler's semiring; the tensor-dot layer's kernel and the shatter rules for Kronecker-product weights; optimize_graph (denotation-preserving on "
                 "8 graph templates with uninterpreted module functions; its main loop by the loop rule with frame-guarded maps); group_foldable_modules (grouped "
                 "only if foldable, incl. wrapped sub-modules); layerwise_topological_ordering; the glue (_post_process_circuit, _fold_circuit, _fold_parameters, "
                 "_optimize_layers, _optimize_parameter_nodes, _optimize_circuit) and the compiler's parameter registry (frame-guarded); match_optimization_patterns + _prioritize_optimization_strategy on six "
                 "graph templates (every subset of the candidate chains found, every priority order: returned matches pairwise disjoint, module map consistent with "
                 "them, outputs never fused away) = the precondition of optimize_graph; prioritisation on longer line graphs and flag-independence end-to-end on arbitrary circuits are a bounded stand-in: four flag settings with tied parameters vs the reference interpreter"),
    "C03": mixed("contract obligations: every integration rule against the spec integral (sum over states / logsumexp / log-partition, right space flag, "
                 "refusal outside the scope) for all sizes; functional.integrate executed symbolically on four circuit templates x five input kinds with "
                 "symbolic variable ids, unit counts and Z: one layer per layer, wiring and output order mirrored, integrated layers constant, others "
                 "reference copies, result scope = scope \\ Z; the loop of functional.integrate by the Hoare loop rule on the real statements (prefix, ONE iteration "
                 "from an arbitrary state of the layer->block map per layer kind, suffix for 1-3 outputs; the induction principle itself is assumed); the constant "
                 "layer's kernel, its fold_settings (log_space never merged) and the einsum rewrite of the integrals of products; the numeric end-to-end "
                 "statement (incl. nested = union) on arbitrary DAGs only by the bounded stand-in vs brute-force sums / quadrature"),
    "C04": mixed("contract obligations: every multiplication rule places unit (o1, o2) at o1*K2+o2 and computes the product (embedding, categorical in "
                 "logits/probs combinations, gaussian closed forms with operand log-partitions, polynomial operand order and degree, hadamard) and the "
                 "sum-layer alignment lemma (Kronecker weight columns vs product inputs (h1,h2) and units (i1,i2)) for ALL arities and unit counts; refusals "
                 "on different scopes / state counts; functional.multiply executed on four template pairs x three input kinds (pair layers by the rules of their "
                 "classes, sum x sum inputs first-operand-major, product x product zipped, disjoint scopes as a binary Kronecker over copies, outputs = product "
                 "of the output lists, references to exactly the two operand layers' tensors); the Kronecker-layer permutation matrix (numpy eye / transpose modelled as tensor operations; arity 2, 3); arbitrary DAGs "
                 "only by the bounded stand-in (compiled multiply vs Kronecker-ordered product of reference values)"),
    "C05": mixed("contract obligations: Scope.__iter__ strictly increasing for every finite set of ids (set iteration modelled as arbitrary order); "
                 "differentiate_polynomial_layer coefficients / degree / zero polynomial / refusal for orders 1..3; TorchPolynomialDifferential kernel; "
                 "functional.differentiate executed on four templates (single polynomial, 2-ary Kronecker and Hadamard products, 3-ary product) for orders 1-2: "
                 "outputs variable-major then order, differentiated input kept at its position in Kronecker products; the layer loop by the loop rule (input / sum / "
                 "product steps for every interleaving of symbolic variable ids; suffix); copies of the differential node keep its order; arbitrary DAGs "
                 "end-to-end only by the bounded stand-in vs exact polynomial derivatives (incl. a second operator on a derivative circuit)"),
    "C06": mixed("contract obligations: functional.evidence executed symbolically on four templates x three input kinds (observed layers become evidence "
                 "layers over a reference copy observing the value of their own variable, scope = scope \\ obs, refusals) and functional.concatenate on "
                 "three operand pairs (layers and outputs operand by operand); evidence-layer kernel (same value for every batch row, wrapped layer at the "
                 "observation of its fold); the loop of functional.evidence by the Hoare loop rule (one iteration from an arbitrary map state); tensors of "
                 "different dtype never share a fold, evidence layers fold only with equal wrapped configuration (grouping key recurses into sub-modules); "
                 "functional.concatenate by the loop rule (nested loops: layer step, operand outputs in declared order, suffix); arbitrary DAG shapes / flags by the "
                 "bounded stand-in"),
    "C07": mixed("contract obligations: every conjugation rule keeps class, scope, configuration and EVERY parameter (conjugated for embedding / "
                 "polynomial / sum, carried over for categorical / gaussian incl. log_partition) for complex and real operands and for references into "
                 "operand tensors; functional.conjugate on four templates x four input kinds (outputs in DECLARED order) and its loop by the Hoare loop rule; "
                 "compile_parameter never compiles a conjugation away unless every tensor underneath is real; numeric clause conj(c) incl. conjugates of derived "
                 "circuits and of mixed real x complex products by the bounded stand-in"),
    "C08": mixed("contract obligations on circuit templates whose variable ids are symbolic and NOT assumed distinct (every equality pattern of the ids "
                 "is explored): is_smooth / is_decomposable iff their definitions (arity 3 and 4 products: ALL pairs; sums; a product over a non-smooth sum in "
                 "both input orders), Scope.__hash__ respects equality of scopes (hash a function of the set, iteration order of a set arbitrary), "
                 "is_structured_decomposable and are_compatible sound w.r.t. 'same scope => same set of sub-scopes', are_compatible symmetric "
                 "and independent of product-input order; arbitrary circuits (incl. empty scopes, renaming of variables) by the bounded stand-in against an "
                 "independent set-based oracle"),
    "C09": mixed("contract obligations: integrate / differentiate / multiply refuse a non-smooth and a non-decomposable (non-adjacent overlap in an "
                 "arity-3 product) template with StructuralPropertyError; integrate and evidence refuse empty / foreign variable sets, differentiate and the "
                 "polynomial rule refuse orders <= 0, rules refuse foreign scopes (ValueError); multiply of product layers listing their inputs in different scope "
                 "orders - every permutation of arity 2 and 3 - is refused or returns a circuit that is still smooth and decomposable (Hadamard and Kronecker, "
                 "three input kinds); result structure of every operator on the templates (smooth, decomposable, documented scope and number of outputs, products "
                 "of SD operands SD and compatible with both operands by the definition, conjugation keeps every flag); "
                 "flags of results of arbitrary circuits recomputed by an independent oracle only in the bounded stand-in"),
    "C10": mixed("contract obligations: Parameter.ref on seven parameter-graph shapes and Layer.copyref for every layer class denote the same value of "
                 "the SAME tensor objects, own no tensor parameter, and use operand tensors only behind references; the same sharing clause on every "
                 "operator rule (registered under this property too) and on the results of integrate / conjugate / evidence / multiply templates; "
                 "TorchPointerParameter reads the current target slice; frame obligations: no evaluation method of a compiled module writes object state (so every "
                 "in-place update is observed) and reset_parameters of a circuit / parameter graph / pointer reaches only its own parameter graphs / nodes, never "
                 "the operand's tensors; copies of layers (copyref) and of parameter nodes (__copy__) keep every scalar hyper-parameter the original holds; the "
                 "compiler's parameter registry and compile_reference_parameter (pointer to the registered tensor at its fold); update histories "
                 "end-to-end by the bounded stand-in"),
    "C11": mixed("contract obligations: log_partition_function / integrate of every exp-family layer return (F, 1, K) with the right value for all "
                 "F, K (no accidental broadcast when batch == folds); forward kernels per fold and batch row; IntegrateQuery: mask sizes for the scope-list "
                 "formats, _layer_fn selects integrate() exactly for layers whose variable is masked per sample, the query object keeps no state between calls; "
                 "end-to-end marginals in the three input formats by the bounded stand-in vs brute-force marginals"),
    "C12": mixed("contract obligations: image_data / tabular_data (what they pass to build_circuit: softmax sum weights by default, mixing over the same factory, per-feature "
                 "input factories, sizes); RegionGraph.build_circuit on four region-graph templates (+ the default n-ary factory) (tree, two partitions of the root, root region that is itself "
                 "an input region over one / two variables) x {cp, cp-t, tucker}: EVERY sum layer takes its weight from "
                 "the caller's normalising factory (softmax on the last axis of an unconstrained tensor of the sum's own weight shape; n-ary mixing sums from "
                 "the n-ary factory = mixing_weight_factory over a softmax on the arity axis), input layers are the caller's, the circuit is smooth, "
                 "decomposable, has num_classes output units; mixing_weight_factory shape arithmetic; kernels of the normalising nodes (softmax / log-softmax / "
                 "sigmoid on the declared axis, mixing-weight expansion per fold); Z = 1 for all parameter values then follows from the stated lemma (L-norm), "
                 "which is prose; Z = 1 before / after updates on every algorithm's graphs and the other templates is a bounded stand-in",
                 "; 'finite in log space' is a floating point statement checked only on the sampled inputs"),
    "C16": mixed("contract obligations on region-graph templates with symbolic, possibly coinciding ids: RegionGraph(...) returning normally implies "
                 "validity (children of a partition pairwise disjoint and covering it, partitions of a region share its scope, one parent per partition), empty "
                 "scopes refused; is_structured_decomposable iff partitions with equal scope - also under different region nodes - split alike; "
                 "is_omni_compatible iff all child regions univariate; build_circuit on four templates x three abstractions (well-formed, smooth, decomposable, "
                 "structured-decomposable like the graph, num_classes outputs); FullyFactorized and LinearTree (n <= 4, repetitions <= 2, symbolic orderings for n <= 3) "
                 "build the documented graph; the other algorithms (numpy random / image grids / Chow-Liu) and dump / load are covered by the bounded stand-in only (every algorithm over small argument spaces, independent validator, round trip, three abstractions "
                 "and explicit factories)"),
    "C15": ("other", "contract obligations on the STRUCTURAL clauses: TorchSumLayer.sample returns, per fold / output unit / sample, the sample of the "
            "component drawn from Categorical(weight) over the same axis h*Ki+i the forward pass weights (and refuses unnormalised weights) - also on a second call after the weights changed (the draw uses the current weights; same for the fused Tucker and tensor-dot layers) -, TorchCategoricalLayer.sample draws from the layer's own logits in layout (F, K, N), Hadamard / "
            "Kronecker (arity 2, 3) samples add the inputs' assignments in the layers' unit order, _pad_samples fills the column of the layer's own variable "
            "(non-contiguous ids) and no other, no sampling method updates a possibly aliased tensor in place - for all F, K, N, D; the DISTRIBUTIONAL clause "
            "(frequencies converge) is statistical: a BOUNDED seeded stand-in (20000 samples per circuit vs exact probabilities, 6.5-sigma cell thresholds), "
            "no contract within reach decides it; the Tucker layer produced by optimize=True samples the drawn unit tuple in the forward pass's Kronecker order "
            "(its refusal to sample was a recorded finding, repaired by a fix: commit); SamplingQuery glue (layer function, result layout, refusals)",
            PROOF_NOTE + " || " + BOUNDED_NOTE + "; torch's random number generator and Categorical sampler are trusted (assumed contract: draws lie in the support); "
            "the statistical threshold admits a false alarm probability < 1e-8 per run and is deterministic for a fixed VERIF_SEED",
            "contract obligations (z3) on the sampling layout + bounded seeded statistical check against exact probabilities", "4/C15"),
    "C17": mixed("contract obligation: tensor parameters folded into one storage agree on shape, requires_grad and dtype (fold_settings 2-safety); "
                 "the Dirichlet rule draws on the declared axis of the parameter's own shape (rank <= 3, every axis), foldwise_initializer_ sends initialiser i to "
                 "fold slice i ON EVERY (re-)initialisation, tensor / constant rules carry learnable / dtype / value, constant / uniform / normal initialiser rules carry "
                 "the initialiser's own arguments, folding a group of tensor parameters keeps member order, the compiler's parameter registry; values of every "
                 "registry slice after compile and resets vs its own initialiser (also when folded with differently initialised parameters) are a bounded stand-in"),
    "C18": mixed("contract obligations from ARBITRARY registry states (the two dicts of the BiMap are symbolic maps, so the representation invariant is "
                 "preserved over every history by induction): add / lookups / compile memoisation / round trip; PipelineContext operators (refuse unknown "
                 "compiled circuits, apply the symbolic operator with the context's own registry, compile the result); compile_pipeline on three operand-DAG "
                 "shapes x three pre-states; context enter/exit with the ContextVar contract for nesting depths 1..3 with and without exceptions, sequential "
                 "re-use, distinct registry per context; compile_pipeline on six operand-DAG shapes incl. a circuit that is an operand of the root and of another operand; "
                 "random longer histories by the bounded stand-in"),
    "C19": ("other", "contract obligations (syntactic frame): no evaluation method writes object state, learnable storage is allocated at exactly one "
            "site (TorchTensorParameter._ptensor), reset_parameters of a circuit / parameter graph / pointer re-initialises exactly its own parameter graphs / "
            "nodes (never a wrapped layer's or the tensor a pointer refers to, so compiling a derived circuit leaves loaded values alone), every parameter tensor is stored as an nn.Parameter whatever requires_grad (no non-persistent "
            "buffer), folded pointer groups stay pointers; the decisive step (nn.Module state_dict / load_state_dict) is an assumed contract of a dependency, so "
            "no proof is claimed; BOUNDED STAND-IN: save -> fresh re-initialised (and already evaluated, incl. frozen random tensors) compile -> "
            "load_state_dict(strict) -> equal outputs for base and derived circuits (also derived circuits compiled or reset AFTER the load) under the four flag settings",
            PROOF_NOTE + " || " + BOUNDED_NOTE + "; torch.save/torch.load and nn.Module.state_dict/load_state_dict are trusted",
            "frame obligations on the real source (syntactic + executed reset_parameters) + bounded native round-trip check", "4/C19"),
    "C20": mixed("contract obligations: tensor_train for orders 2-5 and ranks 1-3 (contraction step i uses the embeddings of variable i+1 with its dimension; numpy "
                 "constants by shape); cp / tucker circuits for tensor orders 2-4 (factor j over variable j with shape[j] states and rank units, product "
                 "over all factors in mode order - Kronecker for tucker with rank**n units -, unweighted cp sums with constant ones), hmm for 12 orderings of "
                 "1-4 variables (chain follows the ordering, the input layer of variable v gets the arguments listed for v, latent units, one output unit, "
                 "non-permutations refused), fully_factorized; LogicalCircuit.smooth on formula templates with variable 0 in every role and every order of a disjunction's inputs (every disjunction smooth, smoothing "
                 "nodes x OR NOT x, truth value unchanged under every assignment); the numeric identities against explicit contractions / forward algorithm, the values of tensor_train's "
                 "constant matrices and the logic-circuit templates are covered by the bounded stand-in"),
})

NOT_APPLICABLE = [
    {"property_id": "C13", "reason": "gradients are produced by torch autograd over floating point kernels: no contract within reach "
                                     "expresses or decides it (DESIGN.md section 5)"},
]


def main():
    checks = []
    for pid in sorted(CHECKS):
        cat, text, note, tech, ref = CHECKS[pid]
        checks.append({
            "property_id": pid,
            "quick_cmd": f"./vf check {pid} --tier quick",
            "thorough_cmd": f"./vf check {pid} --tier thorough",
            "evidence_file": f"evidence/{pid}.json",
            "replay_cmd_template": "./vf replay {path}",
            "engine": "vf",
            "level_claimed": {"category": cat, "text": text, "design_ref": "DESIGN.md section " + ref},
            "level_note": note,
            "technique": tech,
        })
    claimed = set(CHECKS) | {n["property_id"] for n in NOT_APPLICABLE}
    man = {
        "version": 1,
        "setup_cmd": "./vf setup",
        "hooks": {"guard": "CIRKIT_VERIF",
                  "enable": "no hooks: contracts are sidecar files under /verif/contracts; /repo sources are re-parsed (proof part) "
                            "and re-imported (bounded part) from /repo's working tree on every run",
                  "baseline_off_cmd": "cd /repo && /venv/bin/python -m pytest -ra -q -p no:cacheprovider --timeout=900 --continue-on-collection-errors",
                  "source_commits": [], "add_only": True},
        "engines": [
            {"name": "vf", "path": "vf", "serves_properties": sorted(CHECKS),
             "kind_free_text": "engine A/B: contract harnesses (contracts/*.py) symbolically executed over function bodies extracted from "
                               "/repo, VCs discharged by z3 (cvc5 on unknowns); engine C: labelled bounded stand-ins (native/bounded/*.py) "
                               "under /venv/bin/python against a numpy reference interpreter"},
        ],
        "checks": checks,
        "not_applicable": NOT_APPLICABLE,
        "notes": "unclaimed properties (no check, not 'not applicable'): " + ", ".join(
            p for p in [f"C{i:02d}" for i in range(1, 21)] if p not in claimed) + " - see DESIGN.md sections 10-11 (status)",
    }
    with open(os.path.join(ROOT, "MANIFEST.json"), "w") as f:
        json.dump(man, f, indent=1)
    print("checks:", [c["property_id"] for c in checks])


if __name__ == "__main__":
    main()
