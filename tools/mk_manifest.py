"""Regenerates /verif/MANIFEST.json from the table below:  python3 tools/mk_manifest.py"""
import json
import os

ROOT = os.path.dirname(os.path.dirname(os.path.abspath(__file__)))

BOUNDED_NOTE = ("bounded stand-in only (never counted as proved): trusted are the numpy reference interpreter native/refinterp.py "
                "(the oracle, written from the mathematical definitions, reads only the symbolic circuit), the circuit generator "
                "native/gen.py, float64 comparison tolerances (rtol 1e-7 .. 2e-6), and the stated bound on sizes")
PROOF_NOTE = ("trusted: the self-written VC generator (engine/*.py, symbolic execution of the function bodies re-read from /repo on "
              "every run), z3/cvc5, assumed contracts of Python builtins and of the torch primitives (engine/tensor.py), floats "
              "treated as reals, int64 overflow ignored; rank of parameter tensors enumerated up to 3 (quick) / 4 (thorough)")

# property -> (category, text, level_note, technique, design_ref)
CHECKS = {
    "C14": ("proof",
            "every symbolic parameter node's shape/axis arithmetic (all ranks, all axes), every compilation rule (torch node gets the "
            "same shapes, axis and integers) and every torch parameter kernel's forward (declared shape, element-wise equality with the "
            "mathematical definition along the declared axis, fold-pointwise) are discharged as SMT obligations generated from the real "
            "function bodies; complete in dimension sizes and folds, rank-enumerated for kernels",
            PROOF_NOTE, "contracts + self-written VC generation (AST symbolic execution) discharged by z3/cvc5", "4/C14"),
}


def bounded(text, extra_note=""):
    return ("exploration", "BOUNDED STAND-IN, not a proof: " + text, BOUNDED_NOTE + extra_note,
            "bounded native check of the real functions against an independent reference (engine C)", "2.7")


def mixed(text, extra_note=""):
    return ("other", text, PROOF_NOTE + " || for the bounded part: " + BOUNDED_NOTE + extra_note,
            "contract obligations (z3/cvc5) on the functions within reach + labelled bounded stand-in for the rest", "4")


CHECKS.update({
    "C01": bounded("compiled circuits are evaluated against the reference interpreter of the symbolic circuit on generated circuits "
                   "x semirings x flags x batch sizes; the contract engine does not yet reach the compiler/layer kernels"),
    "C02": mixed("the fold-pointwise clause of every parameter kernel and the pointer parameter are contract obligations (shared with "
                 "C14/C10); flag-independence end-to-end is a bounded stand-in: four flag settings with tied parameters against the "
                 "reference interpreter"),
    "C03": bounded("compiled integrate(c, Z) against brute-force sums / quadrature of the reference interpreter"),
    "C04": bounded("compiled multiply(c1, c2) against the Kronecker-ordered product of reference values; refusals counted"),
    "C05": mixed("TorchPolynomialDifferential kernel obligations (shape, coefficient n*a_n shift, order-fold composition) are "
                 "discharged by the contract engine; output order and values of differentiate end-to-end are a bounded stand-in"),
    "C06": bounded("compiled evidence(c, obs) against the reference value with observed columns overwritten, result scope, and "
                   "concatenate against stacked operand values"),
    "C08": bounded("structural predicates against an independent set-based oracle on random (also non-smooth / non-decomposable) circuits, "
                   "with the 2-safety clauses checked by re-running on permuted / renamed / swapped inputs"),
    "C09": bounded("operators on generated invalid operands must raise the documented exception; flags, scope and output counts of "
                   "returned circuits are recomputed by an independent oracle"),
    "C11": bounded("IntegrateQuery with per-sample variable sets in the three input formats against brute-force marginals of the "
                   "reference interpreter and against the compiled symbolic integrate; rejection of out-of-scope variables"),
    "C12": mixed("mixing_weight_factory's shape contract is a discharged obligation; normalisation (Z = 1, non-negativity, finite log "
                 "values) of the template circuits is a bounded stand-in over template arguments and three parameter states",
                 "; 'finite in log space' is a floating point statement checked only on the sampled inputs"),
    "C16": bounded("every region-graph algorithm over small argument spaces: independent validator, structured-decomposability flag "
                   "vs set definition, dump/load round trip, build_circuit with the three abstractions and with explicit factories"),
    "C10": mixed("TorchPointerParameter's kernel contract (reads the current value of the target tensor slice, fold-pointwise) is a discharged "
                 "obligation; 'no new learnable tensor' and 'relation holds after every in-place update' are a bounded stand-in over "
                 "operator chains and update histories"),
    "C15": ("other", "structural clauses (shape, columns filled from the variable's input layer, support) and the distributional clause are a "
            "BOUNDED, seeded statistical stand-in: 20000 samples per circuit against exact probabilities with 6.5-sigma cell thresholds; no contract "
            "within reach decides convergence of empirical frequencies; one recorded known finding (optimized Tucker layers refuse to sample)",
            BOUNDED_NOTE + "; torch's random number generator and Categorical sampler are trusted; the statistical threshold admits a false alarm "
            "probability < 1e-8 per run and is deterministic for a fixed VERIF_SEED", "bounded seeded statistical check against exact probabilities", "4/C15"),
    "C17": bounded("values of the registry slice of every symbolic tensor parameter after compile and after resets against its own initialiser, "
                   "for parameters folded together with differently initialised ones"),
    "C18": bounded("random well-bracketed context histories (nested, sequentially re-used, exceptional exits) and compile/operator call histories: "
                   "active context and operator registry restored, memoisation, bijection, operands-first order; the inductive per-method contracts "
                   "planned in DESIGN.md 4/C18 were not built"),
    "C19": ("other", "BOUNDED STAND-IN: save -> fresh re-initialised compile -> load_state_dict(strict) -> equal outputs for base and derived circuits "
            "under the four flag settings; the decisive step (nn.Module serialisation) is an assumed contract of a dependency, so no proof is claimed",
            BOUNDED_NOTE + "; torch.save/torch.load and nn.Module.state_dict/load_state_dict are trusted", "bounded native round-trip check", "4/C19"),
    "C20": bounded("tensor-factorisation templates against explicit numpy contractions of their factor tensors (tensor-train: reference interpreter + "
                   "TT-rank of every unfolding), PGM templates against per-variable tables and per-variable arguments, logic circuits (ordered "
                   "decision formulas) against truth tables and model counts"),
    "C07": bounded("compiled conjugate(c) against the conjugate of the reference value (complex and real circuits)"),
})

NOT_APPLICABLE = [
    {"property_id": "C13", "reason": "gradients are produced by torch autograd over floating point kernels: no contract within reach "
                                     "expresses or decides it (DESIGN.md section 5)"},
]


def main():
    checks = []
    for pid in sorted(CHECKS):
        cat, text, note, tech, ref = CHECKS[pid]
        checks.append({
            "property_id": pid,
            "quick_cmd": f"./vf check {pid} --tier quick",
            "thorough_cmd": f"./vf check {pid} --tier thorough",
            "evidence_file": f"evidence/{pid}.json",
            "replay_cmd_template": "./vf replay {path}",
            "engine": "vf",
            "level_claimed": {"category": cat, "text": text, "design_ref": "DESIGN.md section " + ref},
            "level_note": note,
            "technique": tech,
        })
    claimed = set(CHECKS) | {n["property_id"] for n in NOT_APPLICABLE}
    man = {
        "version": 1,
        "setup_cmd": "./vf setup",
        "hooks": {"guard": "CIRKIT_VERIF",
                  "enable": "no hooks: contracts are sidecar files under /verif/contracts; /repo sources are re-parsed (proof part) "
                            "and re-imported (bounded part) from /repo's working tree on every run",
                  "baseline_off_cmd": "cd /repo && /venv/bin/python -m pytest -ra -q -p no:cacheprovider --timeout=900 --continue-on-collection-errors",
                  "source_commits": [], "add_only": True},
        "engines": [
            {"name": "vf", "path": "vf", "serves_properties": sorted(CHECKS),
             "kind_free_text": "engine A/B: contract harnesses (contracts/*.py) symbolically executed over function bodies extracted from "
                               "/repo, VCs discharged by z3 (cvc5 on unknowns); engine C: labelled bounded stand-ins (native/bounded/*.py) "
                               "under /venv/bin/python against a numpy reference interpreter"},
        ],
        "checks": checks,
        "not_applicable": NOT_APPLICABLE,
        "notes": "unclaimed properties (no check, not 'not applicable'): " + ", ".join(
            p for p in [f"C{i:02d}" for i in range(1, 21)] if p not in claimed) + " - see DESIGN.md section 9 (status)",
    }
    with open(os.path.join(ROOT, "MANIFEST.json"), "w") as f:
        json.dump(man, f, indent=1)
    print("checks:", [c["property_id"] for c in checks])


if __name__ == "__main__":
    main()
