"""Handling of seeded property-breaking changes (written by independent sub-agents in scratch worktrees).

  python3 tools/seeded.py ingest <name> [props...]  copy /tmp/mut/<name>/mutant/* to seeded/<name>/, confirm the demonstration
                                                 (exit 1 with the change, 0 without) in the scratch worktree, run the quick
                                                 checks of the given properties (default: the property it targets) against
                                                 the changed tree (VERIF_REPO=<worktree>, outputs redirected), record everything
  python3 tools/seeded.py suite <name>           run the repository's full test suite in the scratch worktree (with the change)
  python3 tools/seeded.py recheck <name> [props] re-run the checks on a fresh scratch copy of /repo + seeded/<name>/patch.diff
"""
import json, os, shutil, subprocess, sys, tempfile, time

ROOT = os.path.dirname(os.path.dirname(os.path.abspath(__file__)))
PY = "/venv/bin/python"


def sh(cmd, cwd=None, env=None, timeout=None):
    p = subprocess.run(cmd, cwd=cwd, env=env, shell=isinstance(cmd, str), capture_output=True, text=True, timeout=timeout)
    return p.returncode, (p.stdout + p.stderr)


def load_meta(name):
    p = os.path.join(ROOT, "seeded", name, "meta.json")
    return json.load(open(p)) if os.path.exists(p) else {}


def save_meta(name, meta):
    with open(os.path.join(ROOT, "seeded", name, "meta.json"), "w") as f:
        json.dump(meta, f, indent=1)


def run_checks(tree, props, tag):
    out = tempfile.mkdtemp(prefix="vf-out-", dir="/var/tmp")
    res = {}
    try:
        for prop in props:
            env = dict(os.environ, VERIF_REPO=tree, VERIF_OUT_DIR=out)
            t0 = time.time()
            rc, o = sh(["./vf", "check", prop, "--tier", "quick"], cwd=ROOT, env=env, timeout=3600)
            lines = [l for l in o.splitlines() if l.startswith("VIOLATION") or l.startswith("[" + prop) or l.startswith("KNOWN")]
            res[prop] = {"exit": rc, "wall_s": round(time.time() - t0, 1), "violations": [l for l in lines if l.startswith("VIOLATION")][:12],
                         "summary": [l for l in lines if l.startswith("[")]}
            # keep the names of the refuted obligations
            rp = os.path.join(out, "replays")
            if os.path.isdir(rp):
                res[prop]["replay_files"] = sorted(os.listdir(rp))[:20]
                shutil.rmtree(rp)
    finally:
        shutil.rmtree(out, ignore_errors=True)
    return res


def ingest(name, props):
    wt = f"/tmp/mut/{name}"
    src = os.path.join(wt, "mutant")
    dst = os.path.join(ROOT, "seeded", name)
    os.makedirs(dst, exist_ok=True)
    for f in ("patch.diff", "demo.py", "meta.json"):
        shutil.copy(os.path.join(src, f), os.path.join(dst, f if f != "meta.json" else "agent_meta.json"))
    agent = json.load(open(os.path.join(dst, "agent_meta.json")))
    meta = load_meta(name)
    meta.update({"name": name, "property": agent.get("property"), "summary": agent.get("summary"), "needs": agent.get("needs"),
                 "files": agent.get("files")})
    env = dict(os.environ, PYTHONPATH=wt)
    # the worktree must hold exactly the recorded patch
    rc, o = sh("git checkout -- cirkit && git apply mutant/patch.diff", cwd=wt)
    if rc != 0:
        print("recorded patch does not apply to a clean checkout:", o[-400:]); return
    # demonstration with the change (the worktree has it applied) and without (stash)
    rc1, o1 = sh([PY, "mutant/demo.py"], cwd=wt, env=env, timeout=1800)
    # (git stash is shared between worktrees: revert / re-apply the recorded patch instead)
    sh("git apply -R mutant/patch.diff", cwd=wt)
    try:
        rc0, o0 = sh([PY, "mutant/demo.py"], cwd=wt, env=env, timeout=1800)
    finally:
        sh("git checkout -- cirkit && git apply mutant/patch.diff", cwd=wt)
    rcd, _ = sh("git diff --quiet -- cirkit", cwd=wt)
    meta["confirmed"] = {"demo_exit_with_change": rc1, "demo_exit_without_change": rc0, "change_reapplied": rcd == 1,
                         "demo_tail_with_change": o1[-600:]}
    props = props or [agent.get("property")]
    meta.setdefault("checks", {}).update(run_checks(wt, props, name))
    meta["what_i_ran"] = ["demo.py in the scratch worktree with and without the change (git apply -R / git apply of patch.diff)",
                          "VERIF_REPO=<worktree> ./vf check <prop> --tier quick (outputs redirected to a scratch dir)"]
    save_meta(name, meta)
    print(json.dumps({k: meta[k] for k in ("confirmed", "checks")}, indent=1)[:3000])


def suite(name):
    wt = f"/tmp/mut/{name}"
    t0 = time.time()
    rc, o = sh([PY, "-m", "pytest", "-q", "-p", "no:cacheprovider", "-n", "8", "--timeout=900"], cwd=wt, env=dict(os.environ, PYTHONPATH=wt), timeout=7200)
    tail = [l for l in o.splitlines() if "passed" in l or "failed" in l or l.startswith("FAILED") or l.startswith("ERROR")][-8:]
    meta = load_meta(name)
    meta.setdefault("confirmed", {})["test_suite_with_change"] = {"exit": rc, "tail": tail, "wall_s": round(time.time() - t0)}
    save_meta(name, meta)
    print(name, rc, tail)


def recheck(name, props):
    d = tempfile.mkdtemp(prefix="cirkit-vf-", dir="/var/tmp")
    try:
        shutil.copytree("/repo/cirkit", os.path.join(d, "cirkit"))
        rc, o = sh(["git", "apply", "--directory", d, "--unsafe-paths", os.path.join(ROOT, "seeded", name, "patch.diff")], cwd="/")
        if rc != 0:
            rc, o = sh(f"patch -p1 -d {d} < {os.path.join(ROOT, 'seeded', name, 'patch.diff')}")
        if rc != 0:
            print("patch does not apply:", o[-500:]); return
        meta = load_meta(name)
        props = props or [meta.get("property")]
        meta.setdefault("checks", {}).update(run_checks(d, props, name))
        save_meta(name, meta)
        print(json.dumps(meta["checks"], indent=1)[:3000])
    finally:
        shutil.rmtree(d, ignore_errors=True)


if __name__ == "__main__":
    cmd, name, rest = sys.argv[1], sys.argv[2], sys.argv[3:]
    {"ingest": lambda: ingest(name, rest), "suite": lambda: suite(name), "recheck": lambda: recheck(name, rest)}[cmd]()
