#!/usr/bin/env python3
"""print a python file with docstrings stripped (reading aid only)"""
import sys, ast
for f in sys.argv[1:]:
    t = ast.parse(open(f).read())
    for n in ast.walk(t):
        if isinstance(n, (ast.FunctionDef, ast.ClassDef, ast.Module)) and n.body and isinstance(n.body[0], ast.Expr) and isinstance(getattr(n.body[0], 'value', None), ast.Constant) and isinstance(n.body[0].value.value, str):
            n.body = n.body[1:] or [ast.Pass()]
    print(ast.unparse(t))
