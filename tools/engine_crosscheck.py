"""CPython cross-check of the symbolic executor (engine self-test, not a property check).

For functions of /repo whose modules import nothing but the standard library, the SAME calls are made (a) natively, on the real module loaded
from the tree, and (b) through the engine's interpreter with concrete arguments; the results must agree.  A disagreement means the engine
mis-models Python and nothing it discharges can be trusted: `./vf setup` runs this and fails (exit 3) on any mismatch.

Run:  python3-vt tools/engine_crosscheck.py   (exit 0 = all agree)
"""
import importlib.util
import itertools
import os
import random
import sys

ROOT = os.path.dirname(os.path.dirname(os.path.abspath(__file__)))
sys.path.insert(0, ROOT)

from engine import vc as V          # noqa: E402
from engine.repo import Repo, REPO  # noqa: E402
from engine.interp import RaiseEx, Unsupported  # noqa: E402
from engine.values import Obj, Builtin  # noqa: E402

SC = "cirkit/utils/scope.py"
UA = "cirkit/utils/algorithms.py"


def native(rel, name):
    spec = importlib.util.spec_from_file_location(name, os.path.join(REPO, rel))
    m = importlib.util.module_from_spec(spec)
    spec.loader.exec_module(m)
    return m


def plain(v):
    """engine / native value -> comparable plain value"""
    if isinstance(v, Obj) and v.cls.name == "Scope":
        s = v.fields["_set"]
        return ("Scope", tuple(sorted(s)))
    if type(v).__name__ == "Scope":
        return ("Scope", tuple(sorted(v)))
    if isinstance(v, (list, tuple)):
        return [plain(x) for x in v]
    if isinstance(v, (set, frozenset)):
        return ("set", sorted(plain(x) for x in v))
    if isinstance(v, dict):
        return {repr(plain(k)): plain(x) for k, x in v.items()}
    if hasattr(v, "seq"):                      # engine iterator
        return [plain(x) for x in v.seq]
    if hasattr(v, "__next__"):
        return [plain(x) for x in v]
    return v


class Ctx:
    """one engine context per call (fresh path)"""

    def __init__(self, root=None):
        from engine.interp import Path
        self.repo = Repo(root) if root else Repo()
        obl = V.Obl("crosscheck", "C00", lambda vc: None, [], None, "")
        self.vc = V.VC(self.repo, Path([]), obl)


def engine_call(fn, root=None):
    try:
        c = Ctx(root)
        return ("ok", plain(fn(c.vc)))
    except RaiseEx as e:
        return ("raises", e.name)


def native_call(fn):
    try:
        return ("ok", plain(fn()))
    except Exception as e:  # noqa: BLE001
        return ("raises", type(e).__name__)


def main():
    rng = random.Random(7)
    NS, NA = native(SC, "scope_native"), native(UA, "algorithms_native")
    cases = []

    def sets(k):
        return [sorted(rng.sample(range(9), rng.randint(0, 4))) for _ in range(k)]
    for _ in range(60):
        a, b = sets(2)
        x = rng.randint(0, 9)
        for op in ("__or__", "__and__", "__sub__", "__le__", "__lt__", "__ge__", "__gt__", "__eq__"):
            cases.append((f"Scope({a}).{op}(Scope({b}))",
                          lambda a=a, b=b, op=op: getattr(NS.Scope(a), op)(NS.Scope(b)),
                          lambda vc, a=a, b=b, op=op: vc.call((vc.new(f"{SC}:Scope", list(a)), op), vc.new(f"{SC}:Scope", list(b)))))
        cases.append((f"list(Scope({a}))", lambda a=a: list(NS.Scope(a)), lambda vc, a=a: list(vc.I.B.iterate(vc.I, vc.new(f"{SC}:Scope", list(a))))))
        cases.append((f"len(Scope({a}))", lambda a=a: len(NS.Scope(a)), lambda vc, a=a: vc.call((vc.new(f"{SC}:Scope", list(a)), "__len__"))))
        cases.append((f"{x} in Scope({a})", lambda a=a, x=x: x in NS.Scope(a), lambda vc, a=a, x=x: vc.I.truth(vc.call((vc.new(f"{SC}:Scope", list(a)), "__contains__"), x))))
        cases.append((f"bool(Scope({a}))", lambda a=a: bool(NS.Scope(a)), lambda vc, a=a: vc.I.truth(vc.new(f"{SC}:Scope", list(a)))))
        c3 = sets(3)
        cases.append((f"Scope.union{c3}", lambda c3=c3: NS.Scope.union(*[NS.Scope(s) for s in c3]),
                      lambda vc, c3=c3: vc.call(f"{SC}:Scope.union", *[vc.new(f"{SC}:Scope", list(s)) for s in c3])))
    # graph algorithms on random DAGs over ints (cycles included now and then)
    for t in range(60):
        n = rng.randint(1, 6)
        edges = {i: sorted(rng.sample(range(i), rng.randint(0, min(i, 2)))) for i in range(n)}
        if t % 10 == 9 and n >= 2:
            edges[0] = [n - 1]                 # a cycle
        order = list(range(n))
        rng.shuffle(order)
        roots = [n - 1]
        inc_n = lambda v, edges=edges: list(edges[v])
        def inc_e(edges=edges):
            return Builtin("incomings_fn", lambda v: list(edges[v]))
        cases.append((f"topological_ordering(bfs) {edges}",
                      lambda edges=edges, roots=roots: list(NA.topological_ordering(NA.bfs(roots, incomings_fn=lambda v: edges[v]), incomings_fn=lambda v: edges[v])),
                      lambda vc, edges=edges, roots=roots: list(vc.I.B.iterate(vc.I, vc.call(f"{UA}:topological_ordering", vc.call(f"{UA}:bfs", list(roots), incomings_fn=inc_e(edges)), incomings_fn=inc_e(edges))))))
        cases.append((f"layerwise_topological_ordering {order} {edges}",
                      lambda edges=edges, order=order: [list(f) for f in NA.layerwise_topological_ordering(list(order), lambda v: edges[v])],
                      lambda vc, edges=edges, order=order: [list(f) for f in vc.I.B.iterate(vc.I, vc.call(f"{UA}:layerwise_topological_ordering", list(order), inc_e(edges)))]))
        cases.append((f"graph_nodes_outgoings {edges}",
                      lambda edges=edges, order=order: {k: list(v) for k, v in NA.graph_nodes_outgoings(list(order), lambda v: edges[v]).items()},
                      lambda vc, edges=edges, order=order: {k: list(v) for k, v in vc.call(f"{UA}:graph_nodes_outgoings", list(order), inc_e(edges)).items()}))
        cases.append((f"subgraph {edges}",
                      lambda edges=edges, roots=roots: [list(NA.subgraph(roots, lambda v: edges[v])[0]), {k: list(v) for k, v in NA.subgraph(roots, lambda v: edges[v])[1].items()}],
                      lambda vc, edges=edges, roots=roots: (lambda r: [list(r[0]), {k: list(v) for k, v in r[1].items()}])(vc.call(f"{UA}:subgraph", list(roots), inc_e(edges)))))
    # pieces of Python's semantics the engine once got wrong, on tiny functions of tools/selftest_repo (not part of cirkit)
    SELF = os.path.join(ROOT, "tools", "selftest_repo")
    SM = "cirkit/semantics.py"
    spec = importlib.util.spec_from_file_location("semantics_native", os.path.join(SELF, SM))
    NSM = importlib.util.module_from_spec(spec)
    spec.loader.exec_module(NSM)
    for _ in range(40):
        xs = [rng.randint(0, 9) for _ in range(rng.randint(0, 6))]
        for fn in ("remove_while_iterating", "move_to_front_while_iterating", "move_to_back_while_iterating", "append_while_iterating"):
            cases.append((f"{fn}({xs})", lambda xs=xs, fn=fn: getattr(NSM, fn)(list(xs)), lambda vc, xs=xs, fn=fn: vc.call(f"{SM}:{fn}", list(xs)), SELF))
        v, w = rng.randint(-5, 5), rng.randint(-5, 5)
        cases.append((f"cached_then_changed({v},{w})", lambda v=v, w=w: NSM.cached_then_changed(v, w), lambda vc, v=v, w=w: vc.call(f"{SM}:cached_then_changed", v, w), SELF))
    bad = unsupported = 0
    for label, nat, eng, *rest in cases:
        want = native_call(nat)
        try:
            got = engine_call(eng, rest[0] if rest else None)
        except Unsupported as e:
            unsupported += 1
            continue
        if got != want:
            bad += 1
            print(f"MISMATCH {label}: CPython {want!r} vs engine {got!r}")
    print(f"engine cross-check: {len(cases)} calls, {bad} mismatches, {unsupported} outside the engine's subset")
    import subprocess
    p = subprocess.run([sys.executable, os.path.join(ROOT, "tools", "engine_crosscheck_symbolic.py")], cwd=ROOT, capture_output=True, text=True)
    print(p.stdout.strip() or p.stderr[-400:])
    return 1 if (bad or p.returncode != 0) else 0


if __name__ == "__main__":
    sys.exit(main())
