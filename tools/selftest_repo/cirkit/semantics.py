"""Not part of cirkit: tiny functions run natively and through the symbolic executor by tools/engine_crosscheck.py, pinning down pieces of
Python's semantics the engine once got wrong (a list edited while it is iterated over; functools.cached_property)."""
from functools import cached_property


def remove_while_iterating(xs):
    out = []
    for x in xs:
        out.append(x)
        if x % 2 == 0:
            xs.remove(x)
    return out, xs


def move_to_front_while_iterating(xs):
    out = []
    for x in xs:
        out.append(x)
        if x % 3 == 1 and x < 10:
            xs.remove(x)
            xs.insert(0, x + 10)
    return out, xs


def move_to_back_while_iterating(xs):
    out = []
    for x in xs:
        out.append(x)
        if x % 3 == 1 and x < 10:
            xs.remove(x)
            xs.append(x + 10)
    return out, xs


def append_while_iterating(xs):
    n = 0
    for x in xs:
        n += 1
        if x > 0 and len(xs) < 8:
            xs.append(x - 1)
    return n, xs


class Box:
    def __init__(self, v):
        self.v = v

    @cached_property
    def doubled(self):
        return 2 * self.v

    @property
    def tripled(self):
        return 3 * self.v


def cached_then_changed(v, w):
    b = Box(v)
    a = b.doubled
    t1 = b.tripled
    b.v = w
    return a, b.doubled, t1, b.tripled
