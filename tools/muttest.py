"""Mutation self-test of contract modules on a scratch copy (outside /repo and /verif; removed afterwards).
usage: python3-vt tools/muttest.py <contracts.module> <relpath> <old> <new> [--only substr]
Applies the textual replacement old->new (first occurrence must exist) to a scratch copy of /repo/cirkit and runs the
module against it; prints the obligations that are no longer discharged."""
import os, shutil, subprocess, sys, tempfile

def main():
    mod, rel, old, new = sys.argv[1:5]
    only = sys.argv[6] if len(sys.argv) > 6 and sys.argv[5] == "--only" else None
    d = tempfile.mkdtemp(prefix="cirkit-vf-", dir="/var/tmp")
    try:
        shutil.copytree("/repo/cirkit", os.path.join(d, "cirkit"))
        p = os.path.join(d, rel)
        s = open(p).read()
        if old not in s:
            print("PATTERN NOT FOUND"); return 2
        open(p, "w").write(s.replace(old, new, 1))
        env = dict(os.environ, VERIF_REPO=d)
        cmd = ["python3-vt", "-m", "engine.run", mod] + (["--only", only] if only else [])
        r = subprocess.run(cmd, cwd=os.path.dirname(os.path.dirname(os.path.abspath(__file__))), env=env, capture_output=True, text=True)
        out = [l for l in r.stdout.splitlines() if not l.startswith("WARNING")]
        print("\n".join(out[-25:]))
        return r.returncode
    finally:
        shutil.rmtree(d, ignore_errors=True)

sys.exit(main())
