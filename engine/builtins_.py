"""Semantics of Python operators, containers and builtins over the symbolic value domain.

Everything here is part of the trusted base (DESIGN.md 2.8 item 3): the contracts given to
len / range / zip / enumerate / tuple / list / all / any / min / max / sorted / frozenset / isinstance
and to indexing, slicing (negative indices, clamping) and integer arithmetic (floor division).
The encoder is cross-checked against CPython in `vf selftest`.
"""
from __future__ import annotations

import ast
import itertools

import z3

from .values import *  # noqa
from .interp import (Unsupported, RaiseEx, zand, zor, znot, zite, zmin, zmax, FuncVal, Frame)


class KeysView:
    """dict.keys(): a LIVE view of the keys (later insertions / deletions are visible through it)"""

    def __init__(self, d):
        self.d = d

    def __vf_iter__(self, I):
        return list(self.d.keys())

    def __vf_len__(self, I):
        return len(self.d)

    def __vf_contains__(self, I, x):
        return contains(I, self.d, x)


class DDict(dict):
    """collections.defaultdict: a dict whose missing keys are created by `factory` on lookup"""
    factory = None


class IterVal:
    """a one-shot iterator (iter(...), a generator, a generator expression): whatever iterates it CONSUMES it"""

    def __init__(self, seq):
        self.seq = seq

    def drain(self):
        s, self.seq = self.seq, []
        return s


# ---------------------------------------------------------------------- sequences
def seq_len(v):
    if isinstance(v, SymSeq):
        return v.length
    return len(v)


def as_symseq(v):
    if isinstance(v, SymSeq):
        return v
    items = list(v)

    def elem(i, items=items):
        if isinstance(i, int):
            return items[i]
        r = to_z3(items[-1]) if items else z3.IntVal(0)
        for j in range(len(items) - 2, -1, -1):
            r = z3.If(i == j, to_z3(items[j]), r)
        return r

    return SymSeq(len(items), elem, "tuple" if isinstance(v, tuple) else "list")


def concat(parts, kind):
    """parts: list of SymSeq | python sequences"""
    if all(not isinstance(p, SymSeq) for p in parts):
        out = [x for p in parts for x in p]
        return tuple(out) if kind == "tuple" else out
    parts = [as_symseq(p) for p in parts if not (not isinstance(p, SymSeq) and len(p) == 0)]
    if len(parts) == 1:
        return SymSeq(parts[0].length, parts[0].elem, kind)
    offs = [0]
    for p in parts:
        offs.append(offs[-1] + p.length)

    def elem(i, parts=parts, offs=offs):
        i = to_z3(i)
        r = to_z3(parts[-1].elem(i - offs[-2]))
        for j in range(len(parts) - 2, -1, -1):
            r = z3.If(i < offs[j + 1], to_z3(parts[j].elem(i - offs[j])), r)
        return r

    total = offs[-1]
    return SymSeq(z3.simplify(total) if is_z3(total) else total, elem, kind)


def seq_eq(I, a, b):
    """formula: sequences a and b are equal (ints as elements)"""
    if not isinstance(a, SymSeq) and not isinstance(b, SymSeq):
        if len(a) != len(b):
            return False
        return zand(*[I.B.compare(I, ast.Eq(), x, y) for x, y in zip(a, b)])
    if not isinstance(a, SymSeq) or not isinstance(b, SymSeq):
        s, t = (a, b) if isinstance(a, SymSeq) else (b, a)
        n = len(t)
        return zand(to_z3(s.length) == n, *[I.B.compare(I, ast.Eq(), s.elem(i), t[i]) for i in range(n)])
    k = z3.Int(I.path.fresh_name("k_eq"))
    body = z3.Implies(z3.And(k >= 0, k < to_z3(a.length)), to_z3(a.elem(k)) == to_z3(b.elem(k)))
    return z3.And(to_z3(a.length) == to_z3(b.length), z3.ForAll([k], body))


def norm_index(I, i, n, what="index"):
    """Python index normalisation with the IndexError outcome as an explicit branch."""
    if isinstance(i, bool):
        i = int(i)
    if isinstance(i, int) and isinstance(n, int):
        if not -n <= i < n:
            I.raise_("IndexError", what)
        return i + n if i < 0 else i
    ok = z3.And(to_z3(i) >= -to_z3(n), to_z3(i) < to_z3(n))
    if I.pure:
        if not I.path.must(ok):
            raise Unsupported("possible IndexError inside a quantified comprehension body")
    elif not I.path.branch(ok):
        I.raise_("IndexError", what)
    if isinstance(i, int):
        return i if i >= 0 else i + n
    if I.path.must(to_z3(i) >= 0):
        return i
    return z3.If(to_z3(i) < 0, to_z3(i) + to_z3(n), to_z3(i))


def getitem(I, o, k):
    if isinstance(o, SymSeq):
        if not is_intlike(k):
            raise Unsupported("non-int index of a sequence")
        return o.elem(norm_index(I, k, o.length))
    if isinstance(o, (list, tuple)):
        if isinstance(k, slice):
            return getslice(I, o, k.start, k.stop, k.step)
        if isinstance(k, bool):
            k = int(k)
        if isinstance(k, int):
            if not -len(o) <= k < len(o):
                I.raise_("IndexError", "sequence index")
            return o[k]
        if is_sym_int(k):
            kk = norm_index(I, k, len(o))
            # case split on the concrete positions
            for j in range(len(o)):
                if j == len(o) - 1 or I.decide(to_z3(kk) == j):
                    return o[j]
        raise Unsupported(f"index {k!r} of a concrete sequence")
    if isinstance(o, dict):
        hk = canon_key(o.keys(), k)
        if hk not in o:
            if isinstance(o, DDict):
                o[hk] = I.call(o.factory, [], {})
                return o[hk]
            I.raise_("KeyError", "dict lookup")
        return o[hk]
    if isinstance(o, Obj):
        m = I.repo.find_method(o.cls, "__getitem__")
        if m is not None:
            return I.call_func(FuncVal(m, o, cls_ctx=m.cls), [k], {})
    if isinstance(o, IntTensorConst):
        return getitem(I, o.values, k)
    if isinstance(o, ClassVal):
        return o  # Generic[T] subscription: type parameters carry no run-time meaning
    if isinstance(o, ExternalVal) and (o.dotted.startswith("typing.") or o.dotted.startswith("collections.abc.")):
        return o  # Callable[[X], Y], Sequence[T], ...: a typing construct (used in cast(...) and annotations)
    h = getattr(o, "__vf_getitem__", None)
    if h is not None:
        return h(I, k)
    raise Unsupported(f"subscript of {type(o).__name__}")


def getslice(I, o, lo, hi, step):
    if step is not None and step != 1:
        if isinstance(o, (list, tuple)) and all(isinstance(x, (int, type(None))) for x in (lo, hi, step)):
            return o[lo:hi:step]
        raise Unsupported("slice step")
    if isinstance(o, (list, tuple)) and all(x is None or (isinstance(x, int) and not isinstance(x, bool)) for x in (lo, hi)):
        return o[lo:hi]
    if isinstance(o, (list, tuple)):
        o2 = as_symseq(o)
        o2.kind = "tuple" if isinstance(o, tuple) else "list"
        o = o2
    if isinstance(o, SymSeq):
        n = o.length

        def norm(x, default):
            if x is None:
                return default
            if isinstance(x, int) and isinstance(n, int):
                return max(x + n, 0) if x < 0 else min(x, n)
            x_, n_ = to_z3(x), to_z3(n)
            if isinstance(x, int):
                return zmax(x + n_, 0) if x < 0 else zmin(x_, n_)
            return z3.If(x_ < 0, zmax(x_ + n_, 0), zmin(x_, n_))

        lo2 = norm(lo, 0)
        hi2 = norm(hi, n)
        ln = zmax(hi2 - lo2, 0)
        if is_z3(ln):
            ln = z3.simplify(ln)
        return SymSeq(ln, lambda i, o=o, lo2=lo2: o.elem(i + lo2), o.kind)
    h = getattr(o, "__vf_getslice__", None)
    if h is not None:
        return h(I, lo, hi, step)
    raise Unsupported(f"slice of {type(o).__name__}")


def setitem(I, o, k, v):
    if isinstance(o, dict):
        o[canon_key(o.keys(), k)] = v
        return
    if isinstance(o, list) and isinstance(k, int):
        if not -len(o) <= k < len(o):
            I.raise_("IndexError", "list assignment")
        o[k] = v
        return
    h = getattr(o, "__vf_setitem__", None)
    if h is not None:
        return h(I, k, v)
    raise Unsupported(f"item assignment on {type(o).__name__}")


_CUR = [None]  # the interpreter whose containers are being manipulated (set by make_builtins)


def is_eqobj(x):
    """objects of the repo with a custom __eq__ (e.g. Scope), and hashable containers of them: their equality as dict keys /
    set members is SEMANTIC (decided by the solver, branching), not object identity"""
    if isinstance(x, Obj):
        I = _CUR[0]
        return I is not None and I.repo.find_method(x.cls, "__eq__") is not None
    if isinstance(x, (frozenset, tuple)):
        return any(is_eqobj(e) for e in x)
    if is_z3(x):                   # a symbolic integer / boolean inside a key: equality with another key is decided by the solver
        return True
    return False


def canon_key(keys, k):
    """the representative of key k among `keys`: an existing key that is semantically equal (the path branches on each
    comparison), else k itself"""
    k = hashable(k)
    if not is_eqobj(k):
        return k
    I = _CUR[0]
    for kk in list(keys):
        if kk is k:
            return kk
        if is_eqobj(kk) and type(kk) is type(k) and (not isinstance(k, Obj) or kk.cls is k.cls):
            if I.decide(equal(I, k, kk)):
                return kk
    return k


def eq_frozenset(items):
    out = []
    for x in items:
        x = hashable(x)
        if canon_key(out, x) is x and not any(x is y for y in out):
            out.append(x)
    return frozenset(out)


_IN_TUPLE = [0]


def hashable(k):
    if isinstance(k, (int, str, bool, float, type(None), EnumVal, Obj, Opaque, ClassVal)):
        return k
    if isinstance(k, tuple):
        _IN_TUPLE[0] += 1
        try:
            return tuple(hashable(x) for x in k)
        finally:
            _IN_TUPLE[0] -= 1
    if isinstance(k, frozenset):
        return k
    if is_z3(k) and _IN_TUPLE[0]:
        return k                   # kept as a term: canon_key resolves semantic equality by branching before any dict sees it
    raise Unsupported(f"unhashable or symbolic key {type(k).__name__}")


def concrete_len(I, n):
    """the concrete value of a length term when the path condition fixes it (e.g. the cardinality of a singleton)"""
    if isinstance(n, int):
        return n
    t = z3.simplify(to_z3(n))
    if z3.is_int_value(t):
        return t.as_long()
    cands = []
    if I.path.solver.check() == z3.sat:
        val = I.path.solver.model().eval(t, model_completion=True)
        if z3.is_int_value(val) and 0 <= val.as_long() <= 16:
            cands.append(val.as_long())
    for c in cands + [c for c in (1, 0, 2, 3) if c not in cands]:
        if I.path.must(t == c):
            return c
    return None


class SymKeyDict:
    """a dict whose keys are (possibly symbolic) ints: an association list; lookup compares keys one by one and
    branches on the equalities, a miss is a KeyError"""

    def __init__(self, items):
        self.items = list(items)

    def __vf_getattr__(self, I, name):
        if name == "keys":
            return BoundBuiltin(lambda: [k for k, _ in self.items])
        if name == "values":
            return BoundBuiltin(lambda: [v for _, v in self.items])
        if name == "items":
            return BoundBuiltin(lambda: list(self.items))
        raise Unsupported(f"dict.{name} on a dict with symbolic keys")

    def __vf_getitem__(self, I, k):
        for kk, v in self.items:
            if I.decide(equal(I, k, kk)):
                return v
        I.raise_("KeyError", "dict lookup")

    def __vf_len__(self, I):
        return len(self.items)

    def __vf_iter__(self, I):
        return [k for k, _ in self.items]

    def __vf_isinstance__(self, I, t):
        return getattr(t, "name", getattr(t, "dotted", "")).split(".")[-1] in ("dict", "Mapping")


def iterate(I, v):
    """Concrete list of the elements (loops are unrolled); symbolic lengths are out of subset."""
    if isinstance(v, IterVal):
        v = v.drain()
    if isinstance(v, (list, tuple)):
        return list(v)
    if isinstance(v, dict):
        return list(v.keys())
    if isinstance(v, (set, frozenset)):
        items = sorted(v, key=repr)
        if getattr(I, "arbitrary_set_order", False) and 2 <= len(items) <= 3 and not all(isinstance(e, int) for e in items):
            # opt-in (harness): a set of heap objects is iterated in an ARBITRARY order - one path per permutation
            import itertools as _it
            perms = list(_it.permutations(items))
            for k, perm in enumerate(perms[:-1]):
                if I.decide(z3.Bool(I.path.fresh_name(f"set_order_{k}"))):
                    return list(perm)
            return list(perms[-1])
        return items
    if isinstance(v, range):
        return list(v)
    if isinstance(v, SymSeq):
        if isinstance(v.length, int):
            return [v.elem(i) for i in range(v.length)]
        n = concrete_len(I, v.length)
        if n is not None:
            return [v.elem(i) for i in range(n)]
        raise Unsupported("iteration over a sequence of symbolic length (needs a loop invariant)")
    if isinstance(v, IntTensorConst):
        return iterate(I, v.values)
    if isinstance(v, Obj):
        m = I.repo.find_method(v.cls, "__iter__")
        if m is not None:
            return iterate(I, I.call_func(FuncVal(m, v, cls_ctx=m.cls), [], {}))
    h = getattr(v, "__vf_iter__", None)
    if h is not None:
        return h(I)
    raise Unsupported(f"iteration over {type(v).__name__}")


def build_seq(I, elts, kind):
    parts = []
    cur = []
    for e in elts:
        if isinstance(e, ast.Starred):
            v = I.eval(e.value)
            if isinstance(v, IterVal):
                v = v.drain()
            if isinstance(v, SymSeq) and not isinstance(v.length, int):
                if cur:
                    parts.append(cur)
                    cur = []
                parts.append(v)
            else:
                cur.extend(iterate(I, v))
        else:
            cur.append(I.eval(e))
    if cur or not parts:
        parts.append(cur)
    if len(parts) == 1 and not isinstance(parts[0], SymSeq):
        return tuple(parts[0]) if kind == "tuple" else list(parts[0])
    return concat(parts, kind)


# ---------------------------------------------------------------------- comprehensions
def comprehension(I, elt, gens, kind):
    g = gens[0]
    it = I.eval(g.iter)
    if isinstance(it, IterVal):
        it = it.drain()
    symbolic = isinstance(it, SymSeq) and concrete_len(I, it.length) is None
    if not symbolic:
        out = []
        # comprehensions have their own scope: emulate with a child frame
        fr = I.frame
        child = Frame(fr.func, {}, closure=fr, cls_ctx=fr.cls_ctx, self_obj=fr.self_obj, module=fr.module)
        I.frames.append(child)
        try:
            def rec(gi):
                if gi == len(gens):
                    out.append(I.eval(elt))
                    return
                gg = gens[gi]
                items = iterate(I, I.eval(gg.iter)) if gi else iterate(I, it)
                for x in items:
                    I.assign(gg.target, x)
                    if all(I.decide(I.eval(c)) for c in gg.ifs):
                        rec(gi + 1)
            try:
                rec(0)
            except Unsupported as e:
                # an inner generator ranges over a sequence of symbolic length: the mixed-radix form covers nested ranges
                if "symbolic length" in str(e) and len(gens) > 1 and not any(gg.ifs for gg in gens) and not out:
                    I.frames.pop()
                    try:
                        return _nested_range_comprehension(I, elt, gens, kind)
                    finally:
                        I.frames.append(child)
                raise
        finally:
            I.frames.pop()
        return out
    if len(gens) > 1 and not any(gg.ifs for gg in gens):
        return _nested_range_comprehension(I, elt, gens, kind)
    if len(gens) != 1 or g.ifs:
        raise Unsupported("nested or filtered comprehension over a sequence of symbolic length")
    if isinstance(it, MRSeq):
        ds = [z3.Int(I.path.fresh_name("d_c")) for _ in it.sizes]
        fr = I.frame
        child = Frame(fr.func, {}, closure=fr, cls_ctx=fr.cls_ctx, self_obj=fr.self_obj, module=fr.module)
        I.frames.append(child)
        I.pure += 1
        I.path.solver.push()
        I.path.solver.add(z3.And(*[z3.And(d >= 0, d < to_z3(sz)) for d, sz in zip(ds, it.sizes)]))
        try:
            I.assign(g.target, it.body_fn(ds))
            body = I.eval(elt)
        finally:
            I.path.solver.pop()
            I.pure -= 1
            I.frames.pop()

        def subst_mr(v, xs):
            if is_z3(v):
                return z3.substitute(v, *[(d, to_z3(x)) for d, x in zip(ds, xs)])
            if isinstance(v, tuple):
                return tuple(subst_mr(x, xs) for x in v)
            return v
        return MRSeq(it.sizes, lambda xs, body=body: subst_mr(body, xs), "list" if kind == "list" else "gen")
    k = z3.Int(I.path.fresh_name("k_c"))
    guard = z3.And(k >= 0, k < to_z3(it.length))
    fr = I.frame
    child = Frame(fr.func, {}, closure=fr, cls_ctx=fr.cls_ctx, self_obj=fr.self_obj, module=fr.module)
    I.frames.append(child)
    I.pure += 1
    I.path.solver.push()
    I.path.solver.add(guard)
    try:
        I.assign(g.target, it.elem(k))
        body = I.eval(elt)
    finally:
        I.path.solver.pop()
        I.pure -= 1
        I.frames.pop()

    def subst(v, i):
        if is_z3(v):
            return z3.substitute(v, (k, to_z3(i)))
        if isinstance(v, tuple):
            return tuple(subst(x, i) for x in v)
        return v

    return SymSeq(it.length, lambda i, body=body: subst(body, i), "list" if kind == "list" else "gen")


class MRSeq(SymSeq):
    """the list built by `[body for d0 in range(n0) for d1 in range(n1) ...]`: length n0*n1*..., and the element at the
    mixed-radix position (d0, d1, ...) is body(d0, d1, ...).  A position given with its digits (engine/tensor.MR) is
    looked up without div/mod; a plain linear position is decomposed arithmetically."""

    def __init__(self, sizes, body_fn, kind="list"):
        from .tensor import zprod
        self.sizes = list(sizes)
        self.body_fn = body_fn
        n = zprod([to_z3(x) for x in self.sizes])
        super().__init__(z3.simplify(n) if is_z3(n) else n, self._elem, kind)

    def _elem(self, i):
        from .tensor import MR
        if isinstance(i, MR) and len(i.comps) == len(self.sizes) and \
                all(z3.is_true(z3.simplify(to_z3(c[1]) == to_z3(sz))) for c, sz in zip(i.comps, self.sizes)):
            return self.body_fn([c[0] for c in i.comps])
        li = to_z3(i.linear()) if isinstance(i, MR) else to_z3(i)
        ds = []
        for j, sz in enumerate(self.sizes):
            stride = 1
            for t in self.sizes[j + 1:]:
                stride = stride * to_z3(t)
            q = li / stride if not (isinstance(stride, int) and stride == 1) else li
            ds.append(q % to_z3(sz) if j > 0 else q)
        return self.body_fn(ds)


def _nested_range_comprehension(I, elt, gens, kind):
    fr = I.frame
    child = Frame(fr.func, {}, closure=fr, cls_ctx=fr.cls_ctx, self_obj=fr.self_obj, module=fr.module)
    I.frames.append(child)
    I.pure += 1
    I.path.solver.push()
    dvars, sizes = [], []
    try:
        for gg in gens:
            it = I.eval(gg.iter)
            if isinstance(it, IterVal):
                it = it.drain()
            if not isinstance(it, SymSeq):
                it = as_symseq(it)
            d = z3.Int(I.path.fresh_name("d_c"))
            I.path.solver.add(z3.And(d >= 0, d < to_z3(it.length)))
            dvars.append(d)
            sizes.append(it.length)
            I.assign(gg.target, it.elem(d))
        body = I.eval(elt)
    finally:
        I.path.solver.pop()
        I.pure -= 1
        I.frames.pop()

    def subst(v, ds):
        if is_z3(v):
            return z3.substitute(v, *[(d, to_z3(x)) for d, x in zip(dvars, ds)])
        if isinstance(v, tuple):
            return tuple(subst(x, ds) for x in v)
        return v

    return MRSeq(sizes, lambda ds, body=body: subst(body, ds), "list" if kind == "list" else "gen")


# ---------------------------------------------------------------------- operators
def _dunder(I, o, name, args):
    m = I.repo.find_method(o.cls, name) if isinstance(o, Obj) else None
    if m is None:
        return NotImplemented
    return I.call_func(FuncVal(m, o, cls_ctx=m.cls), list(args), {})


_BIN_DUNDER = {ast.Add: "__add__", ast.Sub: "__sub__", ast.Mult: "__mul__", ast.BitAnd: "__and__", ast.BitOr: "__or__",
               ast.FloorDiv: "__floordiv__", ast.Mod: "__mod__"}


def binop(I, op, a, b):
    t = type(op)
    for x in (a, b):
        h = getattr(x, "__vf_binop__", None)
        if h is not None:
            return h(I, op, a, b)
    if isinstance(a, Obj) and t in _BIN_DUNDER:
        r = _dunder(I, a, _BIN_DUNDER[t], [b])
        if r is not NotImplemented:
            return r
    if isinstance(a, IterVal):
        a = a.drain()
    if isinstance(b, IterVal):
        b = b.drain()
    seqs = (SymSeq, list, tuple)
    if t is ast.Add and isinstance(a, seqs) and isinstance(b, seqs):
        kind = "list" if (isinstance(a, list) or getattr(a, "kind", "") == "list") else "tuple"
        return concat([a, b], kind)
    if t is ast.Mult and isinstance(a, (list, tuple)) and isinstance(b, int):
        return a * b
    if t is ast.Mult and isinstance(b, (list, tuple)) and isinstance(a, int):
        return a * b
    if (isinstance(a, SymSet) and isinstance(b, (set, frozenset))) or (isinstance(b, SymSet) and isinstance(a, (set, frozenset))):
        def _lift(s):                       # a concrete set of ints next to a symbolic one
            if isinstance(s, SymSet):
                return s
            arr = EMPTY
            for e in s:
                if not (isinstance(e, int) or is_sym_int(e)):
                    raise Unsupported("set operation between a symbolic set and a set of non-integers")
                arr = z3.Store(arr, to_z3(e), True)
            return SymSet(arr)
        a, b = _lift(a), _lift(b)
    if isinstance(a, SymSet) and isinstance(b, SymSet):
        if t is ast.BitAnd:
            return SymSet(z3.SetIntersect(a.arr, b.arr))
        if t is ast.BitOr:
            return SymSet(z3.SetUnion(a.arr, b.arr))
        if t is ast.Sub:
            return SymSet(z3.SetDifference(a.arr, b.arr))
    if isinstance(a, (set, frozenset)) and isinstance(b, (set, frozenset)):
        if t is ast.BitAnd:
            return a & b
        if t is ast.BitOr:
            return a | b
        if t is ast.Sub:
            return a - b
    if t is ast.BitXor and all(isinstance(v, bool) or is_sym_bool(v) for v in (a, b)):
        if isinstance(a, bool) and isinstance(b, bool):
            return a != b
        return z3.Xor(to_z3(a), to_z3(b))
    if isinstance(a, bool) and not is_z3(b):
        a = int(a) if not isinstance(b, bool) or t not in (ast.BitAnd, ast.BitOr) else a
    if is_sym_bool(a) or is_sym_bool(b) or (isinstance(a, bool) and isinstance(b, bool)):
        if t is ast.BitAnd:
            return zand(a, b)
        if t is ast.BitOr:
            return zor(a, b)
    num = lambda x: isinstance(x, (int, float)) or isinstance(x, z3.ArithRef)
    if num(a) and num(b):
        if t is ast.Add:
            return a + b
        if t is ast.Sub:
            return a - b
        if t is ast.Mult:
            return a * b
        if t is ast.Div:
            if not is_z3(a) and not is_z3(b):
                return a / b
            return z3.ToReal(a) / b if is_sym_int(a) else a / b
        if t in (ast.FloorDiv, ast.Mod):
            if not is_z3(a) and not is_z3(b):
                if b == 0:
                    I.raise_("ZeroDivisionError")
                return a // b if t is ast.FloorDiv else a % b
            if not I.path.must(to_z3(b) > 0):
                if I.pure:
                    raise Unsupported("floor division by a possibly non-positive symbolic int in pure mode")
                if not I.path.branch(to_z3(b) != 0):
                    I.raise_("ZeroDivisionError")
                if not I.path.must(to_z3(b) > 0):
                    raise Unsupported("floor division by a possibly negative symbolic int")
            # for a positive divisor z3's integer div/mod is floor division / non-negative remainder
            return to_z3(a) / to_z3(b) if t is ast.FloorDiv else to_z3(a) % to_z3(b)
        if t is ast.Pow:
            if isinstance(b, int) and 0 <= b <= 8:
                r = 1
                for _ in range(b):
                    r = r * a
                return r
            if not is_z3(a) and not is_z3(b):
                return a ** b
            raise Unsupported("symbolic exponent")
    if isinstance(a, str) and isinstance(b, str) and t is ast.Add:
        return a + b
    if isinstance(a, str) and t is ast.Mod:
        return _unknown_str()                # "...%s" % x: content not tracked (never compared / used as a key)
    raise Unsupported(f"binary {t.__name__} on {type(a).__name__}, {type(b).__name__}")


_CMP_DUNDER = {ast.Eq: "__eq__", ast.NotEq: "__ne__", ast.Lt: "__lt__", ast.LtE: "__le__", ast.Gt: "__gt__", ast.GtE: "__ge__"}


def compare(I, op, a, b):
    t = type(op)
    if isinstance(a, IterVal):
        a = a.drain()
    if isinstance(b, IterVal):
        b = b.drain()
    if t in (ast.In, ast.NotIn):
        r = contains(I, b, a)
        return r if t is ast.In else znot(r)
    for x in (a, b):
        h = getattr(x, "__vf_compare__", None)
        if h is not None:
            return h(I, op, a, b)
    if t in (ast.Is, ast.IsNot):
        if is_z3(a) or is_z3(b):
            if a is None or b is None:
                same = False
            else:
                raise Unsupported("identity comparison of symbolic values")
        elif isinstance(a, (bool, type(None))) or isinstance(b, (bool, type(None))):
            same = a is b
        elif isinstance(a, (Obj, Opaque, ClassVal, EnumVal)) or isinstance(b, (Obj, Opaque, ClassVal, EnumVal)):
            same = (a is b) or (isinstance(a, EnumVal) and a == b) or \
                (isinstance(a, ClassVal) and isinstance(b, ClassVal) and a.ci is b.ci)
        else:
            same = a is b
        return same if t is ast.Is else not same
    if t in (ast.In, ast.NotIn):
        r = contains(I, b, a)
        return r if t is ast.In else znot(r)
    if isinstance(a, Obj) and t in _CMP_DUNDER:
        m = I.repo.find_method(a.cls, _CMP_DUNDER[t])
        if m is None and t is ast.NotEq:
            m2 = I.repo.find_method(a.cls, "__eq__")
            if m2 is not None:
                return znot(I.truth(I.call_func(FuncVal(m2, a, cls_ctx=m2.cls), [b], {})))
        if m is not None:
            return I.truth(I.call_func(FuncVal(m, a, cls_ctx=m.cls), [b], {}))
        if t is ast.Eq:
            return a is b
        if t is ast.NotEq:
            return a is not b
    if t in (ast.Eq, ast.NotEq):
        r = equal(I, a, b)
        return r if t is ast.Eq else znot(r)
    if isinstance(a, SymSet) and isinstance(b, SymSet):
        sub_ab = z3.IsSubset(a.arr, b.arr)
        sub_ba = z3.IsSubset(b.arr, a.arr)
        if t is ast.LtE:
            return sub_ab
        if t is ast.GtE:
            return sub_ba
        if t is ast.Lt:
            return z3.And(sub_ab, a.arr != b.arr)
        if t is ast.Gt:
            return z3.And(sub_ba, a.arr != b.arr)
    if isinstance(a, (set, frozenset)) and isinstance(b, (set, frozenset)):
        return {ast.Lt: a < b, ast.LtE: a <= b, ast.Gt: a > b, ast.GtE: a >= b}[t]
    num = lambda x: isinstance(x, (int, float)) or isinstance(x, z3.ArithRef)
    if num(a) and num(b):
        if t is ast.Lt:
            return a < b
        if t is ast.LtE:
            return a <= b
        if t is ast.Gt:
            return a > b
        if t is ast.GtE:
            return a >= b
    raise Unsupported(f"comparison {t.__name__} on {type(a).__name__}, {type(b).__name__}")


def equal(I, a, b):
    if a is None or b is None:
        return a is None and b is None
    for x in (a, b):
        h = getattr(x, "__vf_compare__", None)
        if h is not None:
            return h(I, ast.Eq(), a, b)
    if isinstance(a, (SymSeq, list, tuple)) and isinstance(b, (SymSeq, list, tuple)):
        return seq_eq(I, a, b)
    if (isinstance(a, SymSet) and isinstance(b, (set, frozenset))) or (isinstance(b, SymSet) and isinstance(a, (set, frozenset))):
        # a symbolic set of ints next to a concrete one: compare as sets (never "different types => unequal")
        def _lift_eq(s):
            if isinstance(s, SymSet):
                return s
            arr = EMPTY
            for e in s:
                if not (isinstance(e, int) or is_sym_int(e)):
                    return None
                arr = z3.Store(arr, to_z3(e), True)
            return SymSet(arr)
        la, lb = _lift_eq(a), _lift_eq(b)
        if la is None or lb is None:
            raise Unsupported("equality of a symbolic set and a set of non-integers")
        a, b = la, lb
    if isinstance(a, SymSet) and isinstance(b, SymSet):
        return a.arr == b.arr
    num = lambda x: isinstance(x, (int, float, bool)) or isinstance(x, (z3.ArithRef, z3.BoolRef))
    if num(a) and num(b):
        if is_z3(a) or is_z3(b):
            if is_sym_bool(a) != is_sym_bool(b) and not (isinstance(a, bool) or isinstance(b, bool)):
                raise Unsupported("bool/int comparison")
            return to_z3(a) == to_z3(b)
        return a == b
    if isinstance(a, Obj) and isinstance(b, Obj):
        m = I.repo.find_method(a.cls, "__eq__")
        if m is not None:
            return I.truth(I.call_func(FuncVal(m, a, cls_ctx=m.cls), [b], {}))
        return a is b
    if isinstance(a, (str, EnumVal)) or isinstance(b, (str, EnumVal)):
        return a == b
    if isinstance(a, dict) and isinstance(b, dict):
        if set(a.keys()) != set(b.keys()):
            return False
        return zand(*[equal(I, a[k], b[k]) for k in a])
    if isinstance(a, (set, frozenset)) and isinstance(b, (set, frozenset)):
        if any(is_eqobj(x) for x in a) or any(is_eqobj(x) for x in b):
            # semantic set equality: mutual containment under the elements' own equality
            return zand(*[zor(*[equal(I, x, y) for y in b]) for x in a], *[zor(*[equal(I, x, y) for x in a]) for y in b])
        return a == b
    if isinstance(a, (ClassVal,)) and isinstance(b, ClassVal):
        return a.ci is b.ci
    if isinstance(a, Opaque) and isinstance(b, Opaque) and (a.attrs.get("__identity_eq__") or b.attrs.get("__identity_eq__")):
        return a is b            # declared by the harness: objects of a class that does not define __eq__ (e.g. nn.Module)
    if type(a) is not type(b) and not (is_z3(a) or is_z3(b)):
        # different Python types are unequal - but a SYMBOLIC container next to a concrete one is a representation difference, not a type
        # difference: never answered "unequal" (that would make a spurious path feasible or a false clause provable)
        if any(isinstance(x, (SymSet, SymSeq)) or type(x).__name__ in ("SymKeyDict", "SymIntSet", "SymMap", "LoopMap", "MRSeq") for x in (a, b)):
            raise Unsupported(f"equality on {type(a).__name__}, {type(b).__name__}")
        return False
    raise Unsupported(f"equality on {type(a).__name__}, {type(b).__name__}")


def contains(I, cont, x):
    h = getattr(cont, "__vf_contains__", None)
    if h is not None:
        return h(I, x)
    if isinstance(cont, SymSet):
        return z3.Select(cont.arr, to_z3(x))
    if isinstance(cont, SymSeq):
        k = z3.Int(I.path.fresh_name("k_in"))
        return z3.Exists([k], z3.And(k >= 0, k < to_z3(cont.length), to_z3(cont.elem(k)) == to_z3(x)))
    if isinstance(cont, dict):
        return canon_key(cont.keys(), x) in cont
    if isinstance(cont, (set, frozenset)) and (is_eqobj(x) or any(is_eqobj(c) for c in cont)):
        return canon_key(cont, x) in cont
    if isinstance(cont, (list, tuple, set, frozenset)):
        if is_z3(x) or any(is_z3(c) for c in cont):
            return zor(*[equal(I, x, c) for c in cont])
        if isinstance(x, Obj):
            return zor(*[equal(I, x, c) for c in cont])
        return x in cont
    if isinstance(cont, range):
        if isinstance(x, int):
            return x in cont
        if cont.step == 1:
            return z3.And(to_z3(x) >= cont.start, to_z3(x) < cont.stop)
    if isinstance(cont, Obj):
        m = I.repo.find_method(cont.cls, "__contains__")
        if m is not None:
            return I.truth(I.call_func(FuncVal(m, cont, cls_ctx=m.cls), [x], {}))
    if isinstance(cont, str) and isinstance(x, str):
        return x in cont
    raise Unsupported(f"membership in {type(cont).__name__}")


# ---------------------------------------------------------------------- attributes
def getattr_(I, o, name):
    if isinstance(o, Obj):
        if name in o.fields:
            return o.fields[name]
        m = I.repo.find_method(o.cls, name)
        if m is not None:
            if m.kind == "property":
                v = I.call_func(FuncVal(m, o, cls_ctx=m.cls), [], {})
                if getattr(m, "cached", False):
                    o.fields[name] = v                 # functools.cached_property: the first value stays, whatever changes afterwards
                return v
            if m.kind == "staticmethod":
                return FuncVal(m, None, cls_ctx=m.cls)
            if m.kind == "classmethod":
                return FuncVal(m, ClassVal(o.cls), cls_ctx=m.cls)
            return FuncVal(m, o, cls_ctx=m.cls)
        ca = I.repo.find_class_attr(o.cls, name)
        if ca is not None:
            return _eval_in_module(I, ca[0].module, ca[1])
        if name == "__class__":
            return ClassVal(o.cls)
        h = I.externals.get(f"<attr>.{name}")
        if h is not None:
            return h(I, [o], {})
        raise Unsupported(f"attribute {name} of {o!r}")
    if isinstance(o, SuperVal):
        m = I.repo.find_method(o.obj.cls if isinstance(o.obj, Obj) else o.obj.ci, name, after=o.after_cls)
        if m is None:
            if name in ("__init__", "__init_subclass__"):
                I.path.notes.add(f"external base-class {name} stubbed as no-op")
                return Builtin("external_init", lambda *a, **k: None)
            if name == "__call__" and isinstance(o.obj, Obj):
                # torch.nn.Module.__call__ (assumed contract): dispatches to self.forward(*args); hooks are not modelled
                I.path.notes.add("nn.Module.__call__ modelled as a call of forward (no hooks)")
                return getattr_(I, o.obj, "forward")
            raise Unsupported(f"super().{name} not found in the repo")
        if m.kind == "property":
            return I.call_func(FuncVal(m, o.obj, cls_ctx=m.cls), [], {})
        return FuncVal(m, o.obj, cls_ctx=m.cls)
    if isinstance(o, ClassVal):
        m = I.repo.find_method(o.ci, name)
        if m is not None:
            if m.kind == "staticmethod":
                return FuncVal(m, None, cls_ctx=m.cls)
            if m.kind == "classmethod":
                return FuncVal(m, o, cls_ctx=m.cls)
            return FuncVal(m, None, cls_ctx=m.cls)
        if name == "__name__":
            return o.ci.name
        ca = I.repo.find_class_attr(o.ci, name)
        if ca is not None:
            if I.repo.is_subclass(o.ci, "IntEnum") or I.repo.is_subclass(o.ci, "Enum"):
                return EnumVal(o.ci, name)
            return _eval_in_module(I, ca[0].module, ca[1])
        raise Unsupported(f"class attribute {o.ci.name}.{name}")
    if isinstance(o, ModuleVal):
        r = I.repo.resolve_name(o.mi, name)
        if r is None:
            raise Unsupported(f"module attribute {name}")
        return I.wrap_resolved(r)
    if isinstance(o, ExternalVal):
        return I.external(o.dotted + "." + name)
    if isinstance(o, Opaque):
        if name in o.attrs:
            a = o.attrs[name]
            return a(o) if callable(a) and not is_z3(a) else a
        raise Unsupported(f"attribute {name} of opaque {o.name}")
    if isinstance(o, dict):
        return _dict_method(I, o, name)
    if isinstance(o, list):
        return _list_method(I, o, name)
    if isinstance(o, (set,)):
        if name == "add":
            return BoundBuiltin(lambda x: o.add(canon_key(o, x)))
        if name == "pop":
            return BoundBuiltin(lambda: o.pop())
    if isinstance(o, SymSet):
        return _symset_method(I, o, name)
    if isinstance(o, (set, frozenset)) and name == "union":
        def fs_union(*others):
            if all(isinstance(x, (set, frozenset)) for x in others):
                return o.union(*others)
            if all(not is_z3(e) for e in o):
                # a set of objects / scalars united with arbitrary iterables: elements added one by one under the elements' own equality
                out = set(o)
                okk = True
                try:
                    for x in others:
                        if isinstance(x, (SymSet, SymSeq)):
                            okk = False
                            break
                        for e in iterate(I, x):
                            if is_z3(e):
                                okk = False
                                break
                            out.add(canon_key(out, e))
                except Unsupported:
                    okk = False
                if okk:
                    return out if isinstance(o, set) else frozenset(out)
            acc = SymSet(_concrete_set(o))
            for x in others:
                acc = SymSet(z3.SetUnion(acc.arr, _as_set_arr(I, x)))
            return acc
        return BoundBuiltin(fs_union)
    if isinstance(o, (set, frozenset)) and name in ("difference", "intersection", "issubset", "issuperset", "isdisjoint"):
        def fs_op(x, name=name):
            if isinstance(x, (set, frozenset, list, tuple)) and all(isinstance(e, (int, str)) for e in list(o) + list(x)):
                return getattr(frozenset(o), name)(frozenset(x))                      # concrete sets of scalars
            a = SymSet(_concrete_set(o))
            bb = _as_set_arr(I, x)
            if name == "difference":
                return SymSet(z3.SetDifference(a.arr, bb))
            if name == "intersection":
                return SymSet(z3.SetIntersect(a.arr, bb))
            if name == "issubset":
                return z3.IsSubset(a.arr, bb)
            if name == "issuperset":
                return z3.IsSubset(bb, a.arr)
            return z3.SetIntersect(a.arr, bb) == EMPTY
        return BoundBuiltin(fs_op)
    if isinstance(o, EnumVal) and name in ("name", "value"):
        return o.name
    if isinstance(o, IntTensorConst):
        if name == "cpu":
            return BoundBuiltin(lambda: o)
        if name == "tolist":
            return BoundBuiltin(lambda: o.values)
        if name == "shape":
            v = o.values
            n = seq_len(v)
            first = (v.elem(0) if isinstance(v, SymSeq) else (v[0] if (isinstance(n, int) and n) else None))
            if isinstance(first, (list, tuple, SymSeq)):
                return (n, seq_len(first))
            return (n,)
        if name == "unsqueeze":
            def unsq(dim=0):
                if dim not in (0, -2) and not (dim == -1 and False):
                    raise Unsupported("unsqueeze of an integer tensor on a dimension other than 0")
                return IntTensorConst([o.values])
            return BoundBuiltin(unsq)
    if isinstance(o, PartialVal):
        if name == "func":
            return o.func
        if name == "keywords":
            return o.kwargs
        if name == "args":
            return tuple(o.args)
    h = getattr(o, "__vf_getattr__", None)
    if h is not None:
        return h(I, name)
    if isinstance(o, Builtin) and o.name == "dict" and name == "fromkeys":
        def fromkeys(keys, value=None):
            # order-preserving de-duplication (dict insertion order), keys compared as dict keys are
            d = {}
            for k in iterate(I, keys):
                d.setdefault(canon_key(d.keys(), k), value)
            return d
        return Builtin("dict.fromkeys", fromkeys)
    if isinstance(o, FuncVal) and name == "__annotations__":
        # the annotations of a function of the repo, evaluated in its module: classes become class values, anything the
        # subset cannot evaluate (Protocol types, unions, strings) becomes an opaque marker
        ann = {}
        a = o.info.node.args
        for arg in a.posonlyargs + a.args + a.kwonlyargs:
            if arg.annotation is not None:
                ann[arg.arg] = _eval_annotation(I, o.info.module, arg.annotation)
        if o.info.node.returns is not None:
            ann["return"] = _eval_annotation(I, o.info.module, o.info.node.returns)
        return ann
    if isinstance(o, FuncVal) and name == "__name__":
        return o.info.name
    raise Unsupported(f"attribute {name} of {type(o).__name__}")


def _eval_annotation(I, mi, expr):
    try:
        if isinstance(expr, ast.Constant) and isinstance(expr.value, str):
            expr = ast.parse(expr.value, mode="eval").body
        v = _eval_in_module(I, mi, expr)
        return v if isinstance(v, ClassVal) else Opaque("annotation")
    except (Unsupported, SyntaxError):
        return Opaque("annotation")


def _eval_in_module(I, mi, expr):
    cache = I.__dict__.setdefault("_class_attr_cache", {})
    if isinstance(expr, (ast.Dict, ast.List, ast.Set, ast.Call)):
        key = (mi.relpath, id(expr))
        if key not in cache:
            cache[key] = _eval_in_module_uncached(I, mi, expr)
        return cache[key]
    return _eval_in_module_uncached(I, mi, expr)


def _eval_in_module_uncached(I, mi, expr):
    I.frames.append(Frame(None, {}, module=mi))
    try:
        return I.eval(expr)
    finally:
        I.frames.pop()


def setattr_(I, o, name, v):
    if isinstance(o, Obj):
        o.fields[name] = v
        return
    h = getattr(o, "__vf_setattr__", None)
    if h is not None:
        return h(I, name, v)
    raise Unsupported(f"attribute assignment on {type(o).__name__}")


def _dict_method(I, d, name):
    if name == "items":
        return BoundBuiltin(lambda: [(k, v) for k, v in d.items()])
    if name == "keys":
        return BoundBuiltin(lambda: KeysView(d))
    if name == "values":
        return BoundBuiltin(lambda: list(d.values()))
    if name == "get":
        return BoundBuiltin(lambda k, default=None: d.get(canon_key(d.keys(), k), default))
    if name == "__getitem__":
        return BoundBuiltin(lambda k: getitem(I, d, k))
    if name == "copy":
        return BoundBuiltin(lambda: dict(d))
    if name == "clear":
        return BoundBuiltin(lambda: d.clear())
    if name == "pop":
        def pop(k, *default):
            hk = hashable(k)
            if hk in d:
                return d.pop(hk)
            if default:
                return default[0]
            I.raise_("KeyError")
        return BoundBuiltin(pop)
    if name == "setdefault":
        return BoundBuiltin(lambda k, default=None: d.setdefault(canon_key(d.keys(), k), default))
    if name == "update":
        def update(other=(), **kw):
            if isinstance(other, dict):
                d.update(other)
            else:
                for k, v in iterate(I, other):
                    d[hashable(k)] = v
            d.update(kw)
        return BoundBuiltin(update)
    raise Unsupported(f"dict.{name}")


def _list_method(I, l, name):
    if name == "append":
        return BoundBuiltin(lambda x: l.append(x))
    if name == "extend":
        return BoundBuiltin(lambda xs: l.extend(iterate(I, xs)))
    if name == "pop":
        def pop(i=-1):
            if not l:
                I.raise_("IndexError", "pop from empty list")
            return l.pop(i)
        return BoundBuiltin(pop)
    if name == "insert":
        return BoundBuiltin(lambda i, x: l.insert(i, x))
    if name == "copy":
        return BoundBuiltin(lambda: list(l))
    if name == "index":
        def index(x):
            for i, y in enumerate(l):
                if I.decide(equal(I, x, y)):
                    return i
            I.raise_("ValueError", "list.index")
        return BoundBuiltin(index)
    if name == "remove":
        def remove(x):
            for i, y in enumerate(l):
                if I.decide(equal(I, x, y)):
                    del l[i]
                    return
            I.raise_("ValueError", "list.remove")
        return BoundBuiltin(remove)
    raise Unsupported(f"list.{name}")


def _concrete_set(s):
    arr = EMPTY
    for x in s:
        arr = z3.Store(arr, to_z3(x), True)
    return arr


def _as_set_arr(I, x):
    if isinstance(x, SymSet):
        return x.arr
    if isinstance(x, (set, frozenset, list, tuple)) and all(is_intlike(e) for e in x):
        return _concrete_set(x)
    if isinstance(x, IterVal):
        return _as_set_arr(I, x.drain())
    if isinstance(x, SymSeq):
        org = getattr(x, "origin_set", None)
        if org is not None:
            return org
        s = z3.Array(I.path.fresh_name("setof"), IntS, BoolS)
        v, k = z3.Int(I.path.fresh_name("v_s")), z3.Int(I.path.fresh_name("k_s"))
        I.path.assume(z3.ForAll([v], s[v] == z3.Exists([k], z3.And(k >= 0, k < to_z3(x.length), to_z3(x.elem(k)) == v))))
        I.path.assume(z3.ForAll([k], z3.Implies(z3.And(k >= 0, k < to_z3(x.length)), s[to_z3(x.elem(k))])))
        return s
    if isinstance(x, Obj):
        m = I.repo.find_method(x.cls, "__iter__")
        if m is not None:
            return _as_set_arr(I, I.call_func(FuncVal(m, x, cls_ctx=m.cls), [], {}))
    raise Unsupported(f"set of {type(x).__name__}")


def _symset_method(I, s, name):
    if name == "union":
        def union(*others):
            acc = s.arr
            for x in others:
                acc = z3.SetUnion(acc, _as_set_arr(I, x))
            return SymSet(acc)
        return BoundBuiltin(union)
    if name == "difference":
        return BoundBuiltin(lambda x: SymSet(z3.SetDifference(s.arr, _as_set_arr(I, x))))
    if name == "intersection":
        return BoundBuiltin(lambda x: SymSet(z3.SetIntersect(s.arr, _as_set_arr(I, x))))
    if name == "issubset":
        return BoundBuiltin(lambda x: z3.IsSubset(s.arr, _as_set_arr(I, x)))
    raise Unsupported(f"set.{name}")


def card(I, s: SymSet):
    return _card_arr(I, s.arr, 0)


def _enum_elements(arr, guard=None):
    """the generating elements [(guard, element)] of a set term built from the empty set by insertions, unions and if-then-else
    of such terms only (None otherwise); an element belongs to the set when its guard holds"""
    g = guard if guard is not None else z3.BoolVal(True)
    k = arr.decl().kind()
    if k == z3.Z3_OP_CONST_ARRAY:
        return [] if z3.is_false(arr.arg(0)) else None
    if k == z3.Z3_OP_STORE and z3.is_true(arr.arg(2)):
        base = _enum_elements(arr.arg(0), guard)
        return None if base is None else base + [(g, arr.arg(1))]
    if k == z3.Z3_OP_SET_UNION:
        out = []
        for t in range(arr.num_args()):
            e = _enum_elements(arr.arg(t), guard)
            if e is None:
                return None
            out += e
        return out
    if k == z3.Z3_OP_ITE:
        a = _enum_elements(arr.arg(1), z3.And(g, arr.arg(0)))
        b = _enum_elements(arr.arg(2), z3.And(g, z3.Not(arr.arg(0))))
        return None if a is None or b is None else a + b
    return None


def _exact_card(arr):
    def count(elems, keep):
        total = z3.IntVal(0)
        for i, (gi, e) in enumerate(elems):
            first = z3.And(*[z3.Not(z3.And(gj, e == ej)) for gj, ej in elems[:i]]) if i else z3.BoolVal(True)
            total = total + z3.If(z3.And(gi, first, keep(e)), 1, 0)
        return z3.simplify(total)
    elems = _enum_elements(arr)
    if elems is not None and len(elems) <= 12:
        return count(elems, lambda e: z3.BoolVal(True))
    k = arr.decl().kind()
    if k in (z3.Z3_OP_SET_INTERSECT, z3.Z3_OP_SET_DIFFERENCE) and arr.num_args() == 2:
        a, b = arr.arg(0), arr.arg(1)
        ea, eb = _enum_elements(a), _enum_elements(b)
        if ea is not None and len(ea) <= 12:
            return count(ea, (lambda e: z3.Select(b, e)) if k == z3.Z3_OP_SET_INTERSECT else (lambda e: z3.Not(z3.Select(b, e))))
        if eb is not None and len(eb) <= 12 and k == z3.Z3_OP_SET_INTERSECT:
            return count(eb, lambda e: z3.Select(a, e))
    return None


def _card_arr(I, arr, depth):
    """cardinality of a finite set of ints given as a z3 set term: an uninterpreted function constrained by the
    axioms of finite cardinality instantiated on the *syntactic* structure of the term (store, union, difference,
    intersection); all of them are theorems about finite sets (trusted base: finite-set cardinality axioms)."""
    # a set enumerated by finitely many (symbolic) elements, possibly intersected with / reduced by an arbitrary set, has an EXACT
    # cardinality: the number of its first occurrences that pass the filter (no uninterpreted function involved).  The analysis
    # is done on the term as it was built (z3's simplifier rewrites unions into array maps)
    exact = _exact_card(arr)
    if exact is not None:
        return exact
    k = arr.decl().kind()
    if k == z3.Z3_OP_CONST_ARRAY and z3.is_false(arr.arg(0)):
        return z3.IntVal(0)
    c = CARD(arr)
    # from here on the path depends on an under-constrained abstraction: a counter-model found on it may be spurious, so a
    # `sat` verdict on this path is reported as undecided, never as refuted (engine/vc.py)
    I.path.notes.add("ABSTRACT-CARD: cardinality of a set term abstracted by an uninterpreted function (sound axioms, incomplete)")
    I.path.assume(c >= 0)
    I.path.assume((c == 0) == (arr == EMPTY))
    if depth > 6:
        return c
    if k == z3.Z3_OP_STORE and z3.is_true(arr.arg(2)):
        base, x = arr.arg(0), arr.arg(1)
        cb = _card_arr(I, base, depth + 1)
        I.path.assume(c == cb + z3.If(z3.Select(base, x), 0, 1))
    elif k == z3.Z3_OP_SET_UNION and arr.num_args() == 2:
        a, b = arr.arg(0), arr.arg(1)
        ca, cb = _card_arr(I, a, depth + 1), _card_arr(I, b, depth + 1)
        ci = _card_arr(I, z3.SetIntersect(a, b), depth + 1)
        I.path.assume(c + ci == ca + cb)
    elif k == z3.Z3_OP_SET_DIFFERENCE:
        a, b = arr.arg(0), arr.arg(1)
        ca = _card_arr(I, a, depth + 1)
        ci = _card_arr(I, z3.SetIntersect(a, b), depth + 1)
        I.path.assume(c == ca - ci)
    elif k == z3.Z3_OP_SET_INTERSECT and arr.num_args() == 2:
        a, b = arr.arg(0), arr.arg(1)
        if depth < 3:
            ca, cb = _card_arr(I, a, depth + 4), _card_arr(I, b, depth + 4)
            I.path.assume(z3.And(c <= ca, c <= cb))
            I.path.assume(z3.Implies(z3.IsSubset(a, b), c == ca))
            I.path.assume(z3.Implies(z3.IsSubset(b, a), c == cb))
    return c


# ---------------------------------------------------------------------- builtins
def _unknown_str():
    from .interp import UnknownStr
    return UnknownStr()


def make_builtins(I):
    _CUR[0] = I
    def b_len(x):
        if isinstance(x, IterVal):
            x = x.drain()
        if isinstance(x, SymSeq):
            return x.length
        if isinstance(x, SymSet):
            return card(I, x)
        if isinstance(x, (list, tuple, dict, set, frozenset, str, range)):
            return len(x)
        if isinstance(x, IntTensorConst):
            return b_len(x.values)
        if isinstance(x, Obj):
            m = I.repo.find_method(x.cls, "__len__")
            if m is not None:
                return I.call_func(FuncVal(m, x, cls_ctx=m.cls), [], {})
        h = getattr(x, "__vf_len__", None)
        if h is not None:
            return h(I)
        raise Unsupported(f"len of {type(x).__name__}")

    def b_range(*a):
        if all(isinstance(x, int) for x in a):
            return list(range(*a))
        if len(a) == 1:
            n = to_z3(a[0])
            if I.path.must(n >= 0):
                return SymSeq(n, lambda i: i, "range")
            return SymSeq(zmax(n, 0), lambda i: i, "range")
        if len(a) == 2:
            lo, hi = a
            return SymSeq(zmax(to_z3(hi) - to_z3(lo), 0), lambda i, lo=lo: to_z3(lo) + to_z3(i), "range")
        raise Unsupported("range with symbolic step")

    def b_tuple(x=()):
        if isinstance(x, IterVal):
            x = x.drain()
        if isinstance(x, SymSet):
            x = set_enumeration(x)                  # arbitrary order, as for list(set)
        if isinstance(x, SymSeq):
            r = SymSeq(x.length, x.elem, "tuple", x.name)
            if hasattr(x, "origin_set"):
                r.origin_set = x.origin_set
            if hasattr(x, "max_len"):
                r.max_len = x.max_len
            return r
        return tuple(iterate(I, x))

    def set_enumeration(x):
        """contract of iterating a set of ints: an enumeration of its elements without repetition in an ARBITRARY order
        (CPython iterates in hash-table order, which the language does not specify)"""
        n = card(I, x)
        arr = z3.Array(I.path.fresh_name("setiter"), IntS, IntS)
        gen = _enum_elements(x.arr)
        if gen is not None and 0 < len(gen) <= 6:
            # set built from finitely many (guarded) elements: the same contract without quantifiers (positions 0..m-1 suffice as n <= m)
            m = len(gen)
            I.path.assume(z3.And(n >= 0, n <= m))
            for p in range(m):
                I.path.assume(z3.Implies(p < n, z3.Or([z3.And(g, arr[p] == e) for g, e in gen])))
                for q in range(p):
                    I.path.assume(z3.Implies(p < n, arr[p] != arr[q]))
            for g, e in gen:
                I.path.assume(z3.Implies(g, z3.Or([z3.And(p < n, arr[p] == e) for p in range(m)])))
            I.path.notes.add("iteration over a set of ints: trusted contract (enumeration without repetition, arbitrary order)")
            r = SymSeq(n, lambda i, arr=arr: arr[to_z3(i)], "list")
            r.origin_set = x.arr
            r.max_len = m
            return r
        k, j, v = (z3.Int(I.path.fresh_name(s)) for s in ("k_si", "j_si", "v_si"))
        rng = lambda t: z3.And(t >= 0, t < n)
        I.path.assume(z3.ForAll([k], z3.Implies(rng(k), z3.Select(x.arr, arr[k])), patterns=[arr[k]]))
        I.path.assume(z3.ForAll([k, j], z3.Implies(z3.And(rng(k), rng(j), k != j), arr[k] != arr[j]), patterns=[z3.MultiPattern(arr[k], arr[j])]))
        I.path.assume(z3.ForAll([v], z3.Implies(z3.Select(x.arr, v), z3.Exists([k], z3.And(rng(k), arr[k] == v)))))
        I.path.notes.add("iteration over a set of ints: trusted contract (enumeration without repetition, arbitrary order)")
        r = SymSeq(n, lambda i, arr=arr: arr[to_z3(i)], "list")
        r.origin_set = x.arr
        return r

    _HS = z3.Function("hash_of_set", z3.ArraySort(IntS, z3.BoolSort()), IntS)
    _HQ = z3.Function("hash_of_seq", IntS, z3.ArraySort(IntS, IntS), IntS)

    def b_hash(o):
        """hash(): an uninterpreted function of the VALUE - of the set for (frozen)sets of ints, of (length, elements in order) for tuples of ints;
        objects of the repo use their __hash__; everything else hashes by identity (object.__hash__)"""
        if isinstance(o, SymSet):
            return _HS(o.arr)
        if isinstance(o, (set, frozenset)) and all(isinstance(e, int) or is_sym_int(e) for e in o):
            arr = EMPTY
            for e in o:
                arr = z3.Store(arr, to_z3(e), True)
            return _HS(arr)
        if isinstance(o, (tuple, list, SymSeq)):
            sq = as_symseq(o) if not isinstance(o, SymSeq) else o
            j = z3.Int(I.path.fresh_name("j_h"))
            try:
                body = to_z3(sq.elem(j))
            except Exception:
                raise Unsupported("hash of a sequence of non-integers")
            if not z3.is_int(body):
                raise Unsupported("hash of a sequence of non-integers")
            n = to_z3(sq.length)
            bound = sq.length if isinstance(sq.length, int) else getattr(sq, "max_len", None)
            if isinstance(bound, int) and bound <= 8:
                # at most `bound` elements: the same normalised array as a chain of stores (no lambda, so the query stays decidable)
                arr = z3.K(IntS, z3.IntVal(0))
                for p in range(bound):
                    arr = z3.If(p < n, z3.Store(arr, p, to_z3(sq.elem(p))), arr)
                return _HQ(n, arr)
            return _HQ(n, z3.Lambda([j], z3.If(z3.And(j >= 0, j < n), body, z3.IntVal(0))))      # only the first `length` elements matter
        if isinstance(o, Obj):
            m = I.repo.find_method(o.cls, "__hash__")
            if m is not None:
                return I.call_func(FuncVal(m, o, cls_ctx=m.cls), [], {})
            return id(o)
        if isinstance(o, bool):
            return int(o)
        if isinstance(o, int) or is_sym_int(o):
            return o
        return id(o)

    def b_list(x=()):
        if isinstance(x, IterVal):
            x = x.drain()
        if isinstance(x, SymSet):
            return set_enumeration(x)
        if isinstance(x, SymSeq):
            r = SymSeq(x.length, x.elem, "list", x.name)
            if hasattr(x, "origin_set"):
                r.origin_set = x.origin_set
            return r
        return list(iterate(I, x))

    def b_zip(*xs):
        xs = [x.drain() if isinstance(x, IterVal) else x for x in xs]
        if all(not isinstance(x, SymSeq) or isinstance(x.length, int) for x in xs):
            return list(zip(*[iterate(I, x) for x in xs]))
        ss = [as_symseq(x) if not isinstance(x, SymSeq) else x for x in xs]
        n = ss[0].length
        for s in ss[1:]:
            n = zmin(n, s.length)
        return SymSeq(n, lambda i, ss=ss: tuple(s.elem(i) for s in ss), "zip")

    def b_enumerate(x, start=0):
        if isinstance(x, IterVal):
            x = x.drain()
        if isinstance(x, SymSeq) and not isinstance(x.length, int):
            return SymSeq(x.length, lambda i, x=x: (i + start, x.elem(i)), "enumerate")
        return [(i + start, v) for i, v in enumerate(iterate(I, x))]

    def _quant(x, is_all):
        if isinstance(x, IterVal):
            x = x.drain()
        if isinstance(x, MRSeq):
            ds = [z3.Int(I.path.fresh_name("d_q")) for _ in x.sizes]
            body = to_z3(I.truth(x.body_fn(ds)))
            rng = z3.And(*[z3.And(d >= 0, d < to_z3(sz)) for d, sz in zip(ds, x.sizes)])
            if is_all:
                return z3.ForAll(ds, z3.Implies(rng, body))
            return z3.Exists(ds, z3.And(rng, body))
        if isinstance(x, SymSeq) and not isinstance(x.length, int):
            k = z3.Int(I.path.fresh_name("k_q"))
            body = I.truth(x.elem(k))
            body = to_z3(body)
            rng = z3.And(k >= 0, k < to_z3(x.length))
            if is_all:
                return z3.ForAll([k], z3.Implies(rng, body))
            return z3.Exists([k], z3.And(rng, body))
        vals = [I.truth(v) for v in iterate(I, x)]
        return zand(*vals) if is_all else zor(*vals)

    def b_isinstance(v, t):
        if isinstance(t, tuple):
            return any(b_isinstance(v, x) for x in t)
        if isinstance(t, ClassVal):
            if isinstance(v, Obj):
                return I.repo.is_subclass(v.cls, t.ci)
            if isinstance(v, Opaque) and v.cls is not None:
                return I.repo.is_subclass(v.cls, t.ci)
            h = getattr(v, "__vf_isinstance__", None)
            if h is not None:
                return h(I, t)
            return False
        name = t.name if isinstance(t, Builtin) else t.dotted.split(".")[-1] if isinstance(t, ExternalVal) else None
        if name is None:
            if hasattr(v, "__vf_isinstance__"):            # harness-defined symbolic classes
                return v.__vf_isinstance__(I, t)
            raise Unsupported(f"isinstance against {t!r}")
        h = getattr(v, "__vf_isinstance__", None)
        if h is not None:
            return h(I, t)
        if name == "type":
            return isinstance(v, ClassVal)
        if name == "int":
            return is_intlike(v) or isinstance(v, bool)
        if name == "bool":
            return isinstance(v, bool) or is_sym_bool(v)
        if name == "float":
            return isinstance(v, float) or (isinstance(v, z3.ArithRef) and v.is_real())
        if name == "complex":
            return isinstance(v, complex)
        if name == "str":
            return isinstance(v, str)
        if name == "tuple":
            return isinstance(v, tuple) or (isinstance(v, SymSeq) and v.kind == "tuple")
        if name == "list":
            return isinstance(v, list) or (isinstance(v, SymSeq) and v.kind == "list")
        if name in ("dict", "Mapping"):
            return isinstance(v, dict)
        if name in ("Sequence",):
            return isinstance(v, (list, tuple, SymSeq))
        if name in ("Iterator",):
            return isinstance(v, IterVal)
        if name in ("frozenset", "set"):
            return isinstance(v, (set, frozenset, SymSet))
        if name in ("Number",):
            return is_intlike(v) or isinstance(v, float)
        if name in ("ndarray", "Tensor", "number"):
            return False
        if isinstance(v, Obj):
            return I.repo.is_subclass(v.cls, name)
        return False

    def b_super(*a):
        fr = I.frame
        f = fr
        while f is not None and f.cls_ctx is None:
            f = f.closure
        if f is None:
            raise Unsupported("super() outside a method")
        return SuperVal(f.self_obj, f.cls_ctx)

    def b_sorted(x, key=None, reverse=False):
        if isinstance(x, IterVal):
            x = x.drain()
        def _conc(v):
            return isinstance(v, (int, str, float)) and not isinstance(v, bool) or (isinstance(v, tuple) and all(_conc(e) for e in v))
        if key is None and isinstance(x, (list, tuple)) and all(_conc(v) for v in x):
            return sorted(x, reverse=bool(reverse))              # concrete numbers / strings / tuples of them
        if key is not None or reverse:
            # stable sort by key over a sequence of concrete length: insertion sort branching on the key comparisons
            items = iterate(I, x)
            if len(items) > 6:
                raise Unsupported("sorted with key over a long sequence")
            keyed = [(I.call(key, [it], {}) if key is not None else it, it) for it in items]
            out = []
            for kv, it in keyed:
                pos = len(out)
                for j, (ko, _) in enumerate(out):
                    lt = compare(I, ast.Lt(), kv, ko) if not reverse else compare(I, ast.Gt(), kv, ko)
                    if I.decide(lt):
                        pos = j
                        break
                out.insert(pos, (kv, it))
            return [it for _, it in out]
        if isinstance(x, SymSet):
            # contract of sorted() on a set of ints: the strictly increasing enumeration of its elements
            n = card(I, x)
            arr = z3.Array(I.path.fresh_name("sorted"), IntS, IntS)
            k, j, v = (z3.Int(I.path.fresh_name(s)) for s in ("k_so", "j_so", "v_so"))
            rng = lambda t: z3.And(t >= 0, t < n)
            I.path.assume(z3.ForAll([k], z3.Implies(rng(k), z3.Select(x.arr, arr[k])), patterns=[arr[k]]))
            I.path.assume(z3.ForAll([k, j], z3.Implies(z3.And(rng(k), rng(j), k < j), arr[k] < arr[j]), patterns=[z3.MultiPattern(arr[k], arr[j])]))
            I.path.assume(z3.ForAll([v], z3.Implies(z3.Select(x.arr, v), z3.Exists([k], z3.And(rng(k), arr[k] == v)))))
            I.path.notes.add("sorted(set of ints): trusted contract (strictly increasing enumeration)")
            r = SymSeq(n, lambda i, arr=arr: arr[to_z3(i)], "list")
            r.origin_set = x.arr
            return r
        items = iterate(I, x)
        if all(isinstance(i, (int, str)) for i in items):
            return sorted(items)
        if all(is_intlike(i) for i in items) and len(items) <= 5:
            # insertion sort that branches on the comparisons (each path fixes one order of the symbolic ints)
            out = []
            for it in items:
                pos = len(out)
                for j, o in enumerate(out):
                    if I.decide(to_z3(it) < to_z3(o)):
                        pos = j
                        break
                out.insert(pos, it)
            return out
        raise Unsupported("sorted over symbolic elements")

    def b_frozenset(x=None):
        if x is None:
            return frozenset()
        if not isinstance(x, (SymSet, SymSeq, set, frozenset)) or (isinstance(x, (set, frozenset)) and any(is_eqobj(e) for e in x)):
            try:
                items = iterate(I, x)
            except Unsupported:
                items = None
            if items is not None and items and all(isinstance(e, (Obj, frozenset, tuple, str)) for e in items):
                return eq_frozenset(items)
        if isinstance(x, (set, frozenset)):
            return frozenset(x)
        if isinstance(x, (list, tuple)) and all(isinstance(e, int) for e in x):
            return frozenset(x)
        if isinstance(x, (Obj, range, IterVal)) or (isinstance(x, (list, tuple)) and not x):
            # an iterable object of the repo (e.g. a Scope) / a range / an iterator whose elements turn out to be concrete ints: a concrete set
            try:
                items = iterate(I, x.drain() if isinstance(x, IterVal) else x)
            except Unsupported:
                items = None
            if items is not None and all(isinstance(e, int) and not isinstance(e, bool) for e in items):
                return frozenset(items)
            if items is not None:
                x = items
        return SymSet(_as_set_arr(I, x))

    def b_minmax(is_min):
        def f(*a, **kw):
            if kw:
                raise Unsupported("min/max with key/default")
            xs = iterate(I, a[0]) if len(a) == 1 else list(a)
            if not xs:
                I.raise_("ValueError", "min/max of empty")
            r = xs[0]
            for y in xs[1:]:
                r = zmin(r, y) if is_min else zmax(r, y)
            return r
        return f

    def b_sum(x, start=0):
        r = start
        for v in iterate(I, x):
            r = binop(I, ast.Add(), r, v)
        return r

    def b_int(x=0):
        if is_intlike(x):
            return x
        if isinstance(x, bool):
            return int(x)
        if is_sym_bool(x):
            return z3.If(x, 1, 0)
        if isinstance(x, (float, str)):
            return int(x)
        raise Unsupported("int() of symbolic non-int")

    def b_getattr(o, name, *default):
        try:
            return getattr_(I, o, name)
        except Unsupported:
            if default:
                return default[0]
            raise

    def b_next(it, *default):
        if isinstance(it, IterVal):
            s = it.seq
            if isinstance(s, (list, tuple)):
                if not s:
                    if default:
                        return default[0]
                    I.raise_("StopIteration")
                it.seq = s[1:]
                return s[0]
        if isinstance(it, list):
            if not it:
                if default:
                    return default[0]
                I.raise_("StopIteration")
            return it[0]
        raise Unsupported("next()")

    def b_type(o):
        if isinstance(o, Obj):
            return ClassVal(o.cls)
        if isinstance(o, Opaque) and o.cls is not None:
            return ClassVal(o.cls)
        raise Unsupported("type() of non-object")

    tab = {
        "len": b_len, "range": b_range, "tuple": b_tuple, "list": b_list, "zip": b_zip, "enumerate": b_enumerate,
        "all": lambda x: _quant(x, True), "any": lambda x: _quant(x, False), "isinstance": b_isinstance,
        "super": b_super, "sorted": b_sorted, "frozenset": b_frozenset, "set": lambda x=(): set(hashable(e) for e in iterate(I, x)),
        "min": b_minmax(True), "max": b_minmax(False), "sum": b_sum, "int": b_int,
        "bool": lambda x=False: I.truth(x), "float": lambda x=0.0: x, "abs": lambda x: zite(to_z3(x) >= 0, x, -x) if is_z3(x) else abs(x),
        "iter": lambda x: x if isinstance(x, IterVal) else IterVal(x), "next": b_next,
        "reversed": lambda x: list(reversed(iterate(I, x))), "dict": lambda x=(), **kw: {**({hashable(k): v for k, v in (x.items() if isinstance(x, dict) else iterate(I, x))}), **kw},
        "getattr": b_getattr, "hasattr": lambda o, n: _has(I, o, n), "setattr": lambda o, n, v: setattr_(I, o, n, v), "print": lambda *a, **k: None, "id": lambda o: id(o),
        "type": b_type, "str": lambda x="": (x if isinstance(x, str) else str(x) if isinstance(x, (int, float, bool)) or x is None else _unknown_str()), "repr": lambda x: (repr(x) if isinstance(x, (int, str, float, bool)) or x is None else _unknown_str()),
        "callable": lambda x: isinstance(x, (FuncVal, ClassVal, Builtin, PartialVal, ExternalVal)),
        "issubclass": lambda a, b: I.repo.is_subclass(a.ci, b.ci) if isinstance(a, ClassVal) and isinstance(b, ClassVal) else (
            (a.dotted, b.dotted) in {("numpy.float64", "numpy.floating"), ("numpy.float32", "numpy.floating"), ("numpy.int64", "numpy.integer"), ("numpy.complex128", "numpy.complexfloating")}
            if isinstance(a, ExternalVal) and isinstance(b, ExternalVal) else False),
        "map": lambda f, *xs: [I.call(f, list(a), {}) for a in zip(*[iterate(I, x) for x in xs])],
        "hash": b_hash, "complex": lambda *a: complex(*a), "slice": lambda *a: slice(*a),
        "filter": lambda f, xs: [x for x in iterate(I, xs) if I.decide(I.call(f, [x], {}) if f is not None else x)],
    }
    out = {k: Builtin(k, v) for k, v in tab.items()}
    out["NotImplemented"] = NotImplemented
    out["object"] = Builtin("object", lambda: None)
    return out


def _has(I, o, n):
    try:
        getattr_(I, o, n)
        return True
    except Unsupported:
        return False
