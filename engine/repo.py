"""Mechanical extraction of the code under contract from /repo's working tree.

Every run re-reads the source files, parses them with `ast`, and indexes classes, functions and
imports.  Nothing is imported or executed: the verifier only ever sees source text.

What extraction drops (see DESIGN.md 2.1): docstrings, type annotations, `typing.cast`,
the text of exception messages (f-strings are never evaluated), and the decorators
property / cached_property / staticmethod / classmethod / final / abstractmethod / torch.no_grad.
"""
from __future__ import annotations

import ast
import hashlib
import os
from dataclasses import dataclass, field

REPO = os.environ.get("VERIF_REPO", "/repo")


# decorators whose effect is accounted for: the first group changes only how the function is looked up (kind), the second
# is dropped (no semantic effect on the value computed), the third memoises calls (modelled by the interpreter).  A function
# carrying ANY other decorator is outside the verified subset: calling it makes the obligation `unsupported`.
_DROPPED = {"final", "abstractmethod", "no_grad", "override", "dataclass", "overload", "wraps"}
_MEMO = {"cache", "lru_cache"}


@dataclass
class FuncInfo:
    name: str
    node: ast.FunctionDef
    module: "ModuleInfo"
    cls: "ClassInfo | None" = None
    kind: str = "function"  # function | method | property | staticmethod | classmethod

    @property
    def decorator_names(self):
        return [_deco_name(d) for d in self.node.decorator_list]

    @property
    def memoised(self) -> bool:
        return any(n in _MEMO for n in self.decorator_names)

    @property
    def unknown_decorators(self):
        return [n for n in self.decorator_names if n not in _DECOS and n not in _DROPPED and n not in _MEMO and n != "setter"]

    @property
    def qualname(self) -> str:
        return f"{self.module.relpath}:{self.cls.name + '.' if self.cls else ''}{self.name}"

    def body_hash(self) -> str:
        body = self.node.body
        if body and isinstance(body[0], ast.Expr) and isinstance(getattr(body[0], "value", None), ast.Constant) \
                and isinstance(body[0].value.value, str):
            body = body[1:]
        txt = "\n".join(ast.dump(s, annotate_fields=False) for s in body)
        return hashlib.sha256(txt.encode()).hexdigest()[:16]


@dataclass
class ClassInfo:
    name: str
    node: ast.ClassDef
    module: "ModuleInfo"
    base_exprs: list = field(default_factory=list)
    methods: dict = field(default_factory=dict)  # name -> FuncInfo
    class_attrs: dict = field(default_factory=dict)  # name -> ast expr

    @property
    def qualname(self) -> str:
        return f"{self.module.relpath}:{self.name}"


@dataclass
class ModuleInfo:
    relpath: str
    modname: str
    tree: ast.Module
    functions: dict = field(default_factory=dict)
    classes: dict = field(default_factory=dict)
    imports: dict = field(default_factory=dict)  # local name -> ("module", dotted) | ("from", dotted, name)
    globals_: dict = field(default_factory=dict)  # name -> ast expr (simple module-level assignments)


_DECOS = {"property": "property", "cached_property": "property", "staticmethod": "staticmethod",
          "classmethod": "classmethod"}


def _deco_name(d):
    if isinstance(d, ast.Call):
        d = d.func
    if isinstance(d, ast.Attribute):
        return d.attr
    if isinstance(d, ast.Name):
        return d.id
    return ""


class Repo:
    def __init__(self, root: str = REPO):
        self.root = root
        self.modules: dict[str, ModuleInfo] = {}
        self.touched: dict[str, str] = {}  # qualname -> body hash, for the evidence

    # ------------------------------------------------------------------ loading
    def module_by_path(self, relpath: str) -> ModuleInfo:
        if relpath in self.modules:
            return self.modules[relpath]
        path = os.path.join(self.root, relpath)
        with open(path, encoding="utf-8") as f:
            src = f.read()
        tree = ast.parse(src, filename=path)
        modname = relpath[:-3].replace("/", ".")
        if modname.endswith(".__init__"):
            modname = modname[: -len(".__init__")]
        mi = ModuleInfo(relpath, modname, tree)
        self.modules[relpath] = mi
        for st in tree.body:
            self._index_stmt(mi, st)
        return mi

    def _index_stmt(self, mi, st):
        if isinstance(st, ast.FunctionDef):
            mi.functions[st.name] = FuncInfo(st.name, st, mi)
        elif isinstance(st, ast.ClassDef):
            ci = ClassInfo(st.name, st, mi, base_exprs=list(st.bases))
            for b in st.body:
                if isinstance(b, ast.FunctionDef):
                    kind = "method"
                    setter = False
                    for d in b.decorator_list:
                        dn = _deco_name(d)
                        if dn in _DECOS:
                            kind = _DECOS[dn]
                        if dn == "setter":
                            setter = True
                    if setter:
                        continue
                    ci.methods[b.name] = FuncInfo(b.name, b, mi, ci, kind)
                    if any(_deco_name(d) == "cached_property" for d in b.decorator_list):
                        ci.methods[b.name].cached = True          # computed once per object, then an instance attribute (as in CPython)
                elif isinstance(b, ast.Assign) and len(b.targets) == 1 and isinstance(b.targets[0], ast.Name):
                    ci.class_attrs[b.targets[0].id] = b.value
                elif isinstance(b, ast.AnnAssign) and isinstance(b.target, ast.Name) and b.value is not None:
                    ci.class_attrs[b.target.id] = b.value
            mi.classes[st.name] = ci
        elif isinstance(st, ast.Import):
            for a in st.names:
                mi.imports[a.asname or a.name.split(".")[0]] = ("module", a.name if a.asname else a.name.split(".")[0])
        elif isinstance(st, ast.ImportFrom):
            modname = st.module or ""
            if st.level:
                # relative import: resolve against the package of this module
                pkg = mi.modname.split(".")
                if not mi.relpath.endswith("__init__.py"):
                    pkg = pkg[:-1]
                pkg = pkg[: len(pkg) - (st.level - 1)] if st.level > 1 else pkg
                modname = ".".join(pkg + ([st.module] if st.module else []))
            for a in st.names:
                mi.imports[a.asname or a.name] = ("from", modname, a.name)
        elif isinstance(st, ast.Assign) and len(st.targets) == 1 and isinstance(st.targets[0], ast.Name):
            mi.globals_[st.targets[0].id] = st.value
        elif isinstance(st, ast.AnnAssign) and isinstance(st.target, ast.Name) and st.value is not None:
            mi.globals_[st.target.id] = st.value
        elif isinstance(st, ast.If):
            # `if TYPE_CHECKING:` blocks only carry imports for annotations
            pass

    def module_by_name(self, dotted: str) -> ModuleInfo | None:
        if not dotted.startswith("cirkit"):
            return None
        rel = dotted.replace(".", "/")
        for cand in (rel + ".py", rel + "/__init__.py"):
            if os.path.exists(os.path.join(self.root, cand)):
                return self.module_by_path(cand)
        return None

    # ------------------------------------------------------------------ lookup
    def lookup(self, qual: str):
        """'cirkit/x/y.py:Class.method' | 'cirkit/x/y.py:func' | 'cirkit/x/y.py:Class'"""
        relpath, name = qual.split(":")
        mi = self.module_by_path(relpath)
        if "." in name:
            cname, mname = name.split(".")
            ci = mi.classes[cname]
            fi = self.find_method(ci, mname)
            if fi is None:
                raise KeyError(qual)
            return fi
        if name in mi.classes:
            return mi.classes[name]
        if name in mi.functions:
            return mi.functions[name]
        raise KeyError(qual)

    def resolve_name(self, mi: ModuleInfo, name: str, _depth=0):
        """Resolve a global name used in module `mi` to FuncInfo | ClassInfo | ('external', dotted)
        | ('global', ModuleInfo, ast expr) | None."""
        if name in mi.classes:
            return mi.classes[name]
        if name in mi.functions:
            return mi.functions[name]
        if name in mi.globals_:
            return ("global", mi, mi.globals_[name])
        if name in mi.imports:
            imp = mi.imports[name]
            if imp[0] == "module":
                m2 = self.module_by_name(imp[1])
                return ("module", m2) if m2 is not None else ("external", imp[1])
            _, modname, attr = imp
            m2 = self.module_by_name(modname)
            if m2 is None:
                return ("external", f"{modname}.{attr}")
            if _depth > 8:
                return None
            r = self.resolve_name(m2, attr, _depth + 1)
            if r is None:
                sub = self.module_by_name(f"{modname}.{attr}")
                if sub is not None:
                    return ("module", sub)
            return r
        return None

    # ------------------------------------------------------------------ hierarchy
    def bases(self, ci: ClassInfo) -> list:
        out = []
        for b in ci.base_exprs:
            if isinstance(b, ast.Subscript):
                b = b.value
            if isinstance(b, ast.Name):
                r = self.resolve_name(ci.module, b.id)
                if isinstance(r, ClassInfo):
                    out.append(r)
                else:
                    out.append(("external", b.id))
            elif isinstance(b, ast.Attribute):
                out.append(("external", ast.unparse(b)))
        return out

    def mro(self, ci: ClassInfo) -> list:
        """C3 linearisation over the classes extracted from the repo (external bases are kept as
        ('external', name) markers at the end)."""
        def merge(seqs):
            res = []
            seqs = [list(s) for s in seqs if s]
            while seqs:
                for s in seqs:
                    cand = s[0]
                    if not any(self._same(cand, x) for t in seqs for x in t[1:]):
                        break
                else:
                    raise TypeError("inconsistent MRO for " + ci.name)
                res.append(cand)
                seqs = [[x for x in s if not self._same(x, cand)] for s in seqs]
                seqs = [s for s in seqs if s]
            return res

        def lin(c):
            if not isinstance(c, ClassInfo):
                return [c]
            bs = self.bases(c)
            return [c] + merge([lin(b) for b in bs] + [bs])

        return lin(ci)

    @staticmethod
    def _same(a, b):
        if isinstance(a, ClassInfo) and isinstance(b, ClassInfo):
            return a is b
        return a == b

    def find_method(self, ci: ClassInfo, name: str, after: ClassInfo | None = None):
        seen_after = after is None
        for c in self.mro(ci):
            if not isinstance(c, ClassInfo):
                continue
            if not seen_after:
                if c is after:
                    seen_after = True
                continue
            if name in c.methods:
                return c.methods[name]
        return None

    def find_class_attr(self, ci: ClassInfo, name: str):
        for c in self.mro(ci):
            if isinstance(c, ClassInfo) and name in c.class_attrs:
                return c, c.class_attrs[name]
        return None

    def is_subclass(self, ci: ClassInfo, other) -> bool:
        for c in self.mro(ci):
            if isinstance(other, ClassInfo):
                if c is other:
                    return True
            else:
                if isinstance(c, ClassInfo) and c.name == other:
                    return True
                if isinstance(c, tuple) and c[1].split(".")[-1] == other:
                    return True
        return False

    def touch(self, fi: FuncInfo):
        self.touched[fi.qualname] = fi.body_hash()
