"""Symbolic interpreter over the AST of the real functions (engine A `pyvc`, shared with `tvc`).

One *path* is executed at a time: at a symbolic branch both sides are tested for feasibility under the
path condition and, when both are feasible, the side is taken from a decision vector; the driver
(engine/vc.py) replays the harness with every decision vector, so that all paths are covered.
Callees that have a registered contract summary are replaced by that summary (modular checking);
small helpers without contract are inlined; anything else raises Unsupported (the function is then
reported as out of subset, never as proved).
"""
from __future__ import annotations

import ast
import itertools
import os

import z3

from .repo import ClassInfo, FuncInfo, ModuleInfo, Repo
from .values import *  # noqa


class Unsupported(Exception):
    """Construct outside the verified subset."""


class Infeasible(Exception):
    """The current path condition is unsatisfiable."""


class ReturnEx(Exception):
    def __init__(self, value):
        self.value = value


class BreakEx(Exception):
    pass


class ContinueEx(Exception):
    pass


class UnknownStr:
    """a string whose content the engine does not track (an f-string over symbolic / object values): fine as an error message, but any
    comparison, hashing as a key or attribute lookup with it is outside the subset - never silently equal or unequal to anything"""

    def __vf_compare__(self, I, op, a, b):
        raise Unsupported("comparison of a string of unknown content")

    def __hash__(self):
        raise Unsupported("a string of unknown content used as a key")

    def __repr__(self):
        return "<unknown str>"


class RaiseEx(Exception):
    """A Python exception raised by the code under verification."""

    def __init__(self, name, where=""):
        super().__init__(name)
        self.name = name
        self.where = where


BUILTIN_EXC = {"ValueError", "TypeError", "IndexError", "KeyError", "AssertionError", "NotImplementedError",
               "RuntimeError", "StopIteration", "AttributeError", "Exception", "ZeroDivisionError"}


import math as _math
EXT_CONSTS = {"numpy.pi": _math.pi, "math.pi": _math.pi, "numpy.inf": float("inf"), "math.inf": float("inf")}


class Path:
    def __init__(self, decisions=(), timeout_ms=None):
        if timeout_ms is None:
            timeout_ms = int(os.environ.get("VERIF_BRANCH_TIMEOUT_MS", "10000"))
        self.decisions = list(decisions)
        self.ptr = 0
        self.pc = []
        self.solver = z3.Solver()
        self.solver.set(timeout=timeout_ms)
        self.counters = {}
        self.notes = set()
        self.nchecks = 0

    def fresh_name(self, base):
        n = self.counters.get(base, 0)
        self.counters[base] = n + 1
        return f"{base}!{n}" if n else base

    def fresh_int(self, base):
        return z3.Int(self.fresh_name(base))

    def assume(self, f):
        if f is True:
            return
        if f is False:
            raise Infeasible()
        self.pc.append(f)
        self.solver.add(f)

    def check(self, f):
        self.nchecks += 1
        self.solver.push()
        try:
            self.solver.add(f)
            r = self.solver.check()
        finally:
            self.solver.pop()
        return str(r)

    def feasible(self, f):
        return self.check(f) != "unsat"

    def must(self, f):
        return self.check(z3.Not(f)) == "unsat"

    def branch(self, cond):
        if isinstance(cond, bool):
            return cond
        cond = z3.simplify(cond)
        if z3.is_true(cond):
            return True
        if z3.is_false(cond):
            return False
        can_t = self.feasible(cond)
        can_f = self.feasible(z3.Not(cond))
        if can_t and not can_f:
            return True
        if can_f and not can_t:
            return False
        if not can_t and not can_f:
            raise Infeasible()
        if self.ptr < len(self.decisions):
            d = self.decisions[self.ptr]
        else:
            d = True
            self.decisions.append(True)
        self.ptr += 1
        self.assume(cond if d else z3.Not(cond))
        return d


def _is_generator(node):
    """does the function body contain a yield of its own (not of a nested def / lambda)?"""
    stack = list(node.body)
    while stack:
        n = stack.pop()
        if isinstance(n, (ast.Yield, ast.YieldFrom)):
            return True
        if isinstance(n, (ast.FunctionDef, ast.Lambda, ast.ClassDef, ast.AsyncFunctionDef)):
            continue
        stack.extend(ast.iter_child_nodes(n))
    return False


class _Default:
    def __init__(self, expr):
        self.expr = expr


class Frame:
    def __init__(self, func, locals_, closure=None, cls_ctx=None, self_obj=None, module=None):
        self.func = func
        self.locals = locals_
        self.closure = closure
        self.cls_ctx = cls_ctx
        self.self_obj = self_obj
        self.module = module


def zand(*xs):
    xs = [x for x in xs if x is not True]
    if any(x is False for x in xs):
        return False
    if not xs:
        return True
    return z3.And(*[to_z3(x) for x in xs]) if len(xs) > 1 else to_z3(xs[0])


def zor(*xs):
    xs = [x for x in xs if x is not False]
    if any(x is True for x in xs):
        return True
    if not xs:
        return False
    return z3.Or(*[to_z3(x) for x in xs]) if len(xs) > 1 else to_z3(xs[0])


def znot(x):
    if isinstance(x, bool):
        return not x
    return z3.Not(x)


def zite(c, a, b):
    if isinstance(c, bool):
        return a if c else b
    return z3.If(c, to_z3(a), to_z3(b))


def zmin(a, b):
    if isinstance(a, int) and isinstance(b, int):
        return min(a, b)
    return z3.If(to_z3(a) <= to_z3(b), to_z3(a), to_z3(b))


def zmax(a, b):
    if isinstance(a, int) and isinstance(b, int):
        return max(a, b)
    return z3.If(to_z3(a) >= to_z3(b), to_z3(a), to_z3(b))


class Interp:
    MAX_UNROLL = 64

    def __init__(self, repo: Repo, path: Path):
        self.repo = repo
        self.path = path
        self.frames: list[Frame] = []
        self.pure = 0  # >0 while evaluating the body of a quantified comprehension
        self.summaries = {}  # qualname -> callable(interp, args, kwargs)
        self.externals = {}  # dotted name -> callable(interp, args, kwargs)
        self.inlined = set()
        self.depth = 0
        from . import builtins_ as B
        self.B = B
        self.builtins = B.make_builtins(self)

    # ------------------------------------------------------------------ helpers
    @property
    def frame(self):
        return self.frames[-1]

    def fresh_seq(self, name, positive=False, min_len=0, kind="tuple"):
        n = self.path.fresh_int(f"len_{name}")
        arr = z3.Array(self.path.fresh_name(f"arr_{name}"), IntS, IntS)
        self.path.assume(n >= min_len)
        if positive:
            k = z3.Int(f"k_{name}")
            self.path.assume(z3.ForAll([k], z3.Implies(z3.And(k >= 0, k < n), arr[k] >= 1), patterns=[arr[k]]))
        return SymSeq(n, lambda i, arr=arr: arr[to_z3(i)], kind, name)

    def truth(self, v):
        """Python truthiness as bool (concrete) or z3 Bool."""
        if v is None:
            return False
        if isinstance(v, (bool, int, float, str)):
            return bool(v)
        if is_sym_bool(v):
            return v
        if is_sym_int(v):
            return v != 0
        if isinstance(v, z3.ArithRef):
            return v != 0
        if isinstance(v, SymSeq):
            return to_z3(v.length) > 0 if is_z3(v.length) else v.length > 0
        if isinstance(v, SymSet):
            return v.arr != EMPTY
        if isinstance(v, (list, tuple, dict, set, frozenset)):
            return len(v) > 0
        if isinstance(v, Obj):
            m = self.repo.find_method(v.cls, "__bool__") or self.repo.find_method(v.cls, "__len__")
            if m is not None:
                r = self.call_func(FuncVal(m, v, cls_ctx=m.cls), [], {})
                return self.truth(r)
            return True
        if isinstance(v, self.B.IterVal):
            raise Unsupported("truthiness of an iterator")
        h = getattr(v, "__vf_truth__", None)
        if h is not None:
            return h(self)
        h = getattr(v, "__vf_len__", None)
        if h is not None:
            n = h(self)
            return n > 0 if isinstance(n, int) else to_z3(n) > 0
        if type(v).__name__ == "Tensor":
            raise Unsupported("truthiness of a tensor with more than one element")
        return True

    def decide(self, v):
        t = self.truth(v)
        if isinstance(t, bool):
            return t
        if self.pure:
            raise Unsupported("symbolic branch inside a quantified comprehension body")
        return self.path.branch(t)

    def raise_(self, name, where=""):
        fn = next((fr.func.qualname for fr in reversed(self.frames) if getattr(fr, "func", None) is not None), "")
        raise RaiseEx(name, f"{fn} {where}".strip())

    # ------------------------------------------------------------------ names
    def lookup_name(self, name):
        fr = self.frame
        if name in fr.locals:
            return fr.locals[name]
        cl = fr.closure
        while cl is not None:
            if name in cl.locals:
                return cl.locals[name]
            cl = cl.closure
        if fr.module is not None:
            r = self.repo.resolve_name(fr.module, name)
            if r is not None:
                return self.wrap_resolved(r)
        if name in self.builtins:
            return self.builtins[name]
        if name in BUILTIN_EXC:
            return ExcVal(name)
        raise Unsupported(f"unresolved name {name}")

    def wrap_resolved(self, r):
        if isinstance(r, FuncInfo):
            return FuncVal(r)
        if isinstance(r, ClassInfo):
            return ClassVal(r)
        if isinstance(r, tuple):
            if r[0] == "external":
                return self.external(r[1])
            if r[0] == "module":
                return ModuleVal(r[1])
            if r[0] == "global":
                _, mi, expr = r
                ov = self.__dict__.get("global_overrides", {})
                for gname, gexpr in mi.globals_.items():
                    if gexpr is expr and (mi.relpath, gname) in ov:
                        return ov[(mi.relpath, gname)]
                # a module-level assignment is evaluated once (module initialisation) and the object is shared afterwards
                cache = self.__dict__.setdefault("_globals_cache", {})
                key = (mi.relpath, id(expr))
                if key not in cache:
                    self.frames.append(Frame(None, {}, module=mi))
                    try:
                        cache[key] = self.eval(expr)
                    finally:
                        self.frames.pop()
                return cache[key]
        raise Unsupported(f"cannot wrap {r}")

    def external(self, dotted):
        last = dotted.split(".")[-1]
        if last in BUILTIN_EXC:
            return ExcVal(last)
        if dotted in EXT_CONSTS:
            return EXT_CONSTS[dotted]
        return ExternalVal(dotted)

    # ------------------------------------------------------------------ calls
    def call_qual(self, qual, *args, **kwargs):
        target = self.repo.lookup(qual)
        if isinstance(target, ClassInfo):
            return self.call(ClassVal(target), list(args), kwargs)
        return self.call(FuncVal(target, cls_ctx=target.cls), list(args), kwargs)

    def call(self, f, args, kwargs):
        if isinstance(f, FuncVal):
            return self.call_func(f, args, kwargs)
        if isinstance(f, ClassVal):
            return self.instantiate(f.ci, args, kwargs)
        if isinstance(f, Builtin):
            return f.fn(*args, **kwargs)
        if isinstance(f, BoundBuiltin):
            return f.fn(*args, **kwargs)
        if isinstance(f, ExcVal):
            return ExcVal(f.name, args)
        if isinstance(f, PartialVal):
            return self.call(f.func, list(f.args) + list(args), {**f.kwargs, **kwargs})
        if isinstance(f, ExternalVal):
            h = self.externals.get(f.dotted)
            if h is None:
                raise Unsupported(f"call to external {f.dotted}")
            return h(self, args, kwargs)
        if isinstance(f, Obj):
            m = self.repo.find_method(f.cls, "__call__")
            if m is not None:
                return self.call_func(FuncVal(m, f, cls_ctx=m.cls), args, kwargs)
        if isinstance(f, Opaque) and "__vf_call__" in f.__dict__:
            return f.__dict__["__vf_call__"](*args, **kwargs)
        if callable(f) and not is_z3(f):
            return f(*args, **kwargs)
        raise Unsupported(f"call of {f!r}")

    def instantiate(self, ci: ClassInfo, args, kwargs):
        if self.repo.is_subclass(ci, "Exception") or self.repo.is_subclass(ci, "BaseException"):
            return ExcVal(ci.name, args)
        if self.repo.is_subclass(ci, "IntEnum") or self.repo.is_subclass(ci, "Enum"):
            raise Unsupported("enum construction")
        s = self.summaries.get(ci.qualname)
        if s is not None:
            return s(self, args, kwargs)
        obj = Obj(ci)
        init = self.repo.find_method(ci, "__init__")
        if init is not None:
            self.call_func(FuncVal(init, obj, cls_ctx=init.cls), args, kwargs)
        elif args or kwargs:
            # dataclass / NamedTuple style records: positional or keyword fields in declaration order
            names = [st.target.id for st in ci.node.body if isinstance(st, ast.AnnAssign) and isinstance(st.target, ast.Name)]
            for n, a in zip(names, args):
                obj.fields[n] = a
            obj.fields.update(kwargs)
        return obj

    def bind(self, node: ast.FunctionDef, args, kwargs, self_obj=None, is_cls=False):
        a = node.args
        params = [p.arg for p in a.posonlyargs + a.args]
        loc = {}
        args = list(args)
        if self_obj is not None:
            args = [self_obj] + args
        defaults = a.defaults
        ndef = len(defaults)
        npos = len(params)
        for i, p in enumerate(params):
            if i < len(args):
                loc[p] = args[i]
            elif p in kwargs:
                loc[p] = kwargs.pop(p)
            else:
                di = i - (npos - ndef)
                if di < 0:
                    raise Unsupported(f"missing argument {p} in call to {node.name}")
                loc[p] = _Default(defaults[di])
        extra = args[npos:]
        if a.vararg is not None:
            loc[a.vararg.arg] = tuple(extra)
        elif extra:
            raise Unsupported(f"too many positional arguments for {node.name}")
        for p, d in zip(a.kwonlyargs, a.kw_defaults):
            if p.arg in kwargs:
                loc[p.arg] = kwargs.pop(p.arg)
            elif d is not None:
                loc[p.arg] = _Default(d)
            else:
                raise Unsupported(f"missing keyword argument {p.arg} in call to {node.name}")
        if a.kwarg is not None:
            loc[a.kwarg.arg] = dict(kwargs)
        elif kwargs:
            raise Unsupported(f"unexpected keyword arguments {list(kwargs)} for {node.name}")
        return loc

    def call_func(self, f: FuncVal, args, kwargs):
        info = f.info
        kwargs = dict(kwargs)
        s = self.summaries.get(info.qualname)
        if s is not None:
            a = ([f.self_obj] if f.self_obj is not None else []) + list(args)
            return s(self, a, kwargs)
        self.repo.touch(info)
        if getattr(info, "unknown_decorators", None):
            raise Unsupported(f"function {info.qualname} carries decorators outside the verified subset: {info.unknown_decorators}")
        if getattr(info, "memoised", False):
            # functools.cache / lru_cache: one evaluation per distinct argument tuple (arguments compared by identity / value)
            memo = self.__dict__.setdefault("_memo", {})
            try:
                key = (info.qualname, tuple(self.B.hashable(a) if not isinstance(a, ClassVal) else a for a in
                                            ([f.self_obj] if isinstance(f.self_obj, ClassVal) else []) + list(args)),
                       tuple(sorted((k, self.B.hashable(v)) for k, v in kwargs.items())))
            except Unsupported:
                raise Unsupported(f"memoised function {info.qualname} called with unhashable / symbolic arguments")
            if key in memo:
                return memo[key]
            r = self._call_func_body(f, args, kwargs)
            memo[key] = r
            return r
        return self._call_func_body(f, args, kwargs)

    def _call_func_body(self, f, args, kwargs):
        info = f.info
        self_obj = f.self_obj
        if info.kind == "staticmethod":
            self_obj = None
        elif info.kind == "classmethod":
            self_obj = ClassVal(f.cls_ctx or info.cls) if not isinstance(f.self_obj, ClassVal) else f.self_obj
        loc = self.bind(info.node, args, kwargs, self_obj)
        fr = Frame(info, loc, closure=f.closure, cls_ctx=info.cls, self_obj=self_obj, module=info.module)
        self.depth += 1
        if self.depth > 60:
            raise Unsupported("call depth exceeded (recursion without contract?)")
        self.frames.append(fr)
        is_gen = _is_generator(info.node)
        if is_gen:
            # generator functions are run eagerly and their yields collected (assumption: the consumer does not
            # mutate what the generator reads between resumptions; recorded in the evidence)
            fr.yields = []
            self.path.notes.add("generator functions evaluated eagerly (yields collected into a list)")
        try:
            for k, v in list(loc.items()):
                if isinstance(v, _Default):
                    loc[k] = self.eval(v.expr)
            try:
                self.exec_block(info.node.body)
            except ReturnEx as r:
                if is_gen:
                    return self.B.IterVal(list(fr.yields))
                return r.value
            if is_gen:
                return self.B.IterVal(list(fr.yields))
            return None
        finally:
            self.frames.pop()
            self.depth -= 1

    # ------------------------------------------------------------------ statements
    def exec_block(self, stmts):
        for st in stmts:
            self.exec(st)

    def exec(self, st):
        m = getattr(self, "exec_" + type(st).__name__, None)
        if m is None:
            raise Unsupported(f"statement {type(st).__name__}")
        return m(st)

    def exec_Expr(self, st):
        if isinstance(st.value, ast.Constant):
            return
        self.eval(st.value)

    def exec_Pass(self, st):
        pass

    def exec_Return(self, st):
        raise ReturnEx(self.eval(st.value) if st.value is not None else None)

    def exec_Break(self, st):
        raise BreakEx()

    def exec_Continue(self, st):
        raise ContinueEx()

    def exec_Assign(self, st):
        v = self.eval(st.value)
        for t in st.targets:
            self.assign(t, v)

    def exec_AnnAssign(self, st):
        if st.value is not None:
            self.assign(st.target, self.eval(st.value))

    def exec_AugAssign(self, st):
        cur = self.eval(ast.copy_location(self._load(st.target), st))
        v = self.B.binop(self, st.op, cur, self.eval(st.value))
        self.assign(st.target, v)

    @staticmethod
    def _load(t):
        if isinstance(t, ast.Name):
            return ast.Name(id=t.id, ctx=ast.Load())
        if isinstance(t, ast.Attribute):
            return ast.Attribute(value=t.value, attr=t.attr, ctx=ast.Load())
        if isinstance(t, ast.Subscript):
            return ast.Subscript(value=t.value, slice=t.slice, ctx=ast.Load())
        raise Unsupported("augassign target")

    def assign(self, t, v):
        if isinstance(t, ast.Name):
            self.frame.locals[t.id] = v
        elif isinstance(t, ast.Attribute):
            o = self.eval(t.value)
            self.B.setattr_(self, o, t.attr, v)
        elif isinstance(t, ast.Subscript):
            o = self.eval(t.value)
            k = self.eval(t.slice)
            self.B.setitem(self, o, k, v)
        elif isinstance(t, (ast.Tuple, ast.List)):
            items = self.B.iterate(self, v)
            star = [i for i, e in enumerate(t.elts) if isinstance(e, ast.Starred)]
            if star:
                si = star[0]
                after = len(t.elts) - si - 1
                if len(items) < len(t.elts) - 1:
                    self.raise_("ValueError", "unpack")
                for e, x in zip(t.elts[:si], items[:si]):
                    self.assign(e, x)
                self.assign(t.elts[si].value, list(items[si:len(items) - after]))
                for e, x in zip(t.elts[si + 1:], items[len(items) - after:]):
                    self.assign(e, x)
            else:
                if len(items) != len(t.elts):
                    self.raise_("ValueError", "unpack")
                for e, x in zip(t.elts, items):
                    self.assign(e, x)
        else:
            raise Unsupported(f"assignment target {type(t).__name__}")

    def exec_If(self, st):
        if self.decide(self.eval(st.test)):
            self.exec_block(st.body)
        else:
            self.exec_block(st.orelse)

    def exec_Assert(self, st):
        if not self.decide(self.eval(st.test)):
            self.raise_("AssertionError", f"line {st.lineno}")

    def exec_Raise(self, st):
        if st.exc is None:
            raise Unsupported("bare raise")
        e = st.exc
        # the *text* of the message is dropped: only the class is evaluated
        if isinstance(e, ast.Call):
            cls = self.eval(e.func)
        else:
            cls = self.eval(e)
        if isinstance(cls, ExcVal):
            self.raise_(cls.name, f"line {st.lineno}")
        if isinstance(cls, ClassVal):
            self.raise_(cls.ci.name, f"line {st.lineno}")
        raise Unsupported("raise of non-exception")

    def exec_For(self, st):
        it = self.eval(st.iter)
        nxt = getattr(it, "__vf_next__", None)
        if nxt is not None:
            # a LAZY iterator supplied by a contract harness (e.g. a generator that reads state the loop body updates): one item per
            # iteration, computed when the iteration starts
            n, broke = 0, False
            while True:
                has, x = nxt(self)
                if not has:
                    break
                n += 1
                if n > self.MAX_UNROLL:
                    raise Unsupported("loop too long to unroll")
                self.assign(st.target, x)
                try:
                    self.exec_block(st.body)
                except BreakEx:
                    broke = True
                    break
                except ContinueEx:
                    continue
            if not broke:
                self.exec_block(st.orelse)
            return
        if type(it) is list:
            # a Python list is iterated LIVE, by index, as CPython does: a body that removes / inserts elements of the list it iterates over
            # skips or repeats elements exactly as the real run would
            class _Live:
                def __iter__(s):
                    i = 0
                    while i < len(it):
                        if i >= self.MAX_UNROLL:
                            raise Unsupported("loop too long to unroll")
                        yield it[i]
                        i += 1
            items = _Live()
        else:
            items = self.B.iterate(self, it)
            if len(items) > self.MAX_UNROLL:
                raise Unsupported("loop too long to unroll")
        broke = False
        for x in items:
            self.assign(st.target, x)
            try:
                self.exec_block(st.body)
            except BreakEx:
                broke = True
                break
            except ContinueEx:
                continue
        if not broke:
            self.exec_block(st.orelse)

    def exec_While(self, st):
        n = 0
        while self.decide(self.eval(st.test)):
            n += 1
            if n > self.MAX_UNROLL:
                raise Unsupported("while loop exceeds unrolling bound (needs an invariant)")
            try:
                self.exec_block(st.body)
            except BreakEx:
                break
            except ContinueEx:
                continue

    def exec_FunctionDef(self, st):
        fi = FuncInfo(st.name, st, self.frame.module, None, "function")
        self.frame.locals[st.name] = FuncVal(fi, closure=self.frame)

    def exec_Match(self, st):
        """match / case restricted to class patterns without sub-patterns (`case str():`, `case Sequence():`), literal
        patterns and the wildcard: anything else is outside the subset"""
        subject = self.eval(st.subject)

        def matches(pat):
            if isinstance(pat, ast.MatchClass) and not pat.patterns and not pat.kwd_patterns:
                return self.decide(self.builtins["isinstance"].fn(subject, self.eval(pat.cls)))
            if isinstance(pat, ast.MatchAs) and pat.pattern is None:
                if pat.name:
                    self.frame.locals[pat.name] = subject
                return True
            if isinstance(pat, ast.MatchValue):
                return self.decide(self.B.equal(self, subject, self.eval(pat.value)))
            if isinstance(pat, ast.MatchOr):               # `case A() | B():` - alternatives tried left to right (no captures inside)
                return any(matches(q) for q in pat.patterns)
            raise Unsupported("match pattern " + type(pat).__name__)
        for case in st.cases:
            pat = case.pattern
            if case.guard is not None:
                raise Unsupported("match guard")
            ok = matches(pat)
            if ok:
                self.exec_block(case.body)
                return

    def exec_Delete(self, st):
        for t in st.targets:
            if isinstance(t, ast.Subscript):
                o = self.eval(t.value)
                k = self.eval(t.slice)
                if isinstance(o, list) and isinstance(k, int):
                    if not -len(o) <= k < len(o):
                        self.raise_("IndexError", "del list item")
                    del o[k]
                elif isinstance(o, dict):
                    hk = self.B.hashable(k)
                    if hk not in o:
                        self.raise_("KeyError", "del dict item")
                    del o[hk]
                else:
                    raise Unsupported("del of a symbolic item")
            elif isinstance(t, ast.Name):
                self.frame.locals.pop(t.id, None)
            else:
                raise Unsupported("del target")

    def exec_With(self, st):
        raise Unsupported("with statement")

    def exec_Try(self, st):
        """try / except over the exceptions *raised by the code under verification* (RaiseEx); control-flow exceptions of
        the interpreter (return / break / continue) pass through; `finally` always runs"""
        try:
            try:
                self.exec_block(st.body)
            except RaiseEx as e:
                for h in st.handlers:
                    if h.type is None or self._exc_matches(e.name, self.eval(h.type)):
                        if h.name:
                            self.frame.locals[h.name] = ExcVal(e.name)
                        self.exec_block(h.body)
                        break
                else:
                    raise
            else:
                self.exec_block(st.orelse)
        finally:
            if st.finalbody:
                self.exec_block(st.finalbody)

    def _exc_matches(self, name, spec):
        if isinstance(spec, tuple):
            return any(self._exc_matches(name, x) for x in spec)
        if isinstance(spec, ExcVal):
            return spec.name in (name, "Exception", "BaseException")
        if isinstance(spec, ClassVal):
            return spec.ci.name == name
        return False

    def exec_Import(self, st):
        raise Unsupported("local import")

    def exec_ImportFrom(self, st):
        raise Unsupported("local import")

    # ------------------------------------------------------------------ expressions
    def eval(self, e):
        m = getattr(self, "eval_" + type(e).__name__, None)
        if m is None:
            raise Unsupported(f"expression {type(e).__name__}")
        return m(e)

    def eval_Constant(self, e):
        return e.value

    def eval_Name(self, e):
        return self.lookup_name(e.id)

    def eval_JoinedStr(self, e):
        """f-strings: formatted for real when every part is a concrete Python scalar (they may be used as attribute names / keys, e.g.
        f"_in_fold_idx_{i}_{j}"); otherwise an UNKNOWN string that cannot be compared (error messages are the usual case)"""
        parts = []
        for v in e.values:
            if isinstance(v, ast.Constant):
                parts.append(str(v.value))
                continue
            if isinstance(v, ast.FormattedValue) and v.format_spec is None and v.conversion in (-1, 115):
                try:
                    val = self.eval(v.value)
                except Unsupported:
                    return UnknownStr()
                if isinstance(val, (int, str, float, bool)) or val is None:
                    parts.append(str(val))
                    continue
            return UnknownStr()
        return "".join(parts)

    def eval_Tuple(self, e):
        return self.B.build_seq(self, e.elts, "tuple")

    def eval_List(self, e):
        return self.B.build_seq(self, e.elts, "list")

    def eval_Set(self, e):
        out = set()
        for x in e.elts:
            out.add(self.B.canon_key(out, self.eval(x)))
        return out

    def eval_Dict(self, e):
        d = {}
        for k, v in zip(e.keys, e.values):
            if k is None:
                d.update(self.eval(v))
            else:
                d[self.B.canon_key(d.keys(), self.eval(k))] = self.eval(v)
        return d

    def eval_Attribute(self, e):
        return self.B.getattr_(self, self.eval(e.value), e.attr)

    def eval_Subscript(self, e):
        o = self.eval(e.value)
        if isinstance(e.slice, ast.Slice):
            lo = self.eval(e.slice.lower) if e.slice.lower is not None else None
            hi = self.eval(e.slice.upper) if e.slice.upper is not None else None
            st = self.eval(e.slice.step) if e.slice.step is not None else None
            return self.B.getslice(self, o, lo, hi, st)
        return self.B.getitem(self, o, self.eval(e.slice))

    def eval_Slice(self, e):
        lo = self.eval(e.lower) if e.lower is not None else None
        hi = self.eval(e.upper) if e.upper is not None else None
        st = self.eval(e.step) if e.step is not None else None
        return slice(lo, hi, st)

    def eval_Starred(self, e):
        raise Unsupported("starred expression outside call/sequence")

    def eval_UnaryOp(self, e):
        v = self.eval(e.operand)
        if isinstance(e.op, ast.Not):
            t = self.truth(v)
            return (not t) if isinstance(t, bool) else z3.Not(t)
        if isinstance(e.op, ast.USub):
            return -v
        if isinstance(e.op, ast.UAdd):
            return v
        raise Unsupported("unary op")

    def eval_BinOp(self, e):
        return self.B.binop(self, e.op, self.eval(e.left), self.eval(e.right))

    def eval_BoolOp(self, e):
        is_and = isinstance(e.op, ast.And)
        if self.pure:
            vals = [self.truth(self.eval(v)) for v in e.values]
            return zand(*vals) if is_and else zor(*vals)
        v = None
        for i, sub in enumerate(e.values):
            v = self.eval(sub)
            if i == len(e.values) - 1:
                return v
            t = self.decide(v)
            if is_and and not t:
                return v if not is_z3(v) else False
            if not is_and and t:
                return v if not is_z3(v) else True
        return v

    def eval_Compare(self, e):
        left = self.eval(e.left)
        res = True
        for op, r in zip(e.ops, e.comparators):
            right = self.eval(r)
            c = self.B.compare(self, op, left, right)
            if not isinstance(c, bool) and not is_z3(c):
                # an elementwise comparison (e.g. of tensors) yields a value, not a truth value
                if len(e.ops) != 1:
                    raise Unsupported("chained comparison of non-scalar values")
                return c
            res = zand(res, c)
            if res is False:
                return False
            left = right
        return res

    def eval_IfExp(self, e):
        c = self.truth(self.eval(e.test))
        if isinstance(c, bool):
            return self.eval(e.body if c else e.orelse)
        if self.pure:
            a, b = self.eval(e.body), self.eval(e.orelse)
            return z3.If(c, to_z3(a), to_z3(b))
        return self.eval(e.body) if self.path.branch(c) else self.eval(e.orelse)

    def eval_Lambda(self, e):
        fn = ast.FunctionDef(name="<lambda>", args=e.args, body=[ast.Return(value=e.body)], decorator_list=[],
                             lineno=e.lineno, col_offset=e.col_offset)
        fi = FuncInfo("<lambda>", fn, self.frame.module, None, "function")
        return FuncVal(fi, closure=self.frame)

    def eval_Call(self, e):
        f = self.eval(e.func)
        args = []
        for a in e.args:
            if isinstance(a, ast.Starred):
                args.extend(self.B.iterate(self, self.eval(a.value)))
            else:
                args.append(self.eval(a))
        kwargs = {}
        for k in e.keywords:
            if k.arg is None:
                kwargs.update(self.eval(k.value))
            else:
                kwargs[k.arg] = self.eval(k.value)
        return self.call(f, args, kwargs)

    def _gen_frame(self):
        for fr in reversed(self.frames):
            if hasattr(fr, "yields"):
                return fr
        raise Unsupported("yield outside a generator function")

    def eval_Yield(self, e):
        self._gen_frame().yields.append(self.eval(e.value) if e.value is not None else None)
        return None

    def eval_YieldFrom(self, e):
        self._gen_frame().yields.extend(self.B.iterate(self, self.eval(e.value)))
        return None

    def eval_GeneratorExp(self, e):
        # evaluated eagerly, but handed out as a ONE-SHOT iterator: a second iteration finds it exhausted (Python semantics)
        return self.B.IterVal(self.B.comprehension(self, e.elt, e.generators, "gen"))

    def eval_ListComp(self, e):
        return self.B.comprehension(self, e.elt, e.generators, "list")

    def eval_SetComp(self, e):
        r = self.B.comprehension(self, e.elt, e.generators, "list")
        if isinstance(r, list) and any(is_z3(x) for x in r):
            # a set of (symbolic) integers: duplicates are removed by deciding the equalities (the path branches)
            out = []
            for x in r:
                if not any((x is y) or self.decide(self.B.equal(self, x, y)) for y in out):
                    out.append(x)
            return SymIntSet(out)
        if isinstance(r, list):
            return set(self.B.hashable(x) for x in r)
        raise Unsupported("symbolic set comprehension")

    def eval_DictComp(self, e):
        pairs = self.B.comprehension(self, ast.Tuple(elts=[e.key, e.value], ctx=ast.Load()), e.generators, "list")
        return {self.B.hashable(k): v for k, v in pairs}
